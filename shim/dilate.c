/* LD_PRELOAD clock-dilation shim (C19): makes the monotonic clocks of the process run K times
 * faster (K = $VH_DILATE, default 1) and shortens epoll_wait timeouts accordingly, so that the
 * unmodified agent binary runs its real select!/Interval/back-off loop at K x speed.
 * CLOCK_REALTIME is untouched (log timestamps stay meaningful).                                  */
#define _GNU_SOURCE
#include <dlfcn.h>
#include <stdlib.h>
#include <sys/epoll.h>
#include <time.h>
#include <signal.h>

static int (*real_clock_gettime)(clockid_t, struct timespec *);
static int (*real_epoll_wait)(int, struct epoll_event *, int, int);
static int (*real_epoll_pwait)(int, struct epoll_event *, int, int, const sigset_t *);
static double K = 1.0;
static struct timespec base_mono;
static int inited;

static void init(void) {
    if (inited) return;
    real_clock_gettime = dlsym(RTLD_NEXT, "clock_gettime");
    real_epoll_wait = dlsym(RTLD_NEXT, "epoll_wait");
    real_epoll_pwait = dlsym(RTLD_NEXT, "epoll_pwait");
    const char *k = getenv("VH_DILATE");
    if (k) K = atof(k);
    if (K < 1.0) K = 1.0;
    real_clock_gettime(CLOCK_MONOTONIC, &base_mono);
    inited = 1;
}

static int is_mono(clockid_t id) {
    return id == CLOCK_MONOTONIC || id == CLOCK_MONOTONIC_RAW || id == CLOCK_MONOTONIC_COARSE || id == CLOCK_BOOTTIME;
}

int clock_gettime(clockid_t id, struct timespec *ts) {
    init();
    int r = real_clock_gettime(id, ts);
    if (r == 0 && is_mono(id) && K > 1.0) {
        double d = (double)(ts->tv_sec - base_mono.tv_sec) + (double)(ts->tv_nsec - base_mono.tv_nsec) / 1e9;
        if (d < 0) d = 0;
        d *= K;
        double s = (double)base_mono.tv_sec + (double)base_mono.tv_nsec / 1e9 + d;
        ts->tv_sec = (time_t)s;
        ts->tv_nsec = (long)((s - (double)ts->tv_sec) * 1e9);
    }
    return r;
}

static int scale_timeout(int timeout) {
    if (timeout > 0 && K > 1.0) {
        int t = (int)((double)timeout / K);
        return t < 1 ? 1 : t;
    }
    return timeout;
}

int epoll_wait(int epfd, struct epoll_event *events, int maxevents, int timeout) {
    init();
    return real_epoll_wait(epfd, events, maxevents, scale_timeout(timeout));
}

int epoll_pwait(int epfd, struct epoll_event *events, int maxevents, int timeout, const sigset_t *sigmask) {
    init();
    return real_epoll_pwait(epfd, events, maxevents, scale_timeout(timeout), sigmask);
}
