#!/bin/sh
# Build the framework offline from files on disk (run once in /verif after a fresh restore).
set -e
cd "$(dirname "$0")"
export CARGO_NET_OFFLINE=true
mkdir -p target evidence
[ -f harness/Cargo.lock ] || cp /repo/Cargo.lock harness/Cargo.lock
(cd harness && cargo build --release --offline)
echo "setup: harness built"
