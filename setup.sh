#!/bin/sh
# Build the framework offline from files on disk (run once in /verif after a fresh restore).
set -e
cd "$(dirname "$0")"
V=$(pwd)
export CARGO_NET_OFFLINE=true
mkdir -p target evidence
[ -f harness/Cargo.lock ] || cp /repo/Cargo.lock harness/Cargo.lock
[ -f irrfake/Cargo.lock ] || cp /repo/Cargo.lock irrfake/Cargo.lock
(cd harness && cargo build --release --offline)
(cd /repo && cargo build --release --offline -p bgpfu-cli -p bgpfu-junos-agent --target-dir "$V/target/repo")
gcc -O2 -shared -fPIC -o target/dilate.so shim/dilate.c -ldl
# secondary oracle: the interpreter build is prepared here so that the quick checks only run it
(cd harness && MIRIFLAGS=-Zmiri-disable-isolation cargo +nightly miri run --offline --no-default-features --target-dir "$V/target/miri" -q -- noop) || echo "setup: miri build failed (stages will report inconclusive (tool))"
echo "setup: done"
