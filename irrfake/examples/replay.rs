//! Replay one case: `cargo run --example replay -- (--seed N [--size S] | --db FILE.json) [--gen EXPR_SEED DEPTH | 'EXPR']`
//! Evaluates the expression with the real `bgpfu::RpslEvaluator` against a fake IRRd serving the
//! database, and with the reference evaluator, and prints both plus the first disagreeing probe.

use ip::traits::PrefixSet as _;
use irrfake::db::{generate, Db, Size};
use irrfake::expr::{generate_expr, parse, parse_range_line, probes, range_contains, Policy, Range, RefEval};
use irrfake::server::{Faults, Server};

fn main() {
    let args: Vec<String> = std::env::args().skip(1).collect();
    let (mut seed, mut size, mut file, mut text, mut gen) = (0u64, Size::Small, None, None, None);
    let mut it = args.iter();
    while let Some(a) = it.next() {
        match a.as_str() {
            "--seed" => seed = it.next().unwrap().parse().unwrap(),
            "--size" => size = Size::parse(it.next().unwrap()).unwrap(),
            "--db" => file = it.next().cloned(),
            "--gen" => gen = Some((it.next().unwrap().parse::<u64>().unwrap(), it.next().unwrap().parse::<u32>().unwrap())),
            _ => text = Some(a.clone()),
        }
    }
    let db = match file {
        Some(f) => Db::from_json(&serde_json::from_str(&std::fs::read_to_string(f).unwrap()).unwrap()).unwrap(),
        None => generate(seed, size),
    };
    let expr = match (gen, text) {
        (Some((s, d)), _) => generate_expr(s, &db, d),
        (None, Some(t)) => parse(&t).expect("expression does not parse"),
        _ => panic!("need an expression or --gen"),
    };
    let text = expr.to_rpsl();
    println!("expr: {text}");
    let server = Server::start(db.clone(), Faults::default()).unwrap();
    let t0 = std::time::Instant::now();
    let parsed: rpsl::expr::MpFilterExpr = text.parse().expect("rpsl parse");
    let mut ev = bgpfu::RpslEvaluator::new("127.0.0.1", server.port()).unwrap();
    let real: Result<Vec<Range>, String> = ev.evaluate(parsed).map(|set| set.ranges().map(|r| parse_range_line(&r.to_string()).unwrap()).collect()).map_err(|e| format!("{e:?}"));
    println!("real ({:?}): {}", t0.elapsed(), match &real {
        Ok(r) => format!("{} ranges: {}", r.len(), r.iter().take(40).map(Range::to_string).collect::<Vec<_>>().join(" ")),
        Err(e) => format!("ERROR {e}"),
    });
    let t0 = std::time::Instant::now();
    match (RefEval::new(&expr, &db, &Policy::STRICT), real) {
        (Ok(reference), Ok(ranges)) => {
            let ps = probes(&expr, &db, &ranges, 200, 0);
            let bad = ps.iter().find(|&&p| reference.contains(p) != ranges.iter().any(|r| range_contains(r, p)));
            println!("reference ({:?}, {} probes): {}", t0.elapsed(), ps.len(), bad.map_or("agrees".to_string(), |p| format!("DISAGREES at {p}: reference says {}", reference.contains(*p))));
        }
        (r, _) => println!("reference: {:?}", r.map(|_| "ok")),
    }
    for e in server.log() {
        println!("  log conn={} seq={} {} -> {} ({} bytes)", e.conn, e.seq, e.query, e.response_kind, e.response_len);
    }
}
