//! Behaviour of the real client stack when the fake IRRd misbehaves at the transport level.
//! Kept in its own test binary because a hung evaluation leaves a spinning thread behind that
//! can only be got rid of by process exit.

use std::panic::{catch_unwind, AssertUnwindSafe};
use std::sync::mpsc;
use std::time::Duration;

use ip::traits::PrefixSet as _;
use irrfake::db::{AsRoutes, Db};
use irrfake::expr::{parse_range_line, Range};
use irrfake::server::{Fault, Faults, Server};

fn db() -> Db {
    let mut db = Db::default();
    db.ases.insert(65001, AsRoutes { v4: vec![(0x0a00_0000, 8)], v6: vec![] });
    db.ases.insert(65002, AsRoutes { v4: vec![(0x0b00_0000, 8)], v6: vec![(0x2001_0db8u128 << 96, 32)] });
    db
}

/// `Some(Ok(ranges) | Err(message))`, or `None` if the evaluation did not return within `secs`.
fn run_real_timeout(port: u16, text: &str, secs: u64) -> Option<Result<Vec<Range>, String>> {
    let (tx, rx) = mpsc::channel();
    let parsed: rpsl::expr::MpFilterExpr = text.parse().unwrap();
    std::thread::spawn(move || {
        let res = catch_unwind(AssertUnwindSafe(|| -> Result<Vec<Range>, String> {
            let mut ev = bgpfu::RpslEvaluator::new("127.0.0.1", port).map_err(|e| format!("connect: {e}"))?;
            let set = ev.evaluate(parsed).map_err(|e| format!("evaluate: {e:?}"))?;
            Ok(set.ranges().map(|r| parse_range_line(&r.to_string()).unwrap()).collect())
        }));
        tx.send(res.unwrap_or_else(|_| Err("panic".into())))
    });
    rx.recv_timeout(Duration::from_secs(secs)).ok()
}

fn faults(items: &[(&str, Fault)]) -> Faults {
    Faults { by_query: items.iter().map(|(q, f)| (q.to_string(), f.clone())).collect(), ..Faults::default() }
}

/// The server side of a close is always logged, whatever the client makes of it.
#[test]
fn server_logs_the_close() {
    let server = Server::start(db(), faults(&[("!6AS65002", Fault::CloseConnection)])).unwrap();
    let real = run_real_timeout(server.port(), "AS65002 OR AS65001", 3);
    println!("CloseConnection on !6AS65002 -> {real:?}");
    let log = server.log();
    assert!(log.iter().any(|e| e.query == "!6AS65002" && e.response_kind == "closed"));
    assert!(!log.iter().any(|e| e.query == "!gAS65001"), "nothing is answered after the close");

    let server = Server::start(db(), Faults { close_after_queries: Some(3), ..Faults::default() }).unwrap();
    let real = run_real_timeout(server.port(), "AS65002 OR AS65001", 3);
    println!("close_after_queries=3 -> {real:?}");
    let kinds: Vec<String> = server.log().iter().map(|e| format!("{}:{}", e.query, e.response_kind)).collect();
    assert_eq!(kinds, ["!!:none", "!nirrc-0.1.0:C", "!gAS65002:A", "!6AS65002:closed"]);
}

/// A status line that is none of A/C/D/E/F: irrc reports a parse error for that response, bgpfu
/// sinks it and carries on with the rest of the pipeline.
#[test]
fn garbage_status_line_is_sunk() {
    let server = Server::start(db(), faults(&[("!gAS65001", Fault::Garbage(b"Zwhat is this\n".to_vec()))])).unwrap();
    let real = run_real_timeout(server.port(), "AS65001 OR AS65002", 5);
    println!("garbage status line -> {real:?}");
    assert!(server.log().iter().any(|e| e.response_kind == "garbage" && e.response_len == 14));
}

/// When the server closes the connection while responses are outstanding, `irrc` 0.1.0 never
/// returns: `Pipeline::pop_wrapped` loops `parse -> Incomplete -> fetch()` and `fetch()` treats a
/// 0-byte `read()` (EOF) as progress (irrc-0.1.0/src/pipeline/mod.rs). The evaluation spins at
/// 100 % CPU forever. Layer: dependency crate `irrc`; /repo/lib has no timeout around it.
#[test]
#[ignore = "irrc 0.1.0 busy-loops forever on EOF; bgpfu evaluation never returns"]
fn deviation_evaluation_hangs_when_server_closes_connection() {
    let server = Server::start(db(), faults(&[("!6AS65002", Fault::CloseConnection)])).unwrap();
    let real = run_real_timeout(server.port(), "AS65002 OR AS65001", 10);
    assert!(real.is_some(), "evaluation did not return within 10 s of the server closing the connection");
}
