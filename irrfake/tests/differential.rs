//! Differential tests: the REAL `bgpfu::RpslEvaluator` (talking to the fake IRRd) against the
//! independent reference evaluator in `irrfake::expr`, compared pointwise on boundary probes.
//!
//! Tests marked `#[ignore]` document cases where the real stack deviates from RPSL semantics
//! (the reference is NOT tuned to match); run them with `cargo test -- --ignored --nocapture`.

use std::panic::{catch_unwind, AssertUnwindSafe};
use std::sync::{Arc, Mutex};
use std::time::Duration;

use ip::traits::PrefixSet as _;
use irrfake::db::{generate, generate_with, AsRoutes, AsSetMember, Db, GenOpts, RouteSetMember, Size};
use irrfake::expr::{
    expand_as_set, generate_expr, generate_expr_with, parse, parse_range_line, probes, range_contains, referenced_names, EvalFail, Expr, GenExprOpts, Policy, Range, RefEval,
};
use irrfake::pfx::Pfx;
use irrfake::server::{Fault, Faults, LogEntry, Server};

#[derive(Debug, Clone)]
#[allow(dead_code)] // payloads are only shown through Debug
enum Real {
    Ranges(Vec<Range>),
    Err(String),
    Panic(String),
}

/// Run the real evaluator on `text` against the server on `port`.
fn run_real(port: u16, text: &str) -> Real {
    let parsed: rpsl::expr::MpFilterExpr = match text.parse() {
        Ok(p) => p,
        Err(e) => return Real::Err(format!("rpsl parse error: {e}")),
    };
    let res = catch_unwind(AssertUnwindSafe(|| -> Result<Vec<Range>, String> {
        let mut ev = bgpfu::RpslEvaluator::new("127.0.0.1", port).map_err(|e| format!("connect: {e}"))?;
        let set = ev.evaluate(parsed).map_err(|e| format!("evaluate: {e} / {e:?}"))?;
        // same text the `bgpfu` CLI prints, one range per line
        Ok(set.ranges().map(|r| parse_range_line(&r.to_string()).unwrap_or_else(|| panic!("unparseable range '{r}'"))).collect())
    }));
    match res {
        Ok(Ok(r)) => Real::Ranges(r),
        Ok(Err(e)) => Real::Err(e),
        Err(p) => Real::Panic(p.downcast_ref::<String>().cloned().or_else(|| p.downcast_ref::<&str>().map(|s| s.to_string())).unwrap_or_default()),
    }
}

/// First (shortest) probe on which the real output and the reference disagree: (probe, expected, actual).
fn disagreement(e: &Expr, db: &Db, reference: &RefEval, ranges: &[Range], seed: u64) -> Option<(Pfx, bool, bool)> {
    let mut ps = probes(e, db, ranges, 200, seed);
    ps.sort_by_key(|p| (p.len, *p));
    ps.into_iter().find_map(|p| {
        let (want, got) = (reference.contains(p), ranges.iter().any(|r| range_contains(r, p)));
        (want != got).then_some((p, want, got))
    })
}

/// Evaluate both sides under `policy`; `Some(description)` on any disagreement.
fn check(port: u16, e: &Expr, db: &Db, policy: &Policy, seed: u64) -> Option<String> {
    let text = e.to_rpsl();
    match (RefEval::new(e, db, policy), run_real(port, &text)) {
        (Ok(reference), Real::Ranges(ranges)) => disagreement(e, db, &reference, &ranges, seed)
            .map(|(p, want, got)| format!("probe {p}: reference says {want}, real says {got}\n  real output: [{}]", ranges.iter().map(Range::to_string).collect::<Vec<_>>().join(", "))),
        (Err(_), Real::Err(_)) => None,
        (Ok(_), real) => Some(format!("reference evaluates but real gives {real:?}")),
        (Err(f), real) => Some(format!("reference fails with {f:?} but real gives {real:?}")),
    }
}

fn children(e: &Expr) -> Vec<Expr> {
    match e {
        Expr::Not(a) | Expr::RangeOp(a, _) => vec![(**a).clone()],
        Expr::And(a, b) | Expr::Or(a, b) => vec![(**a).clone(), (**b).clone()],
        Expr::Literal(es) if es.len() > 1 => es.iter().map(|x| Expr::Literal(vec![*x])).collect(),
        Expr::FilterSet(_) => vec![],
        _ => vec![],
    }
}

/// Greedy shrink: descend into any sub-expression that still disagrees.
fn minimise(port: u16, e: &Expr, db: &Db, policy: &Policy, seed: u64) -> (Expr, String) {
    let mut cur = e.clone();
    let mut why = check(port, &cur, db, policy, seed).expect("minimise called on an agreeing case");
    'outer: loop {
        let mut kids = children(&cur);
        if let Expr::FilterSet(name) = &cur {
            kids.extend(db.filter_sets.get(name).and_then(|t| parse(t).ok()));
        }
        for k in kids {
            if let Some(w) = check(port, &k, db, policy, seed) {
                (cur, why) = (k, w);
                continue 'outer;
            }
        }
        return (cur, why);
    }
}

/// The parts of the database an expression depends on, as JSON.
fn db_fragment(e: &Expr, db: &Db) -> String {
    let names = referenced_names(e, db);
    let mut frag = Db::default();
    let mut asns = names.ases.clone();
    for s in &names.as_sets {
        asns.extend(expand_as_set(db, s).unwrap_or_default());
        // include the whole reachable as-set graph
        let mut todo = vec![s.clone()];
        while let Some(n) = todo.pop() {
            if let (Some(ms), false) = (db.as_sets.get(&n), frag.as_sets.contains_key(&n)) {
                frag.as_sets.insert(n, ms.clone());
                todo.extend(ms.iter().filter_map(|m| if let AsSetMember::Set(s) = m { Some(s.clone()) } else { None }));
            }
        }
    }
    for s in &names.route_sets {
        let mut todo = vec![s.clone()];
        while let Some(n) = todo.pop() {
            if let (Some(ms), false) = (db.route_sets.get(&n), frag.route_sets.contains_key(&n)) {
                frag.route_sets.insert(n, ms.clone());
                for m in ms {
                    match m {
                        RouteSetMember::Set(s) => todo.push(s.clone()),
                        RouteSetMember::As(a) => drop(asns.insert(*a)),
                        _ => {}
                    }
                }
            }
        }
    }
    for s in &names.filter_sets {
        frag.filter_sets.extend(db.filter_sets.get(s).map(|t| (s.clone(), t.clone())));
    }
    for a in asns {
        frag.ases.extend(db.ases.get(&a).map(|r| (a, r.clone())));
    }
    frag.to_json().to_string()
}

fn report(port: u16, e: &Expr, db: &Db, policy: &Policy, seed: u64) -> String {
    let (min, why) = minimise(port, e, db, policy, seed);
    format!("DISAGREEMENT\n  original expr: {}\n  minimal expr : {}\n  {why}\n  db fragment  : {}\n", e.to_rpsl(), min.to_rpsl(), db_fragment(&min, db))
}

/// Within one connection responses must be produced in query order, without gaps.
fn assert_log_ordered(log: &[LogEntry]) {
    let mut next: std::collections::BTreeMap<u64, u64> = Default::default();
    for e in log {
        let n = next.entry(e.conn).or_insert(0);
        assert_eq!(e.seq, *n, "connection {} answered out of order: {e:?}", e.conn);
        *n += 1;
    }
}

fn hollow_as_set_referenced(e: &Expr, db: &Db) -> bool {
    referenced_names(e, db).as_sets.iter().any(|s| expand_as_set(db, s).is_some_and(|x| x.is_empty()))
}

// ------------------------------------------------------------------------------------------------
// (a) differential tests
// ------------------------------------------------------------------------------------------------

#[test]
fn differential_generated_expressions() {
    let (mut compared, mut skipped, mut failures) = (0, 0, Vec::new());
    let t0 = std::time::Instant::now();
    let dbs = [(1, Size::Small), (2, Size::Small), (3, Size::Medium), (4, Size::Medium), (5, Size::Small), (6, Size::Large), (7, Size::Medium)];
    for (seed, size) in dbs {
        let db = if seed == 7 { generate_with(seed, GenOpts { rs_as_members: true, ..GenOpts::new(size) }) } else { generate(seed, size) };
        assert_eq!(Db::from_json(&db.to_json()).unwrap(), db, "JSON round trip");
        let server = Server::start(db.clone(), Faults::default()).unwrap();
        for i in 0..60u64 {
            // realistic prefix lengths: `generate_expr` leaves out NOT here (see GenOpts::max_prefix_len)
            let e = generate_expr(seed * 1000 + i, &db, 1 + (i % 3) as u32);
            assert!(e.is_evaluable() && !e.to_rpsl().contains("NOT"));
            if hollow_as_set_referenced(&e, &db) {
                // IRRd answers `D` for an as-set that expands to nothing; see the ignored test
                // `deviation_existing_but_empty_as_set_aborts_evaluation`.
                skipped += 1;
                continue;
            }
            compared += 1;
            if check(server.port(), &e, &db, &Policy::STRICT, i).is_some() {
                failures.push(report(server.port(), &e, &db, &Policy::STRICT, i));
            }
        }
        let log = server.log();
        assert_log_ordered(&log);
        assert!(log.iter().any(|e| e.query.starts_with("!i")) && log.iter().any(|e| e.query.starts_with("!g")));
        server.stop();
        println!("db seed {seed} ({size:?}): done after {:?}, {} queries served", t0.elapsed(), log.len());
    }
    println!("compared {compared} expressions, skipped {skipped} (hollow as-set), {} disagreements", failures.len());
    assert!(failures.is_empty(), "{}", failures.join("\n"));
    assert!(compared >= 300, "only {compared} expressions compared");
}

/// `NOT` (and filter-sets containing `NOT`) on databases whose prefixes are at most /12, where the
/// real evaluator's complement operation is affordable.
#[test]
fn differential_with_not_on_short_prefixes() {
    let (mut compared, mut with_not, mut failures) = (0, 0, Vec::new());
    for (seed, size) in [(31, Size::Small), (32, Size::Small), (33, Size::Medium), (34, Size::Medium)] {
        let db = generate_with(seed, GenOpts { max_prefix_len: Some(12), ..GenOpts::new(size) });
        let server = Server::start(db.clone(), Faults::default()).unwrap();
        for i in 0..50u64 {
            let e = generate_expr_with(seed * 1000 + i, &db, &GenExprOpts { depth: 1 + (i % 3) as u32, max_prefix_len: Some(12), ..GenExprOpts::default() });
            if hollow_as_set_referenced(&e, &db) {
                continue;
            }
            compared += 1;
            with_not += e.to_rpsl().contains("NOT") as usize;
            if check(server.port(), &e, &db, &Policy::STRICT, i).is_some() {
                failures.push(report(server.port(), &e, &db, &Policy::STRICT, i));
            }
        }
        assert_log_ordered(&server.log());
    }
    println!("compared {compared} expressions ({with_not} with NOT), {} disagreements", failures.len());
    assert!(failures.is_empty(), "{}", failures.join("\n"));
    assert!(compared >= 150 && with_not >= 40, "{compared} / {with_not}");
}

/// Dangling names: the real evaluator behaves like `Policy::BGPFU` (unknown as-set aborts,
/// unknown route-set / filter-set / AS silently evaluate to the empty set).
#[test]
fn differential_unknown_names_match_bgpfu_policy() {
    let (mut failures, mut aborted, mut evaluated) = (Vec::new(), 0, 0);
    for seed in [11u64, 12, 13] {
        let db = generate(seed, Size::Small);
        let server = Server::start(db.clone(), Faults::default()).unwrap();
        for i in 0..50u64 {
            let e = generate_expr_with(seed * 1000 + i, &db, &GenExprOpts { depth: 2, unknown_names: true, allow_not: false, ..GenExprOpts::default() });
            if hollow_as_set_referenced(&e, &db) {
                continue;
            }
            match RefEval::new(&e, &db, &Policy::BGPFU) {
                Ok(_) => evaluated += 1,
                Err(f) => {
                    assert!(matches!(f, EvalFail::UnknownAsSet(_)), "{f:?}");
                    aborted += 1;
                }
            }
            if check(server.port(), &e, &db, &Policy::BGPFU, i).is_some() {
                failures.push(report(server.port(), &e, &db, &Policy::BGPFU, i));
            }
        }
    }
    println!("{evaluated} evaluated, {aborted} aborted on an unknown as-set");
    assert!(failures.is_empty(), "{}", failures.join("\n"));
    assert!(aborted > 0 && evaluated > 50);
}

fn tiny_db() -> Db {
    let mut db = Db::default();
    db.ases.insert(65001, AsRoutes { v4: vec![(0x0a00_0000, 8)], v6: vec![] });
    db.ases.insert(65002, AsRoutes { v4: vec![(0x0b00_0000, 8)], v6: vec![(0x2001_0db8u128 << 96, 32)] });
    db.ases.insert(65003, AsRoutes { v4: vec![(0x0c00_0000, 8)], v6: vec![] });
    db.as_sets.insert("AS-EMPTY".into(), vec![]);
    db.as_sets.insert("AS-ONE".into(), vec![AsSetMember::As(65001)]);
    db.route_sets.insert("RS-ONE".into(), vec![RouteSetMember::Prefix4(0xc000_0200, 24)]);
    db.filter_sets.insert("FLTR-ONE".into(), "AS65001".into());
    db
}

/// Compare `text` (parsed by OUR parser with RFC 2622 precedence) against the real stack.
fn expect_agreement(db: &Db, faults: Faults, text: &str, policy: &Policy) {
    let server = Server::start(db.clone(), faults).unwrap();
    let e = parse(text).unwrap();
    let reference = RefEval::new(&e, db, policy);
    let real = run_real(server.port(), text);
    let verdict = match (&reference, &real) {
        (Ok(r), Real::Ranges(ranges)) => disagreement(&e, db, r, ranges, 0).map(|(p, want, got)| format!("probe {p}: reference (RFC) says {want}, real says {got}")),
        (Err(_), Real::Err(_)) => None,
        (Ok(_), _) => Some("reference evaluates".to_string()),
        (Err(f), _) => Some(format!("reference fails with {f:?}")),
    };
    if let Some(v) = verdict {
        panic!("DISAGREEMENT on '{text}'\n  {v}\n  real: {real:?}\n  db: {}", db_fragment(&e, db));
    }
}

// ---- deviations of the real stack from RPSL semantics (reference left as is) ---------------------

/// RFC 2622 section 5.4: "NOT" binds tighter than "AND", which binds tighter than "OR".
/// The pest grammar of `rpsl` 0.1.1 (`mp_filter_expr_not = { not ~ mp_filter_expr }`,
/// `mp_filter_expr_and = { mp_filter_term ~ and ~ mp_filter_expr }`) parses `NOT A AND B` as
/// `NOT (A AND B)` and `A AND B OR C` as `A AND (B OR C)`. Layer: dependency crate `rpsl`.
#[test]
#[ignore = "rpsl 0.1.1 grammar ignores RFC 2622 operator precedence"]
fn deviation_not_binds_looser_than_and() {
    expect_agreement(&tiny_db(), Faults::default(), "NOT AS65001 AND AS65002", &Policy::STRICT);
}

#[test]
#[ignore = "rpsl 0.1.1 grammar ignores RFC 2622 operator precedence"]
fn deviation_and_binds_looser_than_or() {
    expect_agreement(&tiny_db(), Faults::default(), "AS65001 AND AS65002 OR AS65003", &Policy::STRICT);
}

/// `S^n-m` with `n <= 32 < m` on a set holding both families (e.g. `AS-FOO^24-48`): the /24../32
/// more-specifics of the IPv4 members belong to the result. `rpsl` 0.1.1 (`expr/eval/apply.rs`:
/// `range.new_prefix_length(u)?`) cannot build length 48 for an IPv4 range and returns
/// `EvaluationError::RangeOperator`; bgpfu's `sink_error` swallows it, so ALL IPv4 members vanish
/// silently. Layer: dependency crate `rpsl` + /repo/lib/src/query.rs (`sink_error` always true).
#[test]
#[ignore = "rpsl 0.1.1 + bgpfu-lib: ^n-m with m > 32 silently drops all IPv4 members of the set"]
fn deviation_range_upper_bound_above_32_drops_ipv4_members() {
    expect_agreement(&tiny_db(), Faults::default(), "AS65002^24-48", &Policy::STRICT);
}

/// A dangling route-set / filter-set reference is silently the empty set, so under NOT it
/// becomes ANY (fail-open), while a dangling as-set aborts. Layer: /repo/lib/src/query.rs
/// (`sink_error` always returns true; `unwrap_or_else(|| "NOT ANY")`).
#[test]
#[ignore = "bgpfu-lib: unknown route-set evaluates to the empty set instead of failing"]
fn deviation_not_unknown_route_set_is_any() {
    expect_agreement(&tiny_db(), Faults::default(), "NOT RS-NOSUCH", &Policy::STRICT);
}

#[test]
#[ignore = "bgpfu-lib: unknown filter-set evaluates to NOT ANY instead of failing"]
fn deviation_not_unknown_filter_set_is_any() {
    expect_agreement(&tiny_db(), Faults::default(), "NOT FLTR-NOSUCH", &Policy::STRICT);
}

/// An as-set that exists but has no (AS) members is the empty set in RPSL. IRRd answers `D`
/// (it cannot tell "empty" from "missing") and bgpfu turns that into a hard error, although the
/// same `D` for a route-set is swallowed. Layer: /repo/lib/src/query.rs (+ IRRd protocol).
#[test]
#[ignore = "bgpfu-lib: existing but empty as-set aborts the whole evaluation"]
fn deviation_existing_but_empty_as_set_aborts_evaluation() {
    expect_agreement(&tiny_db(), Faults::default(), "AS-EMPTY OR AS65001", &Policy::STRICT);
}

/// `rpsl` 0.1.1 declares `changed:` mandatory for every object class. Current IRR databases do not
/// carry it, the object fails to parse, the error is sunk and the filter-set becomes `NOT ANY`.
/// Layer: dependency crate `rpsl` (validation) + /repo/lib/src/query.rs (silent fallback).
#[test]
#[ignore = "rpsl 0.1.1 rejects objects without changed:, bgpfu-lib silently substitutes NOT ANY"]
fn deviation_filter_set_without_changed_attribute_is_empty() {
    expect_agreement(&tiny_db(), Faults { omit_changed_attr: true, ..Faults::default() }, "FLTR-ONE", &Policy::STRICT);
}

/// RFC 2622 section 5.2 allows `<address-prefix-range>` members (`10.0.0.0/8^16-24`) in
/// route-sets and IRRd returns them verbatim from `!i<set>,1`. They do not parse as
/// `ip::Prefix<Any>`, the item error is sunk, and the member silently disappears.
/// Layer: /repo/lib/src/query.rs (parses items as `Prefix<Any>`).
#[test]
#[ignore = "bgpfu-lib: route-set members carrying a range operator are silently dropped"]
fn deviation_route_set_member_with_range_operator_is_dropped() {
    let db = tiny_db();
    let body = "192.0.2.0/24 10.0.0.0/8^16-24";
    let faults = Faults { by_query: [("!iRS-ONE,1".to_string(), Fault::Garbage(format!("A{}\n{body}\nC\n", body.len() + 1).into_bytes()))].into(), ..Faults::default() };
    let server = Server::start(db, faults).unwrap();
    let Real::Ranges(ranges) = run_real(server.port(), "RS-ONE") else { panic!("evaluation failed") };
    println!("real output for RS-ONE = {{192.0.2.0/24, 10.0.0.0/8^16-24}}: {ranges:?}");
    assert!(ranges.iter().any(|r| range_contains(r, "10.1.0.0/16".parse().unwrap())), "10.0.0.0/8^16-24 was dropped; output {ranges:?}");
}

/// Complementing a set costs time and memory exponential in the prefix length (`NOT {10.0.0.0/20}`:
/// ~1 s / 100 MB; `/24`: ~17 s / 1.5 GB; `/32` or any realistic IPv6 prefix: allocation failure,
/// process abort). Results are correct whenever the computation finishes.
/// Layer: dependency crate `generic-ip` 0.1.1 (`!set == PrefixSet::one() - set`, then `aggregate()`).
/// The real evaluation runs in a child process (this test binary re-executed) under `ulimit -v`.
#[test]
#[ignore = "generic-ip 0.1.1: NOT needs exponential time/memory; aborts on realistic prefixes"]
fn deviation_not_of_ordinary_prefix_exhausts_memory() {
    for text in ["NOT {10.0.0.0/16}", "NOT {10.0.0.0/22}", "NOT AS65002", "NOT {192.0.2.1/32}"] {
        let t0 = std::time::Instant::now();
        let out = std::process::Command::new("sh")
            .arg("-c")
            .arg("ulimit -v 2000000; exec \"$0\" --exact child_evaluate_expression_from_env --ignored --nocapture")
            .arg(std::env::current_exe().unwrap())
            .env("IRRFAKE_CHILD_EXPR", text)
            .output()
            .unwrap();
        let stdout = String::from_utf8_lossy(&out.stdout);
        let verdict = stdout.lines().find(|l| l.starts_with("CHILD")).unwrap_or("(no result)").to_owned();
        println!("{text:22} -> {:?} after {:?}: {verdict}; stderr tail: {:?}", out.status, t0.elapsed(), String::from_utf8_lossy(&out.stderr).lines().filter(|l| l.contains("memory")).collect::<Vec<_>>());
        assert!(out.status.success() && verdict.contains("agrees") && t0.elapsed() < Duration::from_secs(5), "'{text}' could not be evaluated within 2 GB / 5 s");
    }
}

/// Helper for the test above (does nothing unless `IRRFAKE_CHILD_EXPR` is set).
#[test]
#[ignore = "child-process helper"]
fn child_evaluate_expression_from_env() {
    let Ok(text) = std::env::var("IRRFAKE_CHILD_EXPR") else { return };
    let db = tiny_db();
    let server = Server::start(db.clone(), Faults::default()).unwrap();
    let e = parse(&text).unwrap();
    println!("CHILD {}", check(server.port(), &e, &db, &Policy::STRICT, 0).map_or("agrees with the reference".to_string(), |w| format!("DISAGREES: {w}")));
}

// ---- constructs the real evaluator panics on -------------------------------------------------------

#[test]
fn unevaluable_constructs_panic_in_real_evaluator() {
    let server = Server::start(tiny_db(), Faults::default()).unwrap();
    let loc = Arc::new(Mutex::new(String::new()));
    let loc2 = loc.clone();
    // record the panic location for this thread only; other tests keep the default hook
    let prev = Arc::new(std::panic::take_hook());
    let (prev2, me) = (prev.clone(), std::thread::current().id());
    std::panic::set_hook(Box::new(move |info| {
        if std::thread::current().id() == me {
            *loc2.lock().unwrap() = info.location().map(|l| format!("{}:{}", l.file(), l.line())).unwrap_or_default();
        } else {
            prev2(info);
        }
    }));
    let mut seen = vec![];
    for text in ["PeerAS", "AS65001 AND PeerAS", "<^AS65001$>", "<^AS65001 .* AS-ONE$>", "community(65000:1)", "community.contains(65000:1)", "AS65001 AND NOT community(65000:1)"] {
        assert!(!parse(text).unwrap().is_evaluable(), "{text}");
        let real = run_real(server.port(), text);
        seen.push(format!("{text:40} -> {real:?} at {}", loc.lock().unwrap()));
        assert!(matches!(real, Real::Panic(_)), "{text}: {real:?}");
    }
    std::panic::set_hook(Box::new(move |info| prev(info)));
    println!("{}", seen.join("\n"));
}

// ------------------------------------------------------------------------------------------------
// (b) fault injection and the log
// ------------------------------------------------------------------------------------------------

fn faults(items: &[(&str, Fault)]) -> Faults {
    Faults { by_query: items.iter().map(|(q, f)| (q.to_string(), f.clone())).collect(), ..Faults::default() }
}

fn in_ranges(real: &Real, p: &str) -> bool {
    let Real::Ranges(r) = real else { panic!("evaluation failed: {real:?}") };
    r.iter().any(|r| range_contains(r, p.parse().unwrap()))
}

#[test]
fn handshake_and_log() {
    let server = Server::start(tiny_db(), Faults::default()).unwrap();
    let real = run_real(server.port(), "AS65002 OR AS-ONE OR RS-ONE OR FLTR-ONE");
    for p in ["10.0.0.0/8", "11.0.0.0/8", "2001:db8::/32", "192.0.2.0/24"] {
        assert!(in_ranges(&real, p), "{p}");
    }
    std::thread::sleep(Duration::from_millis(100)); // let the server log `!q`
    let log = server.log();
    assert_log_ordered(&log);
    let seen: Vec<(String, String)> = log.iter().map(|e| (e.query.clone(), e.response_kind.clone())).collect();
    println!("{seen:?}");
    let expect = [
        ("!!", "none"),
        ("!nirrc-0.1.0", "C"),
        ("!gAS65002", "A"),
        ("!6AS65002", "A"),
        ("!iAS-ONE,1", "A"),
        ("!gAS65001", "A"),
        ("!6AS65001", "D"),
        ("!iRS-ONE,1", "A"),
        ("!mfilter-set,FLTR-ONE", "A"),
        ("!gAS65001", "A"),
        ("!6AS65001", "D"),
        ("!q", "closed"),
    ];
    assert_eq!(seen, expect.map(|(q, k)| (q.to_string(), k.to_string())));
    assert!(log.iter().all(|e| e.conn == 1));
    assert_eq!(log[2].response_len, "A11\n11.0.0.0/8\nC\n".len());
}

#[test]
fn injected_error_responses_are_sunk() {
    for fault in [Fault::KeyNotFound, Fault::NotUnique, Fault::Other("boom".into())] {
        let server = Server::start(tiny_db(), faults(&[("!gAS65002", fault.clone())])).unwrap();
        // the same query fails the same way on every connection
        for _ in 0..2 {
            let real = run_real(server.port(), "AS65002 OR AS65001");
            assert!(!in_ranges(&real, "11.0.0.0/8") && in_ranges(&real, "2001:db8::/32") && in_ranges(&real, "10.0.0.0/8"), "{fault:?}");
        }
        let kind = match fault {
            Fault::KeyNotFound => "D",
            Fault::NotUnique => "E",
            _ => "F",
        };
        let log = server.log();
        assert_eq!(log.iter().filter(|e| e.query == "!gAS65002" && e.response_kind == kind).count(), 2);
        assert_eq!(log.iter().map(|e| e.conn).max(), Some(2));
        assert_log_ordered(&log);
    }
    // `D` for the as-set itself is fatal
    let server = Server::start(tiny_db(), faults(&[("!iAS-ONE,1", Fault::KeyNotFound)])).unwrap();
    assert!(matches!(run_real(server.port(), "AS-ONE"), Real::Err(_)));
}

#[test]
fn refused_connection_is_an_error() {
    let server = Server::start(tiny_db(), Faults { refuse_connections: true, ..Faults::default() }).unwrap();
    match run_real(server.port(), "AS65001") {
        Real::Err(e) => assert!(e.starts_with("connect:"), "{e}"),
        other => panic!("{other:?}"),
    }
    assert!(server.log().is_empty());
}

/// Many clients at once, each pipelining; every connection must be answered in order.
#[test]
fn concurrent_clients() {
    let db = generate(21, Size::Medium);
    let server = Server::start(db.clone(), Faults::default()).unwrap();
    let port = server.port();
    let handles: Vec<_> = (0..8u64)
        .map(|t| {
            let db = db.clone();
            std::thread::spawn(move || {
                (0..6u64).filter_map(|i| {
                    let e = generate_expr(t * 100 + i, &db, 2);
                    if hollow_as_set_referenced(&e, &db) { None } else { check(port, &e, &db, &Policy::STRICT, i).map(|w| format!("{}: {w}", e.to_rpsl())) }
                }).collect::<Vec<_>>()
            })
        })
        .collect();
    let problems: Vec<String> = handles.into_iter().flat_map(|h| h.join().unwrap()).collect();
    assert!(problems.is_empty(), "{problems:#?}");
    let log = server.log();
    assert_log_ordered(&log);
    assert!(log.iter().map(|e| e.conn).max().unwrap() >= 20);
}

/// Raw protocol check without irrc: pipelined queries written in one go.
#[test]
fn raw_wire_format() {
    use std::io::{Read, Write};
    let server = Server::start(tiny_db(), Faults::default()).unwrap();
    let mut s = std::net::TcpStream::connect(("127.0.0.1", server.port())).unwrap();
    s.write_all(b"!!\n!nme\n!t30\n!gAS65001\n!6AS65001\n!iAS-ONE,1\n!iAS-EMPTY,1\n!iAS-NOPE,1\n!iRS-ONE,1\n!ias-one\n!mfilter-set,FLTR-NOPE\n!gfoo\n!x\n!a4AS-ONE\n!q\n").unwrap();
    let mut out = String::new();
    s.read_to_string(&mut out).unwrap();
    let expect = "C\nC\nA11\n10.0.0.0/8\nC\nD\nA8\nAS65001\nC\nD\nD\nA13\n192.0.2.0/24\nC\nA8\nAS65001\nC\nD\nF Invalid AS number FOO: must be in format AS<number>\nF Unrecognised command: x\nA11\n10.0.0.0/8\nC\n";
    assert_eq!(out, expect);
    let mut s = std::net::TcpStream::connect(("127.0.0.1", server.port())).unwrap();
    s.write_all(b"!!\n!mfilter-set,fltr-one\n!q\n").unwrap();
    out.clear();
    s.read_to_string(&mut out).unwrap();
    let obj = "filter-set:     FLTR-ONE\nmp-filter:      AS65001\ndescr:          generated by irrfake\nmnt-by:         MAINT-IRRFAKE\nchanged:        irrfake@example.net 20240101\nsource:         TEST";
    assert_eq!(out, format!("A{}\n{obj}\nC\n", obj.len() + 1));
}
