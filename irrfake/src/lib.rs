//! `irrfake`: test support for monitoring `bgpfu::RpslEvaluator`.
//!
//! * [`db`]     - in-memory IRR database, seeded generator, JSON (de)serialisation.
//! * [`server`] - fake IRRd (whois `!` protocol) with fault injection and a query log.
//! * [`expr`]   - mp-filter expression AST / generator / parser and an independent
//!                reference evaluator (does not use the crates under test).
//! * [`pfx`]    - prefix arithmetic and the seeded RNG shared by the above.
//!
//! See README.md for the exact wire behaviour and the RPSL semantics implemented.

pub mod db;
pub mod expr;
pub mod pfx;
pub mod server;
