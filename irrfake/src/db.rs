//! In-memory IRR database and a seeded generator.
//!
//! Names are stored upper-case (RPSL names are case-insensitive; IRRd upper-cases keys).

use std::collections::BTreeMap;

use serde_json::{json, Map, Value};

use crate::expr::{generate_expr_with, GenExprOpts};
use crate::pfx::{mask, Family, Pfx, Rng};

/// The route / route6 objects originated by one AS, as `(network address, length)`.
#[derive(Clone, Debug, Default, PartialEq, Eq)]
pub struct AsRoutes {
    pub v4: Vec<(u32, u8)>,
    pub v6: Vec<(u128, u8)>,
}

impl AsRoutes {
    /// All routes as [`Pfx`], IPv4 first.
    pub fn prefixes(&self) -> impl Iterator<Item = Pfx> + '_ {
        let v4 = self.v4.iter().map(|&(a, l)| Pfx::v4(a, l));
        v4.chain(self.v6.iter().map(|&(a, l)| Pfx::v6(a, l)))
    }
}

#[derive(Clone, Debug, PartialEq, Eq)]
pub enum AsSetMember {
    As(u32),
    Set(String),
}

#[derive(Clone, Debug, PartialEq, Eq)]
pub enum RouteSetMember {
    Prefix4(u32, u8),
    Prefix6(u128, u8),
    Set(String),
    /// RFC 2622 section 5.3: an AS number in a route-set context denotes the routes it originates.
    /// Only generated when [`GenOpts::rs_as_members`] is set.
    As(u32),
    /// Likewise an as-set denotes the routes originated by its member ASes.
    /// Never generated (real IRRd 4 is believed to ignore these); supported for hand-written DBs.
    AsSet(String),
}

#[derive(Clone, Debug, Default, PartialEq, Eq)]
pub struct Db {
    pub ases: BTreeMap<u32, AsRoutes>,
    pub as_sets: BTreeMap<String, Vec<AsSetMember>>,
    pub route_sets: BTreeMap<String, Vec<RouteSetMember>>,
    /// filter-set name -> mp-filter expression text.
    pub filter_sets: BTreeMap<String, String>,
}

#[derive(Clone, Copy, Debug, PartialEq, Eq)]
pub enum Size {
    Small,
    Medium,
    Large,
}

impl Size {
    pub fn parse(s: &str) -> Option<Size> {
        match s.to_ascii_lowercase().as_str() {
            "small" => Some(Size::Small),
            "medium" => Some(Size::Medium),
            "large" => Some(Size::Large),
            _ => None,
        }
    }
}

#[derive(Clone, Copy, Debug)]
pub struct GenOpts {
    pub size: Size,
    /// Put AS-number members into route-sets (IRRd >= 4.2 expands them to the originated routes).
    pub rs_as_members: bool,
    /// Cap on the length of every prefix in the database (routes, route-set members, literals in
    /// filter-sets). `None` = realistic lengths (v4 up to /24 and /32, v6 up to /64 and /128).
    ///
    /// Why this exists: `generic-ip` 0.1.1 needs time and memory exponential in the prefix length
    /// to complement a set (`NOT {10.0.0.0/24}`: 17 s / 1.5 GB, `NOT {10.0.0.1/32}`: > 4 GB), so
    /// `NOT` can only be exercised against the real evaluator on short prefixes. Filter-sets
    /// contain `NOT` only when the cap is `<= 16`.
    pub max_prefix_len: Option<u8>,
}

impl GenOpts {
    pub fn new(size: Size) -> GenOpts {
        GenOpts { size, rs_as_members: false, max_prefix_len: None }
    }
}

/// Generate a database with default options (no AS members in route-sets, realistic prefix
/// lengths, no `NOT` inside filter-sets).
pub fn generate(seed: u64, size: Size) -> Db {
    generate_with(seed, GenOpts::new(size))
}

const WORDS: &[&str] = &["FOO", "BAR", "BAZ", "QUX", "CUST", "PEERS", "TRANSIT", "EDGE", "CORE", "IX", "LAB_1", "NET-X"];

pub fn generate_with(seed: u64, opts: GenOpts) -> Db {
    let mut r = Rng::new(seed ^ 0x1bad_b002);
    let (n_as, n_asset, n_rs, n_fs, max_routes) = match opts.size {
        Size::Small => (r.range(3, 6), r.range(3, 5), r.range(2, 4), r.range(2, 3), 3),
        Size::Medium => (r.range(7, 14), r.range(6, 10), r.range(4, 7), r.range(3, 6), 5),
        Size::Large => (r.range(15, 25), r.range(10, 18), r.range(7, 12), r.range(5, 9), 8),
    };
    let mut db = Db::default();

    // ---- ASes and their routes -------------------------------------------------------------
    // A few address blocks per family so that prefixes of different ASes overlap often.
    let nblk = r.range(2, 3);
    let (mut f4, mut f6) = match opts.max_prefix_len {
        None => (
            FamGen { fam: Family::V4, blocks: (0..nblk).map(|_| (r.range(1, 223) as u128) << 24 | (r.below(256) as u128) << 16).collect(), blk_len: 16, lo: 16, hi: 24, cap: 32, pool: vec![] },
            FamGen { fam: Family::V6, blocks: (0..nblk).map(|_| (0x2001_0db8u128 << 96) | ((r.below(0x10000) as u128) << 80)).collect(), blk_len: 48, lo: 32, hi: 64, cap: 128, pool: vec![] },
        ),
        Some(cap) => (
            FamGen { fam: Family::V4, blocks: (0..nblk).map(|_| (r.range(1, 13) as u128) << 28).collect(), blk_len: 4, lo: 5.min(cap), hi: cap, cap, pool: vec![] },
            FamGen { fam: Family::V6, blocks: (0..nblk).map(|_| (r.range(2, 3) as u128) << 124).collect(), blk_len: 4, lo: 5.min(cap), hi: cap, cap, pool: vec![] },
        ),
    };
    let kind_off = r.below(4);
    let mut asns: Vec<u32> = vec![];
    for i in 0..n_as {
        let asn = if r.chance(1, 8) { 4_200_000_000 + i as u32 } else { 65000 + i as u32 };
        asns.push(asn);
        // kinds: 0 = both, 1 = only v4, 2 = only v6, 3 = no routes; the first four ASes cover all.
        let kind = if i < 4 { (i + kind_off) % 4 } else { r.below(4) };
        let mut routes = AsRoutes::default();
        if kind == 0 || kind == 1 {
            for _ in 0..r.range(1, max_routes) {
                let p = f4.gen(&mut r);
                let e = (p.addr as u32, p.len);
                if !routes.v4.contains(&e) {
                    routes.v4.push(e);
                    f4.pool.push(p);
                }
            }
        }
        if kind == 0 || kind == 2 {
            for _ in 0..r.range(1, max_routes) {
                let p = f6.gen(&mut r);
                let e = (p.addr, p.len);
                if !routes.v6.contains(&e) {
                    routes.v6.push(e);
                    f6.pool.push(p);
                }
            }
        }
        db.ases.insert(asn, routes);
    }
    let unknown_asn = 64999u32; // never has routes, never in `ases`

    // ---- as-sets ---------------------------------------------------------------------------
    let mut names: Vec<String> = (0..n_asset)
        .map(|i| {
            let w = format!("AS-{}{}", r.pick(WORDS), i);
            if r.chance(1, 4) { format!("AS{}:{}", r.pick(&asns), w) } else { w }
        })
        .collect();
    let n = names.len();
    let mut sets: Vec<Vec<AsSetMember>> = vec![vec![]; n];
    for i in 0..n {
        for _ in 0..r.range(0, 3) {
            let asn = if r.chance(1, 8) { unknown_asn } else { *r.pick(&asns) };
            sets[i].push(AsSetMember::As(asn));
        }
        // chain i -> i+1 gives nesting depth up to 4; extra forward edges make a DAG
        if i + 1 < n && i < 4 && r.chance(3, 4) {
            sets[i].push(AsSetMember::Set(names[i + 1].clone()));
        }
        if i + 2 < n && r.chance(1, 3) {
            let j = r.range(i as u64 + 2, n as u64 - 1) as usize;
            sets[i].push(AsSetMember::Set(names[j].clone()));
        }
    }
    // cycle (A contains B contains A), self reference, dangling member, AS without routes
    let (a, b) = (r.below(n as u64) as usize, r.below(n as u64) as usize);
    if a != b {
        sets[a].push(AsSetMember::Set(names[b].clone()));
        sets[b].push(AsSetMember::Set(names[a].clone()));
    }
    let k = r.below(n as u64) as usize;
    sets[k].push(AsSetMember::Set(names[k].clone()));
    let m = r.below(n as u64) as usize;
    sets[m].push(AsSetMember::Set(format!("AS-MISSING{}", seed % 100)));
    if let Some((&asn, _)) = db.ases.iter().find(|(_, rt)| rt.v4.is_empty() && rt.v6.is_empty()) {
        let j = r.below(n as u64) as usize;
        sets[j].push(AsSetMember::As(asn));
    }
    // an existing but empty as-set and one containing only a dangling reference: IRRd answers `D`
    // for both, exactly as for a non-existent set.
    if r.chance(1, 2) {
        names.push(format!("AS-EMPTY{n}"));
        sets.push(vec![]);
    }
    if r.chance(1, 3) {
        names.push(format!("AS-HOLLOW{n}"));
        sets.push(vec![AsSetMember::Set(format!("AS-MISSING{}", seed % 100))]);
    }
    db.as_sets = names.iter().cloned().zip(sets).collect();

    // ---- route-sets ------------------------------------------------------------------------
    let rs_names: Vec<String> = (0..n_rs)
        .map(|i| {
            let w = format!("RS-{}{}", r.pick(WORDS), i);
            if r.chance(1, 5) { format!("AS{}:{}", r.pick(&asns), w) } else { w }
        })
        .collect();
    let n = rs_names.len();
    let mut rsets: Vec<Vec<RouteSetMember>> = vec![vec![]; n];
    for i in 0..n {
        for _ in 0..r.range(0, 4) {
            if r.chance(1, 2) {
                let p = f4.gen(&mut r);
                rsets[i].push(RouteSetMember::Prefix4(p.addr as u32, p.len));
            } else {
                let p = f6.gen(&mut r);
                rsets[i].push(RouteSetMember::Prefix6(p.addr, p.len));
            }
        }
        if i + 1 < n && r.chance(2, 3) {
            rsets[i].push(RouteSetMember::Set(rs_names[i + 1].clone()));
        }
        if opts.rs_as_members && r.chance(1, 2) {
            rsets[i].push(RouteSetMember::As(*r.pick(&asns)));
        }
    }
    if n >= 2 {
        // cycle: last -> first (first reaches last through the chain with high probability)
        rsets[n - 1].push(RouteSetMember::Set(rs_names[0].clone()));
        rsets[0].push(RouteSetMember::Set(rs_names[n - 1].clone()));
    }
    let m = r.below(n as u64) as usize;
    rsets[m].push(RouteSetMember::Set(format!("RS-MISSING{}", seed % 100)));
    db.route_sets = rs_names.into_iter().zip(rsets).collect();

    // ---- filter-sets (acyclic: each may only reference earlier ones) -------------------------
    for i in 0..n_fs {
        let w = format!("FLTR-{}{}", r.pick(WORDS), i);
        let name = if r.chance(1, 5) { format!("AS{}:{}", r.pick(&asns), w) } else { w };
        // Avoid as-sets whose expansion is empty: IRRd answers `D` for them and the evaluator under
        // test then aborts, which would make every expression using this filter-set uninteresting.
        let fo = GenExprOpts { depth: 2, allow_not: opts.max_prefix_len.is_some_and(|m| m <= 16), max_prefix_len: opts.max_prefix_len, ..GenExprOpts::default() };
        let mut e = generate_expr_with(r.next_u64(), &db, &fo);
        for _ in 0..20 {
            let hollow = |s: &String| crate::expr::expand_as_set(&db, s).map_or(true, |x| x.is_empty());
            if !crate::expr::referenced_names(&e, &db).as_sets.iter().any(hollow) {
                break;
            }
            e = generate_expr_with(r.next_u64(), &db, &fo);
        }
        db.filter_sets.insert(name, e.to_rpsl());
    }
    db
}

/// Per-family prefix source.
struct FamGen {
    fam: Family,
    blocks: Vec<u128>,
    blk_len: u8,
    /// fresh prefixes get a length in `lo..=hi`; nothing is ever longer than `cap`
    lo: u8,
    hi: u8,
    cap: u8,
    pool: Vec<Pfx>,
}

impl FamGen {
    /// One prefix: fresh inside a block, or derived from an already used prefix (duplicate,
    /// more-specific, sibling, parent) so that overlaps and aggregatable neighbours are common.
    fn gen(&self, r: &mut Rng) -> Pfx {
        let (fam, bits) = (self.fam, self.fam.bits());
        let fresh = |r: &mut Rng| {
            let len = r.range(self.lo.max(self.blk_len) as u64, self.hi as u64) as u8;
            Pfx::new(fam, *r.pick(&self.blocks) | (r.next_u128() & !mask(fam, self.blk_len) & mask(fam, bits)), len)
        };
        if self.pool.is_empty() {
            return fresh(r);
        }
        let base = *r.pick(&self.pool);
        let p = match r.below(20) {
            0..=7 => fresh(r),
            8..=11 => base, // duplicate across ASes
            12..=15 => {
                let len = (base.len as u64 + r.range(1, 4)).min(bits as u64) as u8; // more specific
                Pfx::new(fam, base.addr | (r.next_u128() & !mask(fam, base.len) & mask(fam, bits)), len)
            }
            16 | 17 => base.sibling().unwrap_or(base),
            18 => base.parent().unwrap_or(base),
            _ => match r.below(4) {
                0 => Pfx::new(fam, base.addr, bits),                         // host route
                1 => base.ancestor(if fam == Family::V4 { 8 } else { 19 }), // very short
                2 => Pfx::new(fam, 0, 0),                                    // default route
                _ => fresh(r),
            },
        };
        p.ancestor(self.cap)
    }
}

// ---- JSON -----------------------------------------------------------------------------------

impl Db {
    /// Human-readable JSON: prefixes as `a.b.c.d/len`, members as RPSL tokens.
    pub fn to_json(&self) -> Value {
        let ases: Map<String, Value> = self
            .ases
            .iter()
            .map(|(asn, rt)| {
                let v4: Vec<String> = rt.v4.iter().map(|&(a, l)| Pfx::v4(a, l).to_string()).collect();
                let v6: Vec<String> = rt.v6.iter().map(|&(a, l)| Pfx::v6(a, l).to_string()).collect();
                (asn.to_string(), json!({ "v4": v4, "v6": v6 }))
            })
            .collect();
        let as_sets: Map<String, Value> = self
            .as_sets
            .iter()
            .map(|(n, ms)| (n.clone(), Value::from(ms.iter().map(as_member_str).collect::<Vec<_>>())))
            .collect();
        let route_sets: Map<String, Value> = self
            .route_sets
            .iter()
            .map(|(n, ms)| (n.clone(), Value::from(ms.iter().map(rs_member_str).collect::<Vec<_>>())))
            .collect();
        json!({ "ases": ases, "as_sets": as_sets, "route_sets": route_sets, "filter_sets": self.filter_sets })
    }

    pub fn from_json(v: &Value) -> Result<Db, String> {
        let mut db = Db::default();
        let obj = |k: &str| v.get(k).and_then(Value::as_object).ok_or_else(|| format!("missing object '{k}'"));
        let strs = |v: &Value| -> Result<Vec<String>, String> {
            let arr = v.as_array().ok_or("expected array")?;
            arr.iter().map(|s| s.as_str().map(str::to_owned).ok_or_else(|| "expected string".to_owned())).collect()
        };
        for (k, rt) in obj("ases")? {
            let asn: u32 = k.parse().map_err(|_| format!("bad AS number '{k}'"))?;
            let mut routes = AsRoutes::default();
            for s in strs(rt.get("v4").unwrap_or(&json!([])))? {
                let p: Pfx = s.parse()?;
                routes.v4.push((p.addr as u32, p.len));
            }
            for s in strs(rt.get("v6").unwrap_or(&json!([])))? {
                let p: Pfx = s.parse()?;
                routes.v6.push((p.addr, p.len));
            }
            db.ases.insert(asn, routes);
        }
        for (k, ms) in obj("as_sets")? {
            let members = strs(ms)?.iter().map(|s| parse_as_member(s)).collect::<Result<_, _>>()?;
            db.as_sets.insert(k.to_uppercase(), members);
        }
        for (k, ms) in obj("route_sets")? {
            let members = strs(ms)?.iter().map(|s| parse_rs_member(s)).collect::<Result<_, _>>()?;
            db.route_sets.insert(k.to_uppercase(), members);
        }
        for (k, e) in obj("filter_sets")? {
            db.filter_sets.insert(k.to_uppercase(), e.as_str().ok_or("expected string")?.to_owned());
        }
        Ok(db)
    }
}

pub fn parse_asn(s: &str) -> Option<u32> {
    let s = s.trim();
    if s.len() > 2 && s[..2].eq_ignore_ascii_case("AS") && s[2..].bytes().all(|b| b.is_ascii_digit()) {
        s[2..].parse().ok()
    } else {
        None
    }
}

pub fn as_member_str(m: &AsSetMember) -> String {
    match m {
        AsSetMember::As(n) => format!("AS{n}"),
        AsSetMember::Set(s) => s.clone(),
    }
}

pub fn rs_member_str(m: &RouteSetMember) -> String {
    match m {
        RouteSetMember::Prefix4(a, l) => Pfx::v4(*a, *l).to_string(),
        RouteSetMember::Prefix6(a, l) => Pfx::v6(*a, *l).to_string(),
        RouteSetMember::Set(s) | RouteSetMember::AsSet(s) => s.clone(),
        RouteSetMember::As(n) => format!("AS{n}"),
    }
}

fn parse_as_member(s: &str) -> Result<AsSetMember, String> {
    Ok(parse_asn(s).map_or_else(|| AsSetMember::Set(s.to_uppercase()), AsSetMember::As))
}

fn parse_rs_member(s: &str) -> Result<RouteSetMember, String> {
    if s.contains('/') {
        let p: Pfx = s.parse()?;
        return Ok(match p.family {
            Family::V4 => RouteSetMember::Prefix4(p.addr as u32, p.len),
            Family::V6 => RouteSetMember::Prefix6(p.addr, p.len),
        });
    }
    if let Some(n) = parse_asn(s) {
        return Ok(RouteSetMember::As(n));
    }
    let up = s.to_uppercase();
    // class of a (possibly hierarchical) set name = class of its set-name component
    if up.split(':').any(|c| c.starts_with("AS-")) && !up.split(':').any(|c| c.starts_with("RS-")) {
        Ok(RouteSetMember::AsSet(up))
    } else {
        Ok(RouteSetMember::Set(up))
    }
}
