//! `irrfake serve --seed N [--size small|medium|large] [--port P] [--rs-as-members] [--max-len L] [--db FILE]`
//!     prints `PORT <port>` and serves until killed.
//! `irrfake dump --seed N [--size ...] [--rs-as-members] [--max-len L]` prints the database as JSON.

use std::io::Write;

use irrfake::db::{generate_with, Db, GenOpts, Size};
use irrfake::server::{Faults, Server};

fn usage() -> ! {
    eprintln!("usage: irrfake serve|dump --seed N [--size small|medium|large] [--port P] [--rs-as-members] [--max-len L] [--db FILE.json]");
    std::process::exit(2)
}

fn main() {
    let args: Vec<String> = std::env::args().skip(1).collect();
    let Some(cmd) = args.first() else { usage() };
    let (mut seed, mut size, mut port, mut rs_as, mut file, mut max_len) = (0u64, Size::Small, 0u16, false, None, None);
    let mut it = args[1..].iter();
    while let Some(a) = it.next() {
        let mut val = || it.next().cloned().unwrap_or_else(|| usage());
        match a.as_str() {
            "--seed" => seed = val().parse().unwrap_or_else(|_| usage()),
            "--size" => size = Size::parse(&val()).unwrap_or_else(|| usage()),
            "--port" => port = val().parse().unwrap_or_else(|_| usage()),
            "--db" => file = Some(val()),
            "--max-len" => max_len = Some(val().parse().unwrap_or_else(|_| usage())),
            "--rs-as-members" => rs_as = true,
            _ => usage(),
        }
    }
    let db = match file {
        Some(f) => {
            let text = std::fs::read_to_string(&f).expect("read db file");
            Db::from_json(&serde_json::from_str(&text).expect("db file is not JSON")).expect("bad db")
        }
        None => generate_with(seed, GenOpts { size, rs_as_members: rs_as, max_prefix_len: max_len }),
    };
    match cmd.as_str() {
        "dump" => println!("{}", serde_json::to_string_pretty(&db.to_json()).unwrap()),
        "serve" => {
            let server = Server::start_on_port(db, Faults::default(), port).expect("bind");
            println!("PORT {}", server.port());
            std::io::stdout().flush().unwrap();
            loop {
                std::thread::park();
            }
        }
        _ => usage(),
    }
}
