//! A fake IRRd (whois `!` query protocol) on 127.0.0.1 serving a [`Db`], with fault injection
//! and a query log. Plain std threads: one acceptor, and a reader + a writer thread per
//! connection (so a client may pipeline arbitrarily many queries before reading anything).
//!
//! Wire behaviour mirrors IRRd 4 (`irrd/server/whois/query_parser.py`, `query_response.py`):
//! success with data is `A<len>\n<data>\nC\n` where `<len> = len(data) + 1`; success without
//! data is `C\n`; `D\n` = key not found; `E\n` = not unique; `F <msg>\n` = error. For the
//! commands `!g !6 !i !a !m` an EMPTY result is reported as `D` (IRRd does not distinguish
//! "object exists but expands to nothing" from "no such object").

use std::collections::{BTreeMap, BTreeSet, VecDeque};
use std::io::{self, BufRead, BufReader, BufWriter, Write};
use std::net::{Shutdown, TcpListener, TcpStream};
use std::sync::atomic::{AtomicBool, AtomicU64, Ordering};
use std::sync::{mpsc, Arc, Mutex};
use std::thread::{self, JoinHandle};

use crate::db::{as_member_str, parse_asn, rs_member_str, AsSetMember, Db, RouteSetMember};
use crate::pfx::{Family, Pfx};

#[derive(Clone, Debug, PartialEq, Eq)]
pub enum Fault {
    /// `D\n`
    KeyNotFound,
    /// `E\n`
    NotUnique,
    /// `F <msg>\n`
    Other(String),
    /// Close the connection instead of answering.
    CloseConnection,
    /// Send these bytes verbatim instead of the proper response.
    Garbage(Vec<u8>),
}

#[derive(Clone, Debug, Default)]
pub struct Faults {
    /// Keyed by the exact query text without the trailing newline, e.g. `"!iAS-FOO,1"` or
    /// `"!gAS65001"`; the same query therefore fails the same way on every connection.
    pub by_query: BTreeMap<String, Fault>,
    /// Transient faults: like `by_query`, but each entry is consumed by the FIRST occurrence of
    /// that query on this server (on whichever connection); later occurrences are answered normally.
    pub once: BTreeMap<String, Fault>,
    /// Nothing listens on the port: clients get ECONNREFUSED.
    pub refuse_connections: bool,
    /// Answer this many received lines per connection (the handshake lines `!!` and `!n...`
    /// count), then close the connection on the next one.
    pub close_after_queries: Option<usize>,
    /// Omit the `changed:` attribute from objects returned by `!m` (modern IRR databases do not
    /// carry it; `rpsl` 0.1.1 treats it as mandatory).
    pub omit_changed_attr: bool,
    /// An as-set / route-set that exists but expands to nothing is answered with `C` (success, no
    /// data) instead of `D` (key not found): servers differ here.
    pub empty_set_is_success: bool,
}

#[derive(Clone, Debug, PartialEq, Eq)]
pub struct LogEntry {
    /// Connection number (1-based, in accept order).
    pub conn: u64,
    /// 0-based position of the query within its connection, assigned when the line is READ.
    /// Entries are appended when the response is WRITTEN, so within one `conn` the log must show
    /// strictly increasing `seq`.
    pub seq: u64,
    pub query: String,
    /// `"A"`, `"C"`, `"D"`, `"E"`, `"F"`, `"closed"`, `"garbage"` or `"none"` (`!!` has no response).
    pub response_kind: String,
    /// Number of bytes written for this query.
    pub response_len: usize,
}

struct Shared {
    db: Db,
    faults: Faults,
    once: Mutex<BTreeMap<String, Fault>>,
    log: Mutex<Vec<LogEntry>>,
    stop: AtomicBool,
    conns: Mutex<Vec<TcpStream>>,
    next_conn: AtomicU64,
}

pub struct Server {
    port: u16,
    shared: Arc<Shared>,
    acceptor: Option<JoinHandle<()>>,
}

impl Server {
    /// Serve `db` on an ephemeral port of 127.0.0.1.
    pub fn start(db: Db, faults: Faults) -> io::Result<Server> {
        Server::start_on_port(db, faults, 0)
    }

    pub fn start_on_port(db: Db, faults: Faults, port: u16) -> io::Result<Server> {
        let listener = TcpListener::bind(("127.0.0.1", port))?;
        let port = listener.local_addr()?.port();
        let refuse = faults.refuse_connections;
        let once = Mutex::new(faults.once.clone());
        let shared = Arc::new(Shared { db, faults, once, log: Mutex::default(), stop: AtomicBool::new(false), conns: Mutex::default(), next_conn: AtomicU64::new(1) });
        if refuse {
            drop(listener); // port is now closed
            return Ok(Server { port, shared, acceptor: None });
        }
        let sh = shared.clone();
        let acceptor = thread::Builder::new().name("irrfake-accept".into()).spawn(move || {
            for stream in listener.incoming() {
                if sh.stop.load(Ordering::SeqCst) {
                    break;
                }
                let Ok(stream) = stream else { continue };
                let conn = sh.next_conn.fetch_add(1, Ordering::SeqCst);
                if let Ok(clone) = stream.try_clone() {
                    sh.conns.lock().unwrap().push(clone);
                }
                let sh2 = sh.clone();
                let _ = thread::Builder::new().name(format!("irrfake-conn{conn}")).spawn(move || serve_conn(sh2, stream, conn));
            }
        })?;
        Ok(Server { port, shared, acceptor: Some(acceptor) })
    }

    pub fn port(&self) -> u16 {
        self.port
    }

    /// Snapshot of the query log (all connections, in response order).
    pub fn log(&self) -> Vec<LogEntry> {
        self.shared.log.lock().unwrap().clone()
    }

    /// Stop accepting, close every open connection and join the acceptor.
    pub fn stop(mut self) {
        self.shutdown();
    }

    fn shutdown(&mut self) {
        if self.shared.stop.swap(true, Ordering::SeqCst) {
            return;
        }
        for c in self.shared.conns.lock().unwrap().drain(..) {
            let _ = c.shutdown(Shutdown::Both);
        }
        if let Some(h) = self.acceptor.take() {
            let _ = TcpStream::connect(("127.0.0.1", self.port)); // wake the blocking accept()
            let _ = h.join();
        }
    }
}

impl Drop for Server {
    fn drop(&mut self) {
        self.shutdown();
    }
}

enum Resp {
    /// kind, bytes
    Bytes(&'static str, Vec<u8>),
    /// `!!`: no response at all
    None,
    /// close the connection
    Close,
}

fn serve_conn(sh: Arc<Shared>, stream: TcpStream, conn: u64) {
    let _ = stream.set_nodelay(true);
    let Ok(wstream) = stream.try_clone() else { return };
    let (tx, rx) = mpsc::channel::<(u64, String)>();
    let sh_w = sh.clone();
    let writer = thread::spawn(move || {
        let mut w = BufWriter::new(&wstream);
        let mut answered = 0usize;
        loop {
            // flush only when the client has nothing more queued: keeps pipelined bursts cheap
            let (seq, query) = match rx.try_recv() {
                Ok(x) => x,
                Err(mpsc::TryRecvError::Disconnected) => break,
                Err(mpsc::TryRecvError::Empty) => {
                    let _ = w.flush();
                    match rx.recv() {
                        Ok(x) => x,
                        Err(_) => break,
                    }
                }
            };
            let over_budget = sh_w.faults.close_after_queries.is_some_and(|k| answered >= k);
            let resp = if over_budget { Resp::Close } else { respond(&sh_w, &query) };
            answered += 1;
            let (kind, bytes) = match &resp {
                Resp::Bytes(k, b) => (*k, b.as_slice()),
                Resp::None => ("none", &[][..]),
                Resp::Close => ("closed", &[][..]),
            };
            let ok = w.write_all(bytes).is_ok();
            sh_w.log.lock().unwrap().push(LogEntry { conn, seq, query, response_kind: kind.to_owned(), response_len: bytes.len() });
            if matches!(resp, Resp::Close) || !ok {
                break;
            }
        }
        let _ = w.flush();
        let _ = wstream.shutdown(Shutdown::Both);
    });
    let mut rd = BufReader::new(&stream);
    let (mut seq, mut line) = (0u64, Vec::new());
    loop {
        line.clear();
        match rd.read_until(b'\n', &mut line) {
            Ok(0) | Err(_) => break,
            Ok(_) => {
                let q = String::from_utf8_lossy(&line).trim_end_matches(['\r', '\n']).to_owned();
                if q.is_empty() {
                    continue;
                }
                if tx.send((seq, q)).is_err() {
                    break;
                }
                seq += 1;
            }
        }
    }
    drop(tx);
    let _ = writer.join();
}

fn data(s: String) -> Resp {
    // IRRd: `if result: A{len(result)+1}\n{result}\nC\n`
    Resp::Bytes("A", format!("A{}\n{}\nC\n", s.len() + 1, s).into_bytes())
}
fn data_or_d(s: String) -> Resp {
    if s.is_empty() { Resp::Bytes("D", b"D\n".to_vec()) } else { data(s) }
}
fn ok() -> Resp {
    Resp::Bytes("C", b"C\n".to_vec())
}
fn err(msg: impl AsRef<str>) -> Resp {
    Resp::Bytes("F", format!("F {}\n", msg.as_ref()).into_bytes())
}
fn join<T: ToString>(items: impl IntoIterator<Item = T>) -> String {
    items.into_iter().map(|x| x.to_string()).collect::<Vec<_>>().join(" ")
}

fn respond(sh: &Shared, q: &str) -> Resp {
    let transient = sh.once.lock().unwrap().remove(q);
    if let Some(f) = transient.as_ref().or_else(|| sh.faults.by_query.get(q)) {
        return match f {
            Fault::KeyNotFound => Resp::Bytes("D", b"D\n".to_vec()),
            Fault::NotUnique => Resp::Bytes("E", b"E\n".to_vec()),
            Fault::Other(m) => err(m),
            Fault::CloseConnection => Resp::Close,
            Fault::Garbage(b) => Resp::Bytes("garbage", b.clone()),
        };
    }
    let db = &sh.db;
    let Some(rest) = q.strip_prefix('!') else { return err("irrfake only speaks the IRRd '!' query protocol") };
    let mut chars = rest.chars();
    let Some(cmd) = chars.next() else { return err("Missing IRRd command") };
    let param = chars.as_str().trim();
    if param.is_empty() && "g6iamt".contains(cmd) {
        return err(format!("Missing parameter for {cmd} query"));
    }
    let origin = |param: &str, fam: Option<Family>| match parse_asn(param) {
        None => err(format!("Invalid AS number {}: must be in format AS<number>", param.to_uppercase())),
        Some(asn) => data_or_d(join(dedup(routes_of(db, asn, fam)))),
    };
    match cmd {
        '!' => Resp::None,
        'n' => ok(),
        't' => match param.parse::<u32>() {
            Ok(t) if (1..=1000).contains(&t) => ok(),
            _ => err(format!("Invalid value for timeout: {param}")),
        },
        'q' => Resp::Close,
        'v' => data("IRRd -- version 4.4.2 (irrfake)".into()),
        's' if param == "-lc" => data("TEST".into()),
        's' => ok(),
        'g' => origin(param, Some(Family::V4)),
        '6' => origin(param, Some(Family::V6)),
        'i' => {
            let (name, recursive) = match param.rsplit_once(',') {
                Some((n, "1")) => (n, true),
                _ => (param, false),
            };
            let name = name.trim().to_uppercase();
            let data_or_empty = |s: String| if s.is_empty() && sh.faults.empty_set_is_success { ok() } else { data_or_d(s) };
            if db.as_sets.contains_key(&name) {
                if recursive {
                    data_or_empty(join(flatten_as_set(db, &name).iter().map(|n| format!("AS{n}"))))
                } else {
                    data_or_empty(join(dedup(db.as_sets[&name].iter().map(as_member_str).collect())))
                }
            } else if db.route_sets.contains_key(&name) {
                if recursive {
                    data_or_empty(join(flatten_route_set(db, &name)))
                } else {
                    data_or_empty(join(dedup(db.route_sets[&name].iter().map(rs_member_str).collect())))
                }
            } else {
                Resp::Bytes("D", b"D\n".to_vec())
            }
        }
        // `!a<as-set>`, `!a4<as-set>`, `!a6<as-set>`: prefixes originated by the set's members
        'a' => {
            let (fam, name) = match param.as_bytes() {
                [b'4', ..] => (Some(Family::V4), &param[1..]),
                [b'6', ..] => (Some(Family::V6), &param[1..]),
                _ => (None, param),
            };
            let all: Vec<Pfx> = flatten_as_set(db, &name.to_uppercase()).into_iter().flat_map(|n| routes_of(db, n, fam)).collect();
            data_or_d(join(dedup(all)))
        }
        'm' => match param.split_once(',') {
            None => err("Invalid argument for object lookup: must be class,key"),
            Some((class, k)) => data_or_d(object_text(db, &class.trim().to_lowercase(), &k.trim().to_uppercase(), sh.faults.omit_changed_attr).unwrap_or_default()),
        },
        c => err(format!("Unrecognised command: {c}")),
    }
}

fn dedup<T: PartialEq>(v: Vec<T>) -> Vec<T> {
    let mut out: Vec<T> = Vec::with_capacity(v.len());
    for x in v {
        if !out.contains(&x) {
            out.push(x);
        }
    }
    out
}

fn routes_of(db: &Db, asn: u32, fam: Option<Family>) -> Vec<Pfx> {
    db.ases.get(&asn).map_or_else(Vec::new, |r| r.prefixes().filter(|p| fam.map_or(true, |f| p.family == f)).collect())
}

/// IRRd-style breadth-first resolution with a "sets seen" guard (independent of the recursive
/// implementation in `expr`). Unknown nested sets contribute nothing.
fn flatten_as_set(db: &Db, root: &str) -> BTreeSet<u32> {
    let (mut out, mut seen, mut queue) = (BTreeSet::new(), BTreeSet::from([root.to_owned()]), VecDeque::from([root.to_owned()]));
    while let Some(name) = queue.pop_front() {
        for m in db.as_sets.get(&name).map_or(&[][..], Vec::as_slice) {
            match m {
                AsSetMember::As(n) => drop(out.insert(*n)),
                AsSetMember::Set(s) => {
                    if seen.insert(s.to_uppercase()) {
                        queue.push_back(s.to_uppercase());
                    }
                }
            }
        }
    }
    out
}

/// Prefix members verbatim; nested route-sets expanded; AS-number members replaced by the routes
/// they originate (IRRd >= 4.2). as-set members are expanded the same way (RFC 2622 section 5.3);
/// real IRRd 4 is believed to skip them, which is why the generator never emits them.
fn flatten_route_set(db: &Db, root: &str) -> BTreeSet<Pfx> {
    let (mut out, mut seen, mut queue) = (BTreeSet::new(), BTreeSet::from([root.to_owned()]), VecDeque::from([root.to_owned()]));
    while let Some(name) = queue.pop_front() {
        for m in db.route_sets.get(&name).map_or(&[][..], Vec::as_slice) {
            match m {
                RouteSetMember::Prefix4(a, l) => drop(out.insert(Pfx::v4(*a, *l))),
                RouteSetMember::Prefix6(a, l) => drop(out.insert(Pfx::v6(*a, *l))),
                RouteSetMember::Set(s) => {
                    if seen.insert(s.to_uppercase()) {
                        queue.push_back(s.to_uppercase());
                    }
                }
                RouteSetMember::As(n) => out.extend(routes_of(db, *n, None)),
                RouteSetMember::AsSet(s) => out.extend(flatten_as_set(db, &s.to_uppercase()).into_iter().flat_map(|n| routes_of(db, n, None))),
            }
        }
    }
    out
}

/// RPSL text of an object, formatted like IRRd (values aligned at column 16, no trailing newline).
fn object_text(db: &Db, class: &str, k: &str, omit_changed: bool) -> Option<String> {
    let mut attrs: Vec<(&str, String)> = vec![(class, k.to_owned())];
    match class {
        "filter-set" => attrs.push(("mp-filter", db.filter_sets.get(k)?.clone())),
        "as-set" => attrs.push(("members", db.as_sets.get(k)?.iter().map(as_member_str).collect::<Vec<_>>().join(", "))),
        "route-set" => attrs.push(("mp-members", db.route_sets.get(k)?.iter().map(rs_member_str).collect::<Vec<_>>().join(", "))),
        "aut-num" => {
            db.ases.get(&parse_asn(k)?)?;
            attrs.push(("as-name", format!("{k}-NAME")));
        }
        _ => return None,
    }
    attrs.push(("descr", "generated by irrfake".into()));
    attrs.push(("mnt-by", "MAINT-IRRFAKE".into()));
    if !omit_changed {
        attrs.push(("changed", "irrfake@example.net 20240101".into()));
    }
    attrs.push(("source", "TEST".into()));
    Some(attrs.iter().map(|(a, v)| format!("{:<16}{}", format!("{a}:"), v)).collect::<Vec<_>>().join("\n"))
}
