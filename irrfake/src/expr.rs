//! mp-filter expression AST, generator, parser and an INDEPENDENT reference evaluator.
//!
//! This module deliberately does not use `rpsl`, `generic-ip` or `irrc` (the code under test).
//! Semantics implemented (RFC 2622 section 2, 5.1-5.4 and RFC 4012 section 2.5.2); see README.md:
//!
//! * `ASn`        = exact prefixes of the route/route6 objects with `origin: ASn`.
//! * as-set       = union over the ASes reachable by recursive member expansion (cycles are
//!                  harmless, dangling nested names contribute nothing).
//! * route-set    = union of the recursively expanded members; AS / as-set members denote the
//!                  routes they originate (RFC 2622 section 5.3).
//! * filter-set   = its stored expression, parsed with RFC precedence (NOT > AND > OR).
//! * `{ p/l^op }` = `{ q : q is p/l or a more-specific of it, and op admits (l, len(q)) }`.
//! * `S^op`       = `{ q : exists p in S, q is p or a more-specific of p, op admits (len(p), len(q)) }`
//!                  i.e. the operator distributes over the members, which yields exactly the
//!                  composition rules listed in RFC 2622 section 2.
//! * `op admits (l, n)`: none: n = l; `^-`: n > l; `^+`: n >= l; `^k`: n = k; `^k-m`: k <= n <= m
//!                  (n >= l always holds because q is covered by p; hence `^k` with k < l and
//!                  `^k-m` with m < l select nothing, and `^k-m` with k < l acts as `^l-m`).
//! * `ANY` = every prefix of both address families; `NOT` = complement within that universe;
//!   `AND` / `OR` = intersection / union.

use std::collections::{BTreeSet, HashSet};
use std::fmt;

use crate::db::{parse_asn, AsSetMember, Db, RouteSetMember};
use crate::pfx::{mask, Family, Pfx, Rng};

// ---- AST --------------------------------------------------------------------------------------

#[derive(Clone, Copy, Debug, PartialEq, Eq, Hash, PartialOrd, Ord)]
pub enum Op {
    None,
    /// `^-`
    LessExcl,
    /// `^+`
    LessIncl,
    /// `^n`
    Exact(u8),
    /// `^n-m`
    Range(u8, u8),
}

impl Op {
    /// Does the operator, applied to a prefix of length `base`, select a covered prefix of
    /// length `n` (`n >= base` is guaranteed by the caller)?
    pub fn admits(self, base: u8, n: u8) -> bool {
        match self {
            Op::None => n == base,
            Op::LessExcl => n > base,
            Op::LessIncl => n >= base,
            Op::Exact(k) => n == k,
            Op::Range(k, m) => k <= n && n <= m,
        }
    }
}

impl fmt::Display for Op {
    fn fmt(&self, f: &mut fmt::Formatter<'_>) -> fmt::Result {
        match self {
            Op::None => Ok(()),
            Op::LessExcl => write!(f, "^-"),
            Op::LessIncl => write!(f, "^+"),
            Op::Exact(n) => write!(f, "^{n}"),
            Op::Range(n, m) => write!(f, "^{n}-{m}"),
        }
    }
}

#[derive(Clone, Copy, Debug, PartialEq, Eq)]
pub struct LitEntry {
    pub family: Family,
    pub addr: u128,
    pub len: u8,
    pub op: Op,
}

impl LitEntry {
    pub fn pfx(&self) -> Pfx {
        Pfx::new(self.family, self.addr, self.len)
    }
}

#[derive(Clone, Debug, PartialEq, Eq)]
pub enum Expr {
    Any,
    AsNum(u32),
    AsSet(String),
    RouteSet(String),
    FilterSet(String),
    Literal(Vec<LitEntry>),
    Not(Box<Expr>),
    And(Box<Expr>, Box<Expr>),
    Or(Box<Expr>, Box<Expr>),
    /// Range operator applied to `AsNum` / `AsSet` / `RouteSet` / `Literal`.
    RangeOp(Box<Expr>, Op),
    PeerAs,
    /// Text between `<` and `>`.
    AsPathRegex(String),
    /// Any attribute match such as `community(65000:1)` or `community.contains(65000:1)`, verbatim.
    Community(String),
}

impl Expr {
    /// RPSL text. Operands of NOT/AND/OR that are themselves NOT/AND/OR are always parenthesised,
    /// so the text means the same under any precedence convention.
    pub fn to_rpsl(&self) -> String {
        let wrap = |e: &Expr| match e {
            Expr::Not(_) | Expr::And(..) | Expr::Or(..) => format!("({})", e.to_rpsl()),
            _ => e.to_rpsl(),
        };
        match self {
            Expr::Any => "ANY".into(),
            Expr::AsNum(n) => format!("AS{n}"),
            Expr::AsSet(s) | Expr::RouteSet(s) | Expr::FilterSet(s) => s.clone(),
            Expr::Literal(es) => {
                let items: Vec<String> = es.iter().map(|e| format!("{}{}", e.pfx(), e.op)).collect();
                format!("{{{}}}", items.join(", "))
            }
            Expr::Not(e) => format!("NOT {}", wrap(e)),
            Expr::And(a, b) => format!("{} AND {}", wrap(a), wrap(b)),
            Expr::Or(a, b) => format!("{} OR {}", wrap(a), wrap(b)),
            Expr::RangeOp(e, op) => format!("{}{}", e.to_rpsl(), op),
            Expr::PeerAs => "PeerAS".into(),
            Expr::AsPathRegex(s) => format!("<{s}>"),
            Expr::Community(s) => s.clone(),
        }
    }

    /// False if the expression (not looking through filter-sets) contains PeerAS, an AS-path
    /// regular expression or an attribute match: those do not denote prefix sets.
    pub fn is_evaluable(&self) -> bool {
        match self {
            Expr::PeerAs | Expr::AsPathRegex(_) | Expr::Community(_) => false,
            Expr::Not(e) | Expr::RangeOp(e, _) => e.is_evaluable(),
            Expr::And(a, b) | Expr::Or(a, b) => a.is_evaluable() && b.is_evaluable(),
            _ => true,
        }
    }
}

// ---- parser (own, RFC precedence: NOT > AND > OR, juxtaposition = OR) ---------------------------

/// Parse an mp-filter expression. Understands everything [`Expr::to_rpsl`] emits plus
/// un-parenthesised operators, implicit OR, `AS-ANY` / `RS-ANY` (= `ANY`).
pub fn parse(s: &str) -> Result<Expr, String> {
    let mut p = Parser { s: s.as_bytes(), i: 0 };
    let e = p.or_expr()?;
    p.ws();
    if p.i != p.s.len() {
        return Err(format!("trailing input at byte {}", p.i));
    }
    Ok(e)
}

struct Parser<'a> {
    s: &'a [u8],
    i: usize,
}

fn is_word(b: u8) -> bool {
    b.is_ascii_alphanumeric() || b"_-:./^+".contains(&b)
}

impl Parser<'_> {
    fn ws(&mut self) {
        while self.i < self.s.len() && self.s[self.i].is_ascii_whitespace() {
            self.i += 1;
        }
    }
    fn peek(&self) -> Option<u8> {
        self.s.get(self.i).copied()
    }
    fn word(&mut self) -> String {
        let st = self.i;
        while self.i < self.s.len() && is_word(self.s[self.i]) {
            self.i += 1;
        }
        String::from_utf8_lossy(&self.s[st..self.i]).into_owned()
    }
    /// Consume keyword `kw` if it is the next whole word.
    fn kw(&mut self, kw: &str) -> bool {
        self.ws();
        let save = self.i;
        if self.word().eq_ignore_ascii_case(kw) {
            return true;
        }
        self.i = save;
        false
    }
    fn or_expr(&mut self) -> Result<Expr, String> {
        let mut lhs = self.and_expr()?;
        loop {
            self.ws();
            match self.peek() {
                None | Some(b')') => return Ok(lhs),
                _ => {
                    let _explicit = self.kw("OR");
                    let rhs = self.and_expr()?;
                    lhs = Expr::Or(Box::new(lhs), Box::new(rhs));
                }
            }
        }
    }
    fn and_expr(&mut self) -> Result<Expr, String> {
        let mut lhs = self.not_expr()?;
        while self.kw("AND") {
            let rhs = self.not_expr()?;
            lhs = Expr::And(Box::new(lhs), Box::new(rhs));
        }
        Ok(lhs)
    }
    fn not_expr(&mut self) -> Result<Expr, String> {
        if self.kw("NOT") {
            return Ok(Expr::Not(Box::new(self.not_expr()?)));
        }
        self.term()
    }
    fn until(&mut self, open: u8, close: u8) -> Result<String, String> {
        let (st, mut depth) = (self.i, 1);
        while let Some(b) = self.peek() {
            self.i += 1;
            if b == open && open != close {
                depth += 1;
            } else if b == close {
                depth -= 1;
                if depth == 0 {
                    return Ok(String::from_utf8_lossy(&self.s[st..self.i - 1]).into_owned());
                }
            }
        }
        Err(format!("unterminated '{}'", open as char))
    }
    fn term(&mut self) -> Result<Expr, String> {
        self.ws();
        match self.peek() {
            None => Err("unexpected end of expression".into()),
            Some(b'(') => {
                self.i += 1;
                let e = self.or_expr()?;
                self.ws();
                if self.peek() != Some(b')') {
                    return Err(format!("expected ')' at byte {}", self.i));
                }
                self.i += 1;
                Ok(e)
            }
            Some(b'<') => {
                self.i += 1;
                Ok(Expr::AsPathRegex(self.until(b'<', b'>')?))
            }
            Some(b'{') => {
                self.i += 1;
                let body = self.until(b'{', b'}')?;
                let mut entries = vec![];
                for item in body.split(',').map(str::trim).filter(|s| !s.is_empty()) {
                    let (p, op) = split_op(item)?;
                    let p: Pfx = p.parse()?;
                    entries.push(LitEntry { family: p.family, addr: p.addr, len: p.len, op });
                }
                let lit = Expr::Literal(entries);
                if self.peek() == Some(b'^') {
                    let (_, op) = split_op(&self.word())?;
                    return Ok(Expr::RangeOp(Box::new(lit), op));
                }
                Ok(lit)
            }
            Some(_) => {
                let w = self.word();
                if w.is_empty() {
                    return Err(format!("unexpected character at byte {}", self.i));
                }
                if self.peek() == Some(b'(') {
                    self.i += 1;
                    let args = self.until(b'(', b')')?;
                    return Ok(Expr::Community(format!("{w}({args})")));
                }
                let (base, op) = split_op(&w)?;
                let e = classify(base)?;
                Ok(if op == Op::None { e } else { Expr::RangeOp(Box::new(e), op) })
            }
        }
    }
}

fn split_op(w: &str) -> Result<(&str, Op), String> {
    let Some((base, op)) = w.split_once('^') else { return Ok((w, Op::None)) };
    let bad = || format!("bad range operator '^{op}'");
    let op = match op {
        "-" => Op::LessExcl,
        "+" => Op::LessIncl,
        _ => match op.split_once('-') {
            Some((n, m)) => Op::Range(n.parse().map_err(|_| bad())?, m.parse().map_err(|_| bad())?),
            None => Op::Exact(op.parse().map_err(|_| bad())?),
        },
    };
    Ok((base, op))
}

/// Class of a name token. A hierarchical name takes the class of its set-name component.
fn classify(w: &str) -> Result<Expr, String> {
    let up = w.to_uppercase();
    match up.as_str() {
        "ANY" | "AS-ANY" | "RS-ANY" => return Ok(Expr::Any),
        "PEERAS" => return Ok(Expr::PeerAs),
        _ => {}
    }
    if let Some(n) = parse_asn(&up) {
        return Ok(Expr::AsNum(n));
    }
    let has = |pre: &str| up.split(':').any(|c| c.starts_with(pre));
    if has("FLTR-") {
        Ok(Expr::FilterSet(up))
    } else if has("RS-") {
        Ok(Expr::RouteSet(up))
    } else if has("AS-") {
        Ok(Expr::AsSet(up))
    } else {
        Err(format!("unrecognised token '{w}'"))
    }
}

// ---- generator ----------------------------------------------------------------------------------

#[derive(Clone, Copy, Debug)]
pub struct GenExprOpts {
    pub depth: u32,
    /// Occasionally reference as-sets / route-sets / filter-sets / ASes that do not exist.
    pub unknown_names: bool,
    /// Occasionally emit `PeerAS`, `<...>` and `community(...)` leaves.
    pub unevaluable: bool,
    /// Emit `NOT`. See [`crate::db::GenOpts::max_prefix_len`] for why this is optional.
    pub allow_not: bool,
    /// Cap on the length of prefixes in literal sets.
    pub max_prefix_len: Option<u8>,
    /// Allow `^n-m` with `n <= 32 < m` on named sets / literal sets. RPSL-wise that selects the
    /// /n../32 more-specifics of IPv4 members (and /n../m of IPv6 members); `rpsl` 0.1.1 fails to
    /// build the length `m` for IPv4, and bgpfu then silently drops every IPv4 member.
    pub cross_family_ranges: bool,
}

impl Default for GenExprOpts {
    fn default() -> Self {
        GenExprOpts { depth: 3, unknown_names: false, unevaluable: false, allow_not: true, max_prefix_len: None, cross_family_ranges: false }
    }
}

impl GenExprOpts {
    /// Options under which the real evaluator can be expected to terminate: `NOT` is generated
    /// only if no prefix in `db` is longer than /16 (literals are then capped at /16 as well).
    pub fn safe_for(db: &Db, depth: u32) -> GenExprOpts {
        let short = db_prefixes(db).iter().all(|p| p.len <= 16);
        GenExprOpts { depth, allow_not: short, max_prefix_len: short.then_some(16), ..GenExprOpts::default() }
    }
}

/// Generate an evaluable expression that references only names present in `db`, using
/// [`GenExprOpts::safe_for`].
pub fn generate_expr(rng_seed: u64, db: &Db, depth: u32) -> Expr {
    generate_expr_with(rng_seed, db, &GenExprOpts::safe_for(db, depth))
}

pub fn generate_expr_with(rng_seed: u64, db: &Db, o: &GenExprOpts) -> Expr {
    let mut r = Rng::new(rng_seed ^ 0xe4e4_0001);
    let pool: Vec<Pfx> = db_prefixes(db).into_iter().collect();
    gen(&mut r, db, &pool, o, o.depth)
}

fn gen(r: &mut Rng, db: &Db, pool: &[Pfx], o: &GenExprOpts, depth: u32) -> Expr {
    if depth == 0 || r.chance(1, 4) {
        return gen_leaf(r, db, pool, o);
    }
    let a = Box::new(gen(r, db, pool, o, depth - 1));
    match r.below(10) {
        0 | 1 if o.allow_not => Expr::Not(a),
        2..=5 => Expr::And(a, Box::new(gen(r, db, pool, o, depth - 1))),
        _ => Expr::Or(a, Box::new(gen(r, db, pool, o, depth - 1))),
    }
}

fn gen_op(r: &mut Rng, cross_family: bool) -> Op {
    const LENS: &[u8] = &[0, 8, 15, 16, 17, 19, 20, 22, 23, 24, 25, 26, 28, 31, 32, 33, 40, 47, 48, 49, 56, 64, 65, 127, 128];
    match r.below(8) {
        0 | 1 => Op::LessExcl,
        2 | 3 => Op::LessIncl,
        4 | 5 => Op::Exact(*r.pick(LENS)),
        _ => {
            let (a, mut b) = (*r.pick(LENS), *r.pick(LENS));
            while !cross_family && (a <= 32) != (b <= 32) {
                b = *r.pick(LENS);
            }
            // mostly well-formed (n <= m), occasionally inverted
            if r.chance(9, 10) { Op::Range(a.min(b), a.max(b)) } else { Op::Range(a.max(b), a.min(b)) }
        }
    }
}

fn gen_leaf(r: &mut Rng, db: &Db, pool: &[Pfx], o: &GenExprOpts) -> Expr {
    let unknown = |r: &mut Rng| o.unknown_names && r.chance(1, 8);
    let pick_key = |r: &mut Rng, keys: Vec<&String>, missing: &str| {
        if keys.is_empty() { missing.to_owned() } else { (*r.pick(&keys)).clone() }
    };
    if o.unevaluable && r.chance(1, 8) {
        return match r.below(3) {
            0 => Expr::PeerAs,
            1 => Expr::AsPathRegex("^AS65000 .* AS65001$".into()),
            _ => Expr::Community("community(65000:1)".into()),
        };
    }
    let leaf = match r.below(12) {
        0 | 1 => {
            let asns: Vec<u32> = db.ases.keys().copied().collect();
            Expr::AsNum(if unknown(r) || asns.is_empty() { 64998 } else { *r.pick(&asns) })
        }
        2..=4 if !db.as_sets.is_empty() || o.unknown_names => {
            if unknown(r) { Expr::AsSet("AS-NOSUCH".into()) } else { Expr::AsSet(pick_key(r, db.as_sets.keys().collect(), "AS-NOSUCH")) }
        }
        5 | 6 if !db.route_sets.is_empty() || o.unknown_names => {
            if unknown(r) { Expr::RouteSet("RS-NOSUCH".into()) } else { Expr::RouteSet(pick_key(r, db.route_sets.keys().collect(), "RS-NOSUCH")) }
        }
        7 if !db.filter_sets.is_empty() || o.unknown_names => {
            if unknown(r) { Expr::FilterSet("FLTR-NOSUCH".into()) } else { Expr::FilterSet(pick_key(r, db.filter_sets.keys().collect(), "FLTR-NOSUCH")) }
        }
        8 if r.chance(1, 2) => Expr::Any,
        _ => {
            let min = if r.chance(1, 12) { 0 } else { 1 };
            let n = r.range(min, 4);
            Expr::Literal((0..n).map(|_| gen_entry(r, pool, o.max_prefix_len.unwrap_or(128))).collect())
        }
    };
    match leaf {
        Expr::Any | Expr::FilterSet(_) => leaf,
        _ if r.chance(1, 3) => Expr::RangeOp(Box::new(leaf), gen_op(r, o.cross_family_ranges)),
        _ => leaf,
    }
}

/// A literal entry near a prefix that occurs in the database (same, covering, covered, random).
fn gen_entry(r: &mut Rng, pool: &[Pfx], cap: u8) -> LitEntry {
    let base = if pool.is_empty() || r.chance(1, 8) {
        if r.chance(1, 2) { Pfx::v4(r.next_u64() as u32, r.range(0, 32) as u8) } else { Pfx::v6(r.next_u128(), r.range(0, 128) as u8) }
    } else {
        *r.pick(pool)
    };
    let bits = base.family.bits();
    let p = match r.below(6) {
        0 | 1 => base,
        2 | 3 => base.ancestor(base.len.saturating_sub(r.range(1, 8) as u8)),
        4 => {
            let len = (base.len as u64 + r.range(1, 6)).min(bits as u64) as u8;
            Pfx::new(base.family, base.addr | (r.next_u128() & !mask(base.family, base.len)), len)
        }
        _ => Pfx::new(base.family, 0, 0),
    }
    .ancestor(cap);
    let op = match r.below(10) {
        0..=3 => Op::None,
        4 => Op::LessExcl,
        5 => Op::LessIncl,
        6 | 7 => Op::Exact((p.len as i64 + r.range(0, 10) as i64 - 2).clamp(0, bits as i64) as u8),
        _ => {
            let n = (p.len as i64 + r.range(0, 8) as i64 - 2).clamp(0, bits as i64) as u8;
            Op::Range(n, (n as u64 + r.range(0, 8)).min(bits as u64) as u8)
        }
    };
    LitEntry { family: p.family, addr: p.addr, len: p.len, op }
}

// ---- reference evaluator ------------------------------------------------------------------------

#[derive(Clone, Debug, PartialEq, Eq)]
pub enum EvalFail {
    UnknownAsSet(String),
    UnknownRouteSet(String),
    UnknownFilterSet(String),
    /// PeerAS, AS-path regex or attribute match: not a prefix set.
    NotEvaluable(String),
    /// filter-set A references B references A.
    FilterSetCycle(String),
    /// The stored expression of a filter-set could not be parsed by [`parse`].
    BadFilterSet(String, String),
}

#[derive(Clone, Copy, Debug, PartialEq, Eq)]
pub enum OnUnknown {
    Fail,
    Empty,
}

/// What to do when a name used directly in an expression (or in a referenced filter-set's
/// expression) does not exist. Names that are merely *members* of a set never fail.
#[derive(Clone, Copy, Debug, PartialEq, Eq)]
pub struct Policy {
    pub as_set: OnUnknown,
    pub route_set: OnUnknown,
    pub filter_set: OnUnknown,
}

impl Policy {
    /// Every dangling reference is an error (the reference reading of RPSL).
    pub const STRICT: Policy = Policy { as_set: OnUnknown::Fail, route_set: OnUnknown::Fail, filter_set: OnUnknown::Fail };
    /// What `/repo/lib/src/query.rs` does (observed, not endorsed): unknown as-set fails, unknown
    /// route-set is empty, unknown filter-set is `NOT ANY`.
    pub const BGPFU: Policy = Policy { as_set: OnUnknown::Fail, route_set: OnUnknown::Empty, filter_set: OnUnknown::Empty };
}

fn key(s: &str) -> String {
    s.to_uppercase()
}

/// Recursive expansion of an as-set to AS numbers. `None` if `name` itself does not exist.
pub fn expand_as_set(db: &Db, name: &str) -> Option<BTreeSet<u32>> {
    fn go(db: &Db, name: &str, seen: &mut BTreeSet<String>, out: &mut BTreeSet<u32>) {
        if !seen.insert(key(name)) {
            return;
        }
        for m in db.as_sets.get(&key(name)).into_iter().flatten() {
            match m {
                AsSetMember::As(n) => drop(out.insert(*n)),
                AsSetMember::Set(s) => go(db, s, seen, out),
            }
        }
    }
    db.as_sets.get(&key(name))?;
    let mut out = BTreeSet::new();
    go(db, name, &mut BTreeSet::new(), &mut out);
    Some(out)
}

fn as_routes(db: &Db, asn: u32) -> impl Iterator<Item = Pfx> + '_ {
    db.ases.get(&asn).into_iter().flat_map(|r| r.prefixes())
}

/// Recursive expansion of a route-set to prefixes. `None` if `name` itself does not exist.
pub fn expand_route_set(db: &Db, name: &str) -> Option<HashSet<Pfx>> {
    fn go(db: &Db, name: &str, seen: &mut BTreeSet<String>, out: &mut HashSet<Pfx>) {
        if !seen.insert(key(name)) {
            return;
        }
        for m in db.route_sets.get(&key(name)).into_iter().flatten() {
            match m {
                RouteSetMember::Prefix4(a, l) => drop(out.insert(Pfx::v4(*a, *l))),
                RouteSetMember::Prefix6(a, l) => drop(out.insert(Pfx::v6(*a, *l))),
                RouteSetMember::Set(s) => go(db, s, seen, out),
                RouteSetMember::As(n) => out.extend(as_routes(db, *n)),
                RouteSetMember::AsSet(s) => {
                    for n in expand_as_set(db, s).unwrap_or_default() {
                        out.extend(as_routes(db, n));
                    }
                }
            }
        }
    }
    db.route_sets.get(&key(name))?;
    let mut out = HashSet::new();
    go(db, name, &mut BTreeSet::new(), &mut out);
    Some(out)
}

/// Expression with all names resolved against a database.
enum Node {
    Any,
    Set(HashSet<Pfx>),
    Lit(Vec<LitEntry>),
    Not(Box<Node>),
    And(Box<Node>, Box<Node>),
    Or(Box<Node>, Box<Node>),
    Op(Box<Node>, Op),
}

/// A compiled (expression, database) pair answering membership queries.
pub struct RefEval {
    root: Node,
}

impl RefEval {
    /// Resolves every name up front, so that evaluation failure does not depend on which
    /// prefix is asked about.
    pub fn new(expr: &Expr, db: &Db, policy: &Policy) -> Result<RefEval, EvalFail> {
        Ok(RefEval { root: compile(expr, db, policy, &mut vec![])? })
    }
    pub fn contains(&self, p: Pfx) -> bool {
        eval(&self.root, p)
    }
}

fn compile(e: &Expr, db: &Db, pol: &Policy, stack: &mut Vec<String>) -> Result<Node, EvalFail> {
    let unknown = |on: OnUnknown, fail: EvalFail| match on {
        OnUnknown::Fail => Err(fail),
        OnUnknown::Empty => Ok(Node::Set(HashSet::new())),
    };
    Ok(match e {
        Expr::Any => Node::Any,
        Expr::AsNum(n) => Node::Set(as_routes(db, *n).collect()),
        Expr::AsSet(s) => match expand_as_set(db, s) {
            Some(asns) => Node::Set(asns.into_iter().flat_map(|n| as_routes(db, n)).collect()),
            None => return unknown(pol.as_set, EvalFail::UnknownAsSet(s.clone())),
        },
        Expr::RouteSet(s) => match expand_route_set(db, s) {
            Some(set) => Node::Set(set),
            None => return unknown(pol.route_set, EvalFail::UnknownRouteSet(s.clone())),
        },
        Expr::FilterSet(s) => {
            let k = key(s);
            let Some(text) = db.filter_sets.get(&k) else {
                return unknown(pol.filter_set, EvalFail::UnknownFilterSet(s.clone()));
            };
            if stack.contains(&k) {
                return Err(EvalFail::FilterSetCycle(k));
            }
            let inner = parse(text).map_err(|err| EvalFail::BadFilterSet(k.clone(), err))?;
            stack.push(k);
            let node = compile(&inner, db, pol, stack)?;
            stack.pop();
            node
        }
        Expr::Literal(es) => Node::Lit(es.clone()),
        Expr::Not(a) => Node::Not(Box::new(compile(a, db, pol, stack)?)),
        Expr::And(a, b) => Node::And(Box::new(compile(a, db, pol, stack)?), Box::new(compile(b, db, pol, stack)?)),
        Expr::Or(a, b) => Node::Or(Box::new(compile(a, db, pol, stack)?), Box::new(compile(b, db, pol, stack)?)),
        Expr::RangeOp(a, op) => Node::Op(Box::new(compile(a, db, pol, stack)?), *op),
        Expr::PeerAs | Expr::AsPathRegex(_) | Expr::Community(_) => return Err(EvalFail::NotEvaluable(e.to_rpsl())),
    })
}

fn eval(n: &Node, q: Pfx) -> bool {
    match n {
        Node::Any => true,
        Node::Set(s) => s.contains(&q),
        Node::Lit(es) => es.iter().any(|e| e.pfx().covers(q) && e.op.admits(e.len, q.len)),
        Node::Not(a) => !eval(a, q),
        Node::And(a, b) => eval(a, q) && eval(b, q),
        Node::Or(a, b) => eval(a, q) || eval(b, q),
        // q is in S^op iff some covering prefix p (of any length l <= len(q)) is in S and the
        // operator, applied to p, selects length len(q).
        Node::Op(a, op) => (0..=q.len).any(|l| op.admits(l, q.len) && eval(a, q.ancestor(l))),
    }
}

/// Membership predicate: does `expr`, evaluated over `db` with [`Policy::STRICT`], contain `p`?
/// (Compiles the expression on every call; use [`RefEval`] for many probes.)
pub fn contains(expr: &Expr, db: &Db, p: Pfx) -> Result<bool, EvalFail> {
    Ok(RefEval::new(expr, db, &Policy::STRICT)?.contains(p))
}

/// Names referenced by an expression, looking through filter-sets transitively.
#[derive(Clone, Debug, Default, PartialEq, Eq)]
pub struct Names {
    pub ases: BTreeSet<u32>,
    pub as_sets: BTreeSet<String>,
    pub route_sets: BTreeSet<String>,
    pub filter_sets: BTreeSet<String>,
}

pub fn referenced_names(expr: &Expr, db: &Db) -> Names {
    let mut names = Names::default();
    walk(expr, db, &mut names, &mut |_| {});
    names
}

/// Visit every node, following filter-set references once each.
fn walk(e: &Expr, db: &Db, names: &mut Names, f: &mut dyn FnMut(&Expr)) {
    f(e);
    match e {
        Expr::AsNum(n) => drop(names.ases.insert(*n)),
        Expr::AsSet(s) => drop(names.as_sets.insert(key(s))),
        Expr::RouteSet(s) => drop(names.route_sets.insert(key(s))),
        Expr::FilterSet(s) => {
            if names.filter_sets.insert(key(s)) {
                if let Some(Ok(inner)) = db.filter_sets.get(&key(s)).map(|t| parse(t)) {
                    walk(&inner, db, names, f);
                }
            }
        }
        Expr::Not(a) | Expr::RangeOp(a, _) => walk(a, db, names, f),
        Expr::And(a, b) | Expr::Or(a, b) => {
            walk(a, db, names, f);
            walk(b, db, names, f);
        }
        _ => {}
    }
}

// ---- output ranges and probes ---------------------------------------------------------------------

/// `prefix^lo-hi`: all prefixes covered by `addr/len` whose length is in `lo..=hi`.
#[derive(Clone, Copy, Debug, PartialEq, Eq, Hash, PartialOrd, Ord)]
pub struct Range {
    pub family: Family,
    pub addr: u128,
    pub len: u8,
    pub lo: u8,
    pub hi: u8,
}

impl Range {
    pub fn pfx(&self) -> Pfx {
        Pfx::new(self.family, self.addr, self.len)
    }
}

impl fmt::Display for Range {
    fn fmt(&self, f: &mut fmt::Formatter<'_>) -> fmt::Result {
        write!(f, "{}^{}-{}", self.pfx(), self.lo, self.hi)
    }
}

/// Parse one output line of `bgpfu`, i.e. the `Display` of `ip::any::PrefixRange`:
/// `<prefix>^<lower>-<upper>` (e.g. `10.0.0.0/8^16-24`, `2001:db8::/32^32-48`).
/// A bare `<prefix>` and generic-ip's `FromStr` syntax `<prefix>,<lower>,<upper>` are accepted too.
pub fn parse_range_line(s: &str) -> Option<Range> {
    let s = s.trim();
    let (p, lo, hi) = if let Some((p, r)) = s.split_once('^') {
        let (lo, hi) = r.split_once('-')?;
        (p, Some(lo), Some(hi))
    } else if let Some((p, r)) = s.split_once(',') {
        let (lo, hi) = r.split_once(',')?;
        (p, Some(lo), Some(hi))
    } else {
        (s, None, None)
    };
    let p: Pfx = p.parse().ok()?;
    let lo: u8 = lo.map_or(Some(p.len), |x| x.trim().parse().ok())?;
    let hi: u8 = hi.map_or(Some(p.len), |x| x.trim().parse().ok())?;
    (p.len <= lo && lo <= hi && hi <= p.family.bits()).then_some(Range { family: p.family, addr: p.addr, len: p.len, lo, hi })
}

pub fn range_contains(r: &Range, p: Pfx) -> bool {
    r.pfx().covers(p) && r.lo <= p.len && p.len <= r.hi
}

/// All prefixes that occur in the database (route objects and route-set members).
pub fn db_prefixes(db: &Db) -> BTreeSet<Pfx> {
    let mut out: BTreeSet<Pfx> = db.ases.values().flat_map(|r| r.prefixes()).collect();
    for m in db.route_sets.values().flatten() {
        match m {
            RouteSetMember::Prefix4(a, l) => drop(out.insert(Pfx::v4(*a, *l))),
            RouteSetMember::Prefix6(a, l) => drop(out.insert(Pfx::v6(*a, *l))),
            _ => {}
        }
    }
    out
}

/// A probe set that cannot miss a boundary. Every prefix in the database, every literal entry
/// in the expression (looking through filter-sets) and every range in `output_ranges` is a
/// "base". For each base and each interesting length `l` (the base's own length, its range
/// bounds, every number used in a range operator anywhere in the expression, 0 and max; each
/// also +-1) the first and last covered prefix of length `l` (or the covering prefix if `l` is
/// shorter than the base) is probed together with its parent, sibling and both children.
/// `n_random` random prefixes (half of them near a base) are added.
pub fn probes(expr: &Expr, db: &Db, output_ranges: &[Range], n_random: usize, seed: u64) -> Vec<Pfx> {
    let mut bases: BTreeSet<Range> = db_prefixes(db).into_iter().map(|p| Range { family: p.family, addr: p.addr, len: p.len, lo: p.len, hi: p.len }).collect();
    bases.extend(output_ranges.iter().copied());
    let mut lens: BTreeSet<u8> = BTreeSet::new();
    let mut add_len = |n: u8| lens.extend([n.saturating_sub(1), n, n.saturating_add(1)]);
    walk(expr, db, &mut Names::default(), &mut |e| {
        let mut on_op = |op: Op| match op {
            Op::Exact(n) => add_len(n),
            Op::Range(n, m) => {
                add_len(n);
                add_len(m);
            }
            _ => {}
        };
        match e {
            Expr::RangeOp(_, op) => on_op(*op),
            Expr::Literal(es) => {
                for en in es {
                    on_op(en.op);
                    let bits = en.family.bits();
                    let (lo, hi) = match en.op {
                        Op::None => (en.len, en.len),
                        Op::LessExcl => (en.len.saturating_add(1).min(bits), bits),
                        Op::LessIncl => (en.len, bits),
                        Op::Exact(n) => (n.clamp(en.len, bits), n.clamp(en.len, bits)),
                        Op::Range(n, m) => (n.clamp(en.len, bits), m.clamp(en.len, bits)),
                    };
                    bases.insert(Range { family: en.family, addr: en.addr, len: en.len, lo, hi });
                }
            }
            _ => {}
        }
    });
    let mut out: BTreeSet<Pfx> = BTreeSet::new();
    let mut add = |q: Pfx| {
        out.insert(q);
        out.extend(q.parent());
        out.extend(q.sibling());
        out.extend(q.children().into_iter().flatten());
    };
    for fam in [Family::V4, Family::V6] {
        add(Pfx::new(fam, 0, 0));
    }
    for b in &bases {
        let (p, bits) = (b.pfx(), b.family.bits());
        let mut ls: BTreeSet<u8> = lens.clone();
        for n in [0, bits, b.len, b.lo, b.hi] {
            ls.extend([n.saturating_sub(1), n, n.saturating_add(1)]);
        }
        for &l in ls.iter().filter(|&&l| l <= bits) {
            if l < p.len {
                add(p.ancestor(l));
            } else {
                add(p.first_sub(l));
                add(p.last_sub(l));
            }
        }
    }
    let mut r = Rng::new(seed ^ 0x9706_be5);
    let bases: Vec<Range> = bases.into_iter().collect();
    for i in 0..n_random {
        let q = if i % 2 == 0 && !bases.is_empty() {
            // random prefix covering or covered by a base
            let b = r.pick(&bases).pfx();
            let len = r.range(0, b.family.bits() as u64) as u8;
            Pfx::new(b.family, b.addr | (r.next_u128() & !mask(b.family, b.len)), len)
        } else if r.chance(1, 2) {
            Pfx::v4(r.next_u64() as u32, r.range(0, 32) as u8)
        } else {
            Pfx::v6(r.next_u128(), r.range(0, 128) as u8)
        };
        out.insert(q);
    }
    out.into_iter().collect()
}

#[cfg(test)]
mod tests {
    use super::*;
    use crate::db::AsRoutes;

    fn p(s: &str) -> Pfx {
        s.parse().unwrap()
    }

    fn has(text: &str, db: &Db, q: &str) -> bool {
        contains(&parse(text).unwrap(), db, p(q)).unwrap()
    }

    /// The composition examples of RFC 2622 section 2, checked at the boundaries.
    #[test]
    fn rfc2622_operator_composition() {
        let db = Db::default();
        // {128.9.0.0/16^+}^- == {128.9.0.0/16^-}
        assert!(!has("{128.9.0.0/16^+}^-", &db, "128.9.0.0/16"));
        assert!(has("{128.9.0.0/16^+}^-", &db, "128.9.128.0/17"));
        assert!(has("{128.9.0.0/16^+}^-", &db, "128.9.1.1/32"));
        // {128.9.0.0/16^-}^+ == {128.9.0.0/16^-}
        assert!(!has("{128.9.0.0/16^-}^+", &db, "128.9.0.0/16"));
        assert!(has("{128.9.0.0/16^-}^+", &db, "128.9.0.0/17"));
        // {128.9.0.0/16^17}^24 == {128.9.0.0/16^24}
        assert!(has("{128.9.0.0/16^17}^24", &db, "128.9.77.0/24"));
        assert!(!has("{128.9.0.0/16^17}^24", &db, "128.9.0.0/17"));
        assert!(!has("{128.9.0.0/16^17}^24", &db, "128.9.0.0/25"));
        // {128.9.0.0/16^20-24}^26-28 == {128.9.0.0/16^26-28}
        for (q, want) in [("128.9.0.0/25", false), ("128.9.0.0/26", true), ("128.9.0.0/28", true), ("128.9.0.0/29", false), ("128.9.0.0/24", false)] {
            assert_eq!(has("{128.9.0.0/16^20-24}^26-28", &db, q), want, "{q}");
        }
        // {128.9.0.0/16^20-24}^22-28 == {128.9.0.0/16^22-28}
        for (q, want) in [("128.9.0.0/21", false), ("128.9.0.0/22", true), ("128.9.0.0/28", true), ("128.9.0.0/29", false)] {
            assert_eq!(has("{128.9.0.0/16^20-24}^22-28", &db, q), want, "{q}");
        }
        // {128.9.0.0/16^20-24}^18-28 == {128.9.0.0/16^20-28}
        for (q, want) in [("128.9.0.0/18", false), ("128.9.0.0/19", false), ("128.9.0.0/20", true), ("128.9.0.0/28", true), ("128.9.0.0/29", false)] {
            assert_eq!(has("{128.9.0.0/16^20-24}^18-28", &db, q), want, "{q}");
        }
        // {128.9.0.0/16^20-24}^18-22 == {128.9.0.0/16^20-22}
        for (q, want) in [("128.9.0.0/19", false), ("128.9.0.0/20", true), ("128.9.0.0/22", true), ("128.9.0.0/23", false)] {
            assert_eq!(has("{128.9.0.0/16^20-24}^18-22", &db, q), want, "{q}");
        }
        // {128.9.0.0/16^20-24}^18-19 == {}
        for l in 16..=32 {
            assert!(!has("{128.9.0.0/16^20-24}^18-19", &db, &format!("128.9.0.0/{l}")));
        }
        // ^n with n shorter than the prefix selects nothing
        for l in 0..=32 {
            assert!(!has("{10.0.0.0/8^6}", &db, &format!("10.0.0.0/{l}")));
        }
    }

    #[test]
    fn sets_not_any_and_precedence() {
        let mut db = Db::default();
        db.ases.insert(1, AsRoutes { v4: vec![(0x0a00_0000, 8)], v6: vec![(0x2001_0db8u128 << 96, 32)] });
        db.ases.insert(2, AsRoutes { v4: vec![(0x0a01_0000, 16)], v6: vec![] });
        db.as_sets.insert("AS-A".into(), vec![AsSetMember::As(1), AsSetMember::Set("AS-B".into()), AsSetMember::Set("AS-GONE".into())]);
        db.as_sets.insert("AS-B".into(), vec![AsSetMember::As(2), AsSetMember::Set("AS-A".into())]);
        db.route_sets.insert("RS-R".into(), vec![RouteSetMember::Prefix4(0xc000_0200, 24), RouteSetMember::As(2), RouteSetMember::Set("RS-R".into())]);
        db.filter_sets.insert("FLTR-F".into(), "NOT AS1 AND AS-A".into());
        assert!(has("AS-A", &db, "10.1.0.0/16") && has("AS-B", &db, "10.0.0.0/8") && has("as-a", &db, "2001:db8::/32"));
        assert!(has("RS-R", &db, "192.0.2.0/24") && has("RS-R", &db, "10.1.0.0/16") && !has("RS-R", &db, "10.0.0.0/8"));
        assert!(has("AS-A^24", &db, "10.1.2.0/24") && !has("AS2^8", &db, "10.0.0.0/8"));
        // RFC precedence: (NOT AS1) AND AS-A
        assert!(has("FLTR-F", &db, "10.1.0.0/16") && !has("FLTR-F", &db, "10.0.0.0/8") && !has("FLTR-F", &db, "11.0.0.0/8"));
        // NOT is the complement within both families
        assert!(has("NOT AS1", &db, "::/0") && has("NOT AS1", &db, "0.0.0.0/0") && !has("NOT ANY", &db, "::/0"));
        assert!(has("AS1 AS2", &db, "10.1.0.0/16"), "juxtaposition is OR");
        assert_eq!(contains(&parse("AS-NOPE").unwrap(), &db, p("::/0")), Err(EvalFail::UnknownAsSet("AS-NOPE".into())));
        assert_eq!(contains(&parse("AS1 OR RS-NOPE").unwrap(), &db, p("10.0.0.0/8")), Err(EvalFail::UnknownRouteSet("RS-NOPE".into())));
        let lenient = RefEval::new(&parse("NOT FLTR-NOPE").unwrap(), &db, &Policy::BGPFU).unwrap();
        assert!(lenient.contains(p("::/0")));
        assert!(!parse("PeerAS AND <^AS1$> AND community(1:1)").unwrap().is_evaluable());
    }

    #[test]
    fn text_round_trip_and_ranges() {
        let db = crate::db::generate(7, crate::db::Size::Medium);
        for seed in 0..200 {
            let e = generate_expr_with(seed, &db, &GenExprOpts { depth: 3, unknown_names: true, unevaluable: true, cross_family_ranges: true, ..GenExprOpts::default() });
            let text = e.to_rpsl();
            let back = parse(&text).unwrap_or_else(|err| panic!("{text}: {err}"));
            assert_eq!(back.to_rpsl(), text);
        }
        let r = parse_range_line("10.0.0.0/8^16-24").unwrap();
        assert_eq!(r.to_string(), "10.0.0.0/8^16-24");
        assert!(range_contains(&r, p("10.255.0.0/16")) && !range_contains(&r, p("10.0.0.0/15")) && !range_contains(&r, p("10.0.0.0/25")));
        assert_eq!(parse_range_line("2001:db8::/32,48,64").unwrap().hi, 64);
        assert_eq!(parse_range_line("::/0^0-128").unwrap().lo, 0);
        assert!(parse_range_line("10.0.0.0/8^4-24").is_none());
    }
}
