//! Small self-contained primitives shared by all modules: a seeded RNG and an IP prefix type.
//!
//! Nothing here depends on the crates under test (`generic-ip`, `rpsl`, `irrc`); textual
//! formatting/parsing of addresses is delegated to `std::net`.

use std::fmt;
use std::net::{Ipv4Addr, Ipv6Addr};
use std::str::FromStr;

/// splitmix64: tiny, deterministic, good enough for test-case generation.
#[derive(Clone, Debug)]
pub struct Rng(u64);

impl Rng {
    pub fn new(seed: u64) -> Self {
        Rng(seed.wrapping_mul(0x9E37_79B9_7F4A_7C15) ^ 0xD1B5_4A32_D192_ED03)
    }
    pub fn next_u64(&mut self) -> u64 {
        self.0 = self.0.wrapping_add(0x9E37_79B9_7F4A_7C15);
        let mut z = self.0;
        z = (z ^ (z >> 30)).wrapping_mul(0xBF58_476D_1CE4_E5B9);
        z = (z ^ (z >> 27)).wrapping_mul(0x94D0_49BB_1331_11EB);
        z ^ (z >> 31)
    }
    pub fn next_u128(&mut self) -> u128 {
        ((self.next_u64() as u128) << 64) | self.next_u64() as u128
    }
    /// Uniform-ish value in `0..n` (`n > 0`).
    pub fn below(&mut self, n: u64) -> u64 {
        self.next_u64() % n.max(1)
    }
    /// Value in `lo..=hi`.
    pub fn range(&mut self, lo: u64, hi: u64) -> u64 {
        lo + self.below(hi.saturating_sub(lo) + 1)
    }
    /// True with probability `num/den`.
    pub fn chance(&mut self, num: u64, den: u64) -> bool {
        self.below(den) < num
    }
    pub fn pick<'a, T>(&mut self, xs: &'a [T]) -> &'a T {
        &xs[self.below(xs.len() as u64) as usize]
    }
}

#[derive(Clone, Copy, Debug, PartialEq, Eq, Hash, PartialOrd, Ord)]
pub enum Family {
    V4,
    V6,
}

impl Family {
    pub fn bits(self) -> u8 {
        match self {
            Family::V4 => 32,
            Family::V6 => 128,
        }
    }
}

/// An IP prefix. `addr` is the numeric value of the network address (for IPv4 it is `< 2^32`).
/// Host bits are always zero (constructors mask them).
#[derive(Clone, Copy, Debug, PartialEq, Eq, Hash, PartialOrd, Ord)]
pub struct Pfx {
    pub family: Family,
    pub addr: u128,
    pub len: u8,
}

/// Network mask for `len` leading bits of an address of `family`.
pub fn mask(family: Family, len: u8) -> u128 {
    let bits = family.bits() as u32;
    let len = (len as u32).min(bits);
    let all = if bits == 128 { u128::MAX } else { (1u128 << bits) - 1 };
    let host = bits - len;
    let hostmask = if host == 128 { u128::MAX } else { (1u128 << host) - 1 };
    all & !hostmask
}

impl Pfx {
    pub fn new(family: Family, addr: u128, len: u8) -> Pfx {
        let len = len.min(family.bits());
        Pfx { family, addr: addr & mask(family, len), len }
    }
    pub fn v4(addr: u32, len: u8) -> Pfx {
        Pfx::new(Family::V4, addr as u128, len)
    }
    pub fn v6(addr: u128, len: u8) -> Pfx {
        Pfx::new(Family::V6, addr, len)
    }
    /// The covering prefix of length `len` (`len <= self.len`).
    pub fn ancestor(self, len: u8) -> Pfx {
        Pfx::new(self.family, self.addr, len.min(self.len))
    }
    /// Is `other` equal to or more specific than `self`?
    pub fn covers(self, other: Pfx) -> bool {
        self.family == other.family && self.len <= other.len && other.ancestor(self.len) == self
    }
    pub fn parent(self) -> Option<Pfx> {
        (self.len > 0).then(|| self.ancestor(self.len - 1))
    }
    pub fn sibling(self) -> Option<Pfx> {
        (self.len > 0).then(|| Pfx { addr: self.addr ^ (1u128 << (self.family.bits() - self.len)), ..self })
    }
    pub fn children(self) -> Option<[Pfx; 2]> {
        (self.len < self.family.bits()).then(|| {
            let l = self.len + 1;
            let lo = Pfx { len: l, ..self };
            [lo, Pfx { addr: self.addr | (1u128 << (self.family.bits() - l)), ..lo }]
        })
    }
    /// First (lowest) sub-prefix of length `len >= self.len`.
    pub fn first_sub(self, len: u8) -> Pfx {
        Pfx { len: len.clamp(self.len, self.family.bits()), ..self }
    }
    /// Last (highest) sub-prefix of length `len >= self.len`.
    pub fn last_sub(self, len: u8) -> Pfx {
        let len = len.clamp(self.len, self.family.bits());
        let span = mask(self.family, len) & !mask(self.family, self.len);
        Pfx { addr: self.addr | span, len, ..self }
    }
}

impl fmt::Display for Pfx {
    fn fmt(&self, f: &mut fmt::Formatter<'_>) -> fmt::Result {
        match self.family {
            Family::V4 => write!(f, "{}/{}", Ipv4Addr::from(self.addr as u32), self.len),
            Family::V6 => write!(f, "{}/{}", Ipv6Addr::from(self.addr), self.len),
        }
    }
}

impl FromStr for Pfx {
    type Err = String;
    /// Parses `a.b.c.d/len` or `v6addr/len`. Host bits are masked off.
    fn from_str(s: &str) -> Result<Self, String> {
        let (a, l) = s.trim().split_once('/').ok_or_else(|| format!("no '/' in prefix '{s}'"))?;
        let len: u8 = l.parse().map_err(|_| format!("bad length in '{s}'"))?;
        if let Ok(v4) = a.parse::<Ipv4Addr>() {
            if len > 32 {
                return Err(format!("length > 32 in '{s}'"));
            }
            Ok(Pfx::v4(u32::from(v4), len))
        } else if let Ok(v6) = a.parse::<Ipv6Addr>() {
            if len > 128 {
                return Err(format!("length > 128 in '{s}'"));
            }
            Ok(Pfx::v6(u128::from(v6), len))
        } else {
            Err(format!("bad address in '{s}'"))
        }
    }
}

#[cfg(test)]
mod tests {
    use super::*;
    #[test]
    fn prefix_algebra() {
        let p: Pfx = "10.0.0.0/8".parse().unwrap();
        assert_eq!(p.to_string(), "10.0.0.0/8");
        assert_eq!(p.last_sub(16).to_string(), "10.255.0.0/16");
        assert_eq!(p.sibling().unwrap().to_string(), "11.0.0.0/8");
        assert_eq!(p.children().unwrap()[1].to_string(), "10.128.0.0/9");
        assert!(p.covers("10.1.0.0/16".parse().unwrap()));
        assert!(!p.covers("11.1.0.0/16".parse().unwrap()));
        let d: Pfx = "::/0".parse().unwrap();
        assert_eq!(d.last_sub(128).to_string(), "ffff:ffff:ffff:ffff:ffff:ffff:ffff:ffff/128");
        assert_eq!("0.0.0.0/0".parse::<Pfx>().unwrap().last_sub(32).to_string(), "255.255.255.255/32");
        assert_eq!("10.1.2.3/8".parse::<Pfx>().unwrap(), p);
    }
}
