#!/usr/bin/env python3
"""Regenerates MANIFEST.json (kept in sync with the PROPS table of ./check)."""
import json, subprocess

hooks = ["4a0f203", "8fe147a"]
P = {
 "C01": ("exploration", "3.C01", "reference-model monitor over agent run histories (plan facade + real binary e2e)",
  "Every installed state produced by the real reader/compare/writer pipeline (L1: 3 000+ generated histories, a few of them with one policy of ~10 000 ranges that withdraws thousands at once; L2: the release binary over TLS against a fake Junos and fake IRRd) is applied to a reference Junos merge model and checked for convergence to the evaluated sets, absence of unmanaged leftovers (including runs in which no candidate is left or none evaluates while a delete is due), read-back by the agent's own reader and idempotence; some L2 runs meet a router-side error on one of their loads and must then report failure or have converged all the same. Held-on-what-was-observed; the Junos merge semantics are the harness' model.",
  "Junos merge semantics and get-config rendering are modelled (harness/src/junos.rs); RPSL oracle = irrfake reference evaluator."),
 "C02": ("exploration", "3.C02", "accept-set invariant checked after every single update on a reference model",
  "Each update payload emitted by the real pipeline is applied on its own (emitted and permuted order) to the reference model; after each, every accepting term must have exactly one family, >=1 explicit prefix-length-range filters all inside the evaluated set, and the statement must end in reject; element paths and the set of operations on the wire are checked too; one run in eight starts from an installed policy that somebody edited by hand (a match type the agent never writes): the agent may refuse the whole run, but whatever it sends must not leave that filter accepting.",
  "Structural rule as stated by the property; Junos semantics modelled."),
 "C03": ("fault_enumeration", "3.C03", "fault-injecting histories (failed evaluations, malformed annotations, IRR errors, IRR down) with before/after state comparison",
  "All installed/candidate combinations the histories reach x failing subsets x failure kinds; the monitor checks that no payload names a failed policy, that its model state is unchanged, and that deletes only name installed, no-longer-managed policies.",
  "fake IRRd error responses keyed by query text; connection refused by using a closed port."),
 "C04": ("fault_enumeration", "3.C04", "offline trace-specification check over the fake Junos request log, fault position x kind matrix",
  "The complete matrix of fault positions (hello .. close-session, every load index) x fault kinds (rpc-error, warning+ok, missing positive indication, Junos <xnm:error>, not XML, truncated, wrong message-id, close before/after, stall, delayed error, error-then-ok, error-warning-ok, an error reply overtaken by a second positive reply with the same message-id) for N in {0,2} (quick) / {0,1,2,3,5} (thorough) is run with the real binary; the request log and exit status are checked against the three clauses of the trace specification.",
  "exit status = what the run reports; pipelined late failures forced by holding replies back."),
 "C05": ("exploration", "3.C05", "controlled scheduler over the real session code (stateless DFS + random walks) + real-transport pipelining stage; Miri and ThreadSanitizer as secondary oracles",
  "The real Session::rpc / reply futures run over an in-memory transport under a scheduler that owns every poll, delivery, send completion; exhaustive DFS for n<=2 (quick) / n<=3 (thorough), plus 20k / 2M random schedules with bogus (unknown-id, duplicate) replies; every outcome is compared with the tag the server put in the reply of that message-id (a duplicate that arrives after the request's own reply must never be delivered); stuck sets are detected at quiescence.",
  "spurious polls are not explored; the scheduler stage delivers whole messages; the real-transport stage (600 / 30k sessions over loopback TLS, SSH and a child process: 1-3 batches of 2-6 pipelined requests answered in a random permutation cut into random units, futures awaited in order, in reverse or as spawned tasks on a 4-thread runtime) covers the transports' own buffering underneath the demultiplexer; the thorough tier repeats that stage in a ThreadSanitizer build (std included)."),
 "C06": ("exploration", "3.C06", "real loopback TLS/SSH/child-process peers with scripted segmentation; delivery witness from the client's own trace",
  "Every cut position inside every delimiter, cuts around delimiters, k messages per unit, the peer stopping to send right after its last message, the stream pausing exactly at typical buffer sizes (1 KiB … 64 KiB, -1/0/+1), 1-byte dribble, look-alike bodies, 64 KiB bodies and random multi-cuts per transport (thorough: every single cut position); after each unit the peer waits until the client's trace shows the bytes consumed and checks that every complete message was delivered without further traffic.",
  "client trace events report what was read; non-reproducible segmentations are not_exercised, never verdicts."),
 "C07": ("fault_enumeration", "3.C07", "scripted peer close at every point x manner x transport in killable worker processes; spin/hang witnesses",
  "Close points {before/inside hello, idle, inside reply, between request and reply, after reply, while <close-session> is pending} x manners {clean, SSH channel close, abrupt (RST), fin-only (TCP FIN without TLS close_notify / SSH goodbye), child exiting while a helper keeps its stderr} x outstanding {0,1,3} on TLS, SSH and child process; spin = >=1000 zero-length reads or >=80% CPU after the close, hang = watchdog with idle CPU confirmed 3/3; an in-memory stage breaks the write direction, the read direction or both (independent pipes, half-closed connections) before the hello and with 0-3 requests outstanding and drives every operation to quiescence.",
  "hang verdicts need 3/3 confirmation, otherwise inconclusive."),
 "C08": ("exploration", "3.C08", "generated reply grammar through the real reply futures, oracle on severities / positive indication / error list",
  "20k (quick) / 2M (thorough) reply documents with 0-4 rpc-errors around the positive indication at top level and inside load-configuration-results, for EmptyReply, DataReply, BareReply and load-configuration replies; repeated identical adjacent errors, severities written as CDATA / character reference / with a comment, two <rpc-reply> roots in one frame, Junos-native <xnm:error> elements in bare replies; every reported error's type, tag, severity, app-tag, path and message are compared with the reply's, in order; 400 / 40k cases in which an error reply already read by another request's future is followed by a second, positive reply bearing the same message-id.", "reply grammar of RFC 6241 / Junos as generated by harness/src/c08.rs."),
 "C09": ("exploration", "3.C09", "capability matrix x request recipes against an RFC 6241 section 8 table, both directions",
  "Capability sets (quick: 300 sampled; thorough: all 9 216) x 351 request recipes through the public builders on a real session; bytes on the wire are re-parsed and every feature present must be permitted, and every permitted recipe must be sent; one capability set in seven is advertised inside a hello with 100-1000 further module capabilities; 11 recipes leave a required parameter out (forward direction only: whatever reaches the wire must be permitted); a URL-scheme stage (3k / 150k cases) advertises scheme names of the whole RFC 3986 grammar (letters, digits, + - .) and sends URLs with advertised, near-miss and unrelated schemes.", "the RFC table transcribed in harness/src/c09.rs; explicit defaults are dont_care."),
 "C10": ("exploration", "3.C10", "adversarial parameter values re-parsed by an independent strict XML parser",
  "30k (quick) / 3M (thorough) requests over 25 value slots (each parameter alone and with other legal parameters set alongside); a real-transport stage sends 100 B - 1.2 MB (thorough 5 MB) payloads over TLS, SSH and a child process and has the peer check framing, well-formedness and payload + agent payloads with metacharacters, quotes, ]]>, the delimiter, CR/LF/TAB, non-ASCII, empty and long values; well-formedness, single trailing delimiter, exact value recovery, verbatim fragments; all requests of a run are serialised on one thread, refused ones in between, so state kept between messages shows up in the next one (and in the periodic re-establishment).", "server = conforming XML 1.0 parser; own parser cross-checked by unit tests."),
 "C11": ("exploration", "3.C11", "differential testing against an independent RPSL evaluator over generated IRR databases (in-process, bgpfu binary, agent binary)",
  "Generated databases (nested/cyclic sets, v4-only/v6-only/no routes, duplicates) x generated expressions; output ranges compared pointwise with the reference on boundary probes; the agent's installed filters likewise.", "fake IRRd fidelity; parenthesised expressions; dependency limits (NOT on long prefixes, cross-family ^n-m) excluded."),
 "C12": ("exploration", "3.C12", "generated server hellos in both arrival orders + framing check over real transports",
  "4k (quick) / 200k hellos (version subsets, session-ids from a fixed list of forms and generated around the 32- and 64-bit boundaries, namespaces - prefixed, default, both bindings mixed in one hello, a foreign-namespace element named capability -, unusual :url parameter lists, mixed-case and look-alike capability URIs, orders) through the real establishment under the scheduler; reported context compared with the hello; a conforming chunked-framing server over TLS/SSH/child process checks usability after negotiation; a hello whose delimiter never comes before the stream ends must not establish a session.", "xs:unsignedInt lexical space for session-id."),
 "C13": ("exploration", "3.C13", "metamorphic testing: every single XML-equivalent rewrite at every site + random compositions with delta-debugged signatures; rewrites guarded by an independent infoset comparison",
  "22 accepted base messages (hello, 4 reply types, candidate and installed configurations) x every applicable rewrite (prefix vs default namespace, prefix declared on the element itself, redundant and unused declarations, inter-element white space, white space around tokens, comments between elements / as only content / after a leaf's text, attribute order and quoting, five spellings of the XML declaration, <x/> vs <x></x>) x every site, plus 5k (quick) / 1M random compositions; the comment-inside-text and unused-declaration rewrites fail on the current tree at 75 (kind, leaf, outcome) sites = known findings D22 / D23 and are exercised singly only.", "rewrites are information-preserving for these grammars (each variant's infoset is compared with the base's by the harness' own parser); the characters of free-text leaves are never touched."),
 "C14": ("exploration", "3.C14", "mutation fuzzing of server messages with panic / hang / collateral-failure monitors (release, dev, Miri, ASan builds)",
  "100k (quick) / 10M mutated messages (19 operator kinds, among them runs of multi-byte characters across size boundaries, two replies with different ids in one frame, and URI parameter lists rewritten from a grammar); replies are fed while two other requests are outstanding whose own replies follow; no panic, bounded time (watchdog with witness), at most the affected call fails; when the damaged reply's start tag (message-id) is untouched no other request may fail and its owner must resolve.", "mutation operators of harness/src/parse.rs."),
 "C15": ("fault_enumeration", "3.C15", "real agent binary with k good + m unevaluable policies, per-policy outcome monitor",
  "Every unevaluable kind alone (once already installed, once not yet installed) and combined, every other case sharing a filter-set between good and unevaluable policies, (unknown as-set, IRR error, PeerAS, AS-path regex, attribute match) among 1-4 good policies in varying hash orders; good ones must be installed, committed and equal the oracle; unevaluable ones untouched.", "fake Junos/IRRd."),
 "C16": ("exploration", "3.C16", "generated running configurations against the generator's own selection",
  "20k (quick) / 2M configurations mixing managed, inactive, unannotated, unparseable, marker-not-at-start-of-comment and other-content statements, attribute orders, duplicate xmlns:jcmd, escaped names, names differing only in case, attribute values re-spelled with character references.", "parseability of an annotation = rpsl grammar."),
 "C17": ("fault_enumeration", "3.C17", "shared-connection vs fresh-connection differential with query-keyed IRR error injection",
  "150 (quick) / 20k sequences of 2-12 expressions on one evaluator with D/E/F injected on arbitrary queries, permanent and transient, against servers that answer D or C for an empty set, with short realistic and long multi-byte error texts, plus saturation sequences (the same failing or panicking expression 1..257 times, then a good one sharing a filter-set); each result equals the fresh-connection result.", "faults keyed by query text."),
 "C18": ("exploration", "3.C18", "controlled scheduler with drop actions at every suspension point + real-transport partial-message drops; Miri and ThreadSanitizer as secondary oracles",
  "As C05 plus drop(task) actions (never polled, waiting for a lock, reader waiting for the transport, reader holding an unparked reply) exhaustively for n<=2/3 (also with 70 kB replies) and randomly (reply sizes 150 B - 300 kB); long-lived sessions (0..4096, thorough ..70k completed requests, then bursts of 2..400 of which all but one are abandoned, their replies arriving before or after the next request); TLS/SSH/child-process cases drop the reader after a partial message (thorough: also in a ThreadSanitizer build).", "as C05."),
 "C19": ("exploration", "3.C19", "real daemon under an LD_PRELOAD clock-dilation shim; virtual-time monitor of connection timestamps, logged delays, signals",
  "Scripted outcome sequences for periods 300, 90, 60 (slow successful run), 600 and 0 with SIGHUP/SIGTERM/SIGINT during the normal wait and during back-off waits, and a single-worker-thread daemon whose failed run leaves an evaluation task behind on an unresponsive IRRd, and a target that truncates a reply and closes n times before behaving (quick) plus 30/60/100/120/150/1000/3600 (thorough); back-off start, growth, cap, period restoration, SIGHUP/SIGTERM/SIGINT, one-shot.", "virtual time = real x K; jitter > max(20 ms, 2000 ms / K) makes a run inconclusive."),
 "C20": ("exploration", "3.C20", "complete TRACE capture of the library transports and of the agent binary, multi-encoding secret search",
  "SSH passwords and the secret parts of TLS client keys (PKCS#8/SEC1/PKCS#1; ECDSA P-256, RSA-2048, and types the TLS backend refuses or rarely sees: P-521, secp256k1, RSA-1024, Ed448, Ed25519, damaged DER) searched in clear, escaped, hex (6 styles), base64 (3 alignments x 2 alphabets) and byte lists, over successful and failing attempts (passwords with trailing line endings, key files on one line / without end marker / with CRLF and leading text), all verbosities and RUST_LOG directives, stderr and log file; each attempt's log is also searched for the keys of earlier attempts in the same process, and the agent is run as a daemon that connects twice.", "encodings enumerated in harness/src/secrets.rs; public parts of a key (also in certificates) are not secrets."),
}
checks = []
for pid in sorted(P):
    level, ref, tech, text, note = P[pid]
    checks.append({
        "property_id": pid,
        "quick_cmd": f"./check {pid} --tier quick",
        "thorough_cmd": f"./check {pid} --tier thorough",
        "evidence_file": f"/verif/evidence/{pid}.json",
        "replay_cmd_template": f"./check {pid} --replay {{path}}",
        "engine": "vh",
        "level_claimed": {"category": level, "text": text, "design_ref": f"DESIGN.md section {ref}"},
        "level_note": note,
        "technique": tech,
    })
m = {
    "version": 1,
    "setup_cmd": "./setup.sh",
    "hooks": {
        "guard": "cargo feature `verif` (bgpfu-netconf, bgpfu-junos-agent)",
        "enable": "the harness crate path-depends on /repo/netconf and /repo/junos-agent with features = [\"verif\"]; the end-to-end checks build the repository's own binaries with the feature off",
        "baseline_off_cmd": "cd /repo && (cargo nextest run --workspace --no-fail-fast --offline || cargo test --workspace --no-fail-fast --offline)",
        "source_commits": hooks,
        "add_only": True,
    },
    "engines": [
        {"name": "vh", "path": "/verif/harness", "serves_properties": sorted(P), "kind_free_text": "Rust runtime-monitoring harness: controlled scheduler, in-memory and real loopback transports, fake Junos, reference models and oracles; driven by /verif/check (python3)"},
        {"name": "irrfake", "path": "/verif/irrfake", "serves_properties": ["C03", "C11", "C15", "C17", "C01"], "kind_free_text": "fake IRRd, IRR database generator, independent RPSL reference evaluator"},
        {"name": "dilate", "path": "/verif/shim/dilate.c", "serves_properties": ["C19"], "kind_free_text": "LD_PRELOAD clock-dilation shim"},
    ],
    "checks": checks,
    "not_applicable": [],
    "notes": "Runtime monitoring and sanitizers only. Known findings: /verif/known_findings.json. Seeded breakages: /verif/seeded/. See DESIGN.md.",
}
json.dump(m, open("/verif/MANIFEST.json", "w"), indent=1)
print("MANIFEST.json written:", len(checks), "checks")
