//! C08 — a reply carrying an error is never reported as success; reported errors are exactly the
//! reply's errors, in order; success only with the positive indication of the reply type.

use crate::memwire::{BASE_NS, MARKER};
use crate::sess::{self, Exchange};
use crate::util::{clip, Cfg, Prng, Report};
use netconf::message::rpc::operation::junos::load_configuration::{Config, Merge, Text};
use netconf::message::rpc::operation::junos::{CloseConfiguration, CommitConfiguration, LoadConfiguration, OpenConfiguration};
use netconf::message::rpc::operation::{Builder, Commit, Datastore, Get, GetConfig, Lock, Opaque};
use serde_json::json;

#[derive(Clone, Debug)]
struct ErrSpec {
    severity: &'static str,
    msg: String,
    rendered: String,
    /// fragments the Debug form of the parsed error has to contain (type, tag, severity, app-tag, path)
    expect: Vec<String>,
}

fn camel(s: &str) -> String {
    s.split('-').map(|w| { let mut c = w.chars(); c.next().map(|f| f.to_ascii_uppercase().to_string() + c.as_str()).unwrap_or_default() }).collect()
}

#[derive(Clone, Debug)]
enum Item {
    Err(ErrSpec),
    Ok,
    Data,
    Comment,
    Results(Vec<Item>),
    Count(usize),
    /// a Junos-native error element in the Junos XML namespace (not an <rpc-error>)
    Foreign,
}

const TYPES: &[&str] = &["transport", "rpc", "protocol", "application"];
const TAGS: &[&str] = &[
    "in-use", "invalid-value", "too-big", "missing-attribute", "bad-attribute", "unknown-attribute",
    "missing-element", "bad-element", "unknown-element", "unknown-namespace", "access-denied", "lock-denied",
    "resource-denied", "rollback-failed", "data-exists", "data-missing", "operation-not-supported",
    "operation-failed", "malformed-message", "partial-operation",
];
const INFO: &[&str] = &["bad-attribute", "bad-element", "bad-namespace", "session-id", "ok-element", "err-element", "noop-element"];

fn gen_err(r: &mut Prng, uniq: &mut u32) -> ErrSpec {
    *uniq += 1;
    let severity = if r.chance(2, 3) { "error" } else { "warning" };
    let msg = format!("m-{}-{}", *uniq, r.next_u64() % 100_000);
    let mut s = String::from("<rpc-error>");
    // field order is free in practice; vary it
    let ty = *r.pick(TYPES);
    let tag = *r.pick(TAGS);
    let mut expect = vec![format!("error_type: {}", camel(ty)), format!("error_tag: {}", camel(tag)), format!("severity: {}", camel(severity))];
    let mut fields: Vec<String> = vec![
        format!("<error-type>{ty}</error-type>"),
        format!("<error-tag>{tag}</error-tag>"),
        // the same content in other lexical forms a server's XML writer may choose
        match r.below(12) {
            0 => format!("<error-severity><![CDATA[{severity}]]></error-severity>"),
            1 => format!("<error-severity>&#{};{}</error-severity>", severity.as_bytes()[0], &severity[1..]),
            2 => format!("<error-severity>{severity}<!-- level --></error-severity>"),
            _ => format!("<error-severity>{severity}</error-severity>"),
        },
        format!("<error-message>{msg}</error-message>"),
    ];
    if r.chance(1, 3) {
        let a = format!("app-{}-{}", r.below(100), *uniq);
        fields.push(format!("<error-app-tag>{a}</error-app-tag>"));
        expect.push(format!("\"{a}\""));
    } else {
        expect.push("app_tag: None".into());
    }
    if r.chance(1, 3) {
        let pth = format!("/a/b[c='d{}']", *uniq);
        fields.push(format!("<error-path>{pth}</error-path>"));
        expect.push(format!("\"{pth}\""));
    } else {
        expect.push("path: None".into());
    }
    if r.chance(1, 3) {
        let mut info = String::from("<error-info>");
        for _ in 0..r.range(0, 3) {
            let e = *r.pick(INFO);
            let body = if e == "session-id" { format!("{}", r.below(5)) } else { format!("x{}", r.below(50)) };
            info.push_str(&format!("<{e}>{body}</{e}>"));
        }
        info.push_str("</error-info>");
        fields.push(info);
    }
    if r.chance(1, 2) {
        r.shuffle(&mut fields);
    }
    for f in &fields {
        s.push_str(f);
    }
    s.push_str("</rpc-error>");
    ErrSpec { severity, msg, rendered: s, expect }
}

fn gen_items(r: &mut Prng, uniq: &mut u32, inside_results: bool, kind: usize) -> Vec<Item> {
    let mut v = Vec::new();
    // now and then a reply with very many errors (one diagnostic per statement of a large
    // configuration): every one of them is an error of that reply
    if !inside_results && r.chance(1, 60) {
        let many = *r.pick(&[63usize, 64, 65, 66, 127, 128, 129, 255, 256, 257, 300]);
        let warnings_first = r.chance(1, 2);
        for k in 0..many {
            // (severities in their plain lexical form here: one unusual form among so many would
            // decide the outcome of every such reply)
            let want: Option<&str> = if warnings_first { Some(if k + 1 == many { "error" } else { "warning" }) } else { None };
            let e = loop {
                let e = gen_err(r, uniq);
                if e.rendered.contains(&format!("<error-severity>{}</error-severity>", e.severity)) && want.map_or(true, |w| e.severity == w) {
                    break e;
                }
            };
            v.push(Item::Err(e));
        }
        return v;
    }
    let n = r.range(0, 4);
    for _ in 0..n {
        let c = r.below(10);
        // Junos repeats an identical <rpc-error> for every pass over a failing statement: each is an
        // error of the reply and has to be reported
        if let (Some(Item::Err(prev)), true) = (v.last(), r.chance(1, 5)) {
            let again = Item::Err(prev.clone());
            v.push(again);
            continue;
        }
        v.push(match c {
            0..=4 => Item::Err(gen_err(r, uniq)),
            5 | 6 => {
                if kind == 1 && !inside_results && r.chance(2, 3) {
                    Item::Data
                } else {
                    Item::Ok
                }
            }
            7 => Item::Comment,
            8 if inside_results => Item::Count(r.below(4)),
            8 if kind == 3 => Item::Results(gen_items(r, uniq, true, kind)),
            8 | 9 if kind == 2 => Item::Foreign,
            _ => Item::Ok,
        });
    }
    // shape the common cases so they are not left to luck
    if inside_results {
        let errs = v.iter().filter(|i| matches!(i, Item::Err(_))).count();
        if errs > 0 && !v.iter().any(|i| matches!(i, Item::Count(_))) && r.chance(3, 4) {
            v.push(Item::Count(if r.chance(3, 4) { errs } else { r.below(4) }));
        }
    } else if kind == 3 && !v.iter().any(|i| matches!(i, Item::Results(_))) && r.chance(5, 6) {
        let at = r.below(v.len() + 1);
        v.insert(at, Item::Results(gen_items(r, uniq, true, kind)));
    } else if kind == 1 && !v.iter().any(|i| matches!(i, Item::Data)) && r.chance(1, 2) {
        let at = r.below(v.len() + 1);
        v.insert(at, Item::Data);
    }
    v
}

fn render(items: &[Item], out: &mut String) {
    for i in items {
        match i {
            Item::Err(e) => out.push_str(&e.rendered),
            Item::Ok => out.push_str("<ok/>"),
            Item::Data => out.push_str("<data>payload</data>"),
            Item::Comment => out.push_str("<!-- c -->"),
            Item::Foreign => out.push_str("<xnm:error xmlns:xnm=\"http://xml.juniper.net/xnm/1.1/xnm\"><xnm:message>failed</xnm:message></xnm:error>"),
            Item::Count(n) => out.push_str(&format!("<load-error-count>{n}</load-error-count>")),
            Item::Results(inner) => {
                out.push_str("<load-configuration-results>");
                render(inner, out);
                out.push_str("</load-configuration-results>");
            }
        }
    }
}

fn all_errs(items: &[Item], out: &mut Vec<ErrSpec>) {
    for i in items {
        match i {
            Item::Err(e) => out.push(e.clone()),
            Item::Results(inner) => all_errs(inner, out),
            _ => {}
        }
    }
}

fn positive(items: &[Item], kind: usize) -> bool {
    match kind {
        0 => items.iter().any(|i| matches!(i, Item::Ok)),
        1 => items.iter().any(|i| matches!(i, Item::Data)),
        2 => {
            let mut e = Vec::new();
            all_errs(items, &mut e);
            // "an empty reply": nothing but (possibly) an <ok/>
            e.is_empty() && !items.iter().any(|i| matches!(i, Item::Foreign))
        }
        _ => items.iter().any(|i| match i {
            Item::Results(inner) => inner.iter().any(|j| matches!(j, Item::Ok)),
            _ => false,
        }),
    }
}

/// shape class of a document, for signatures: the order of errors (by severity) and positives
fn shape(items: &[Item]) -> String {
    let mut s = String::new();
    for i in items {
        match i {
            Item::Err(e) => s.push_str(if e.severity == "error" { "E" } else { "W" }),
            Item::Ok => s.push('o'),
            Item::Data => s.push('d'),
            Item::Comment => {}
            Item::Foreign => s.push('X'),
            Item::Count(_) => s.push('#'),
            Item::Results(inner) => {
                s.push('[');
                s.push_str(&shape(inner));
                s.push(']');
            }
        }
    }
    s
}

const KINDS: &[&str] = &["EmptyReply", "DataReply", "BareReply", "load-configuration"];

/// classify the order of error(s) and ok for the signature, e.g. "error-then-ok"
fn sig_class(items: &[Item], kind: usize) -> String {
    let sh = shape(items);
    let flat: String = sh.chars().filter(|c| matches!(c, 'E' | 'W' | 'o' | 'd')).collect();
    let first_e = flat.find('E');
    let pos = flat.find(|c| c == 'o' || c == 'd');
    let rel = match (first_e, pos) {
        (Some(e), Some(p)) if e < p => "error-then-ok",
        (Some(_), Some(_)) => "ok-then-error",
        (Some(_), None) => "error-without-ok",
        (None, _) => "no-error",
    };
    format!("{}:{rel}", KINDS[kind])
}

fn messages_in(debug: &str) -> Vec<String> {
    // every generated message is m-<n>-<n>
    let mut out = Vec::new();
    let b = debug.as_bytes();
    let mut i = 0;
    while let Some(p) = debug[i..].find("inner: \"m-") {
        let st = i + p + 8;
        let mut e = st;
        while e < b.len() && b[e] != b'"' {
            e += 1;
        }
        out.push(debug[st..e].to_string());
        i = e;
    }
    out
}

pub fn run(cfg: &Cfg) -> i32 {
    let mut rep = Report::new(
        "C08",
        cfg,
        "one evaluation = one generated rpc-reply document (0-4 rpc-errors of either severity around the positive indication, \
         at top level and inside load-configuration-results) parsed by the real reply future of one operation per reply type; \
         distinct = distinct (reply type, document); non-trivial = document with at least one rpc-error",
    );
    // the interpreter is ~1000x slower: a small slice there
    let n = if cfg.stage == "miri" { cfg.count(40, 1_600) } else { cfg.count(24_000, 2_000_000) };
    let mut s = sess::establish_ok(crate::memwire::ALL_CAPS);
    let mut uniq = 0u32;
    for i in 0..n {
        let idx = cfg.case_index(i);
        let mut r = cfg.prng("C08", idx);
        let kind = r.below(4);
        let items = gen_items(&mut r, &mut uniq, false, kind);
        let mut body = String::new();
        render(&items, &mut body);
        let variant = r.below(3);
        let mk = |id: Option<&str>| -> Option<Vec<u8>> {
            Some(format!("<rpc-reply xmlns=\"{BASE_NS}\" message-id=\"{}\">{body}</rpc-reply>{MARKER}", id.unwrap_or("0")).into_bytes())
        };
        // (result is Ok?, error debug if RpcError, other error text)
        let (is_ok, rpc_errs, other): (bool, Option<Vec<String>>, Option<String>) = {
            macro_rules! go {
                ($ex:expr) => {
                    match $ex {
                        Exchange::Reply { result: Ok(_), .. } => (true, None, None),
                        Exchange::Reply { result: Err(netconf::Error::RpcError(errs)), .. } => {
                            (false, Some(errs.iter().map(|e| format!("{e:?}")).collect::<Vec<_>>()), None)
                        }
                        Exchange::Reply { result: Err(e), .. } => (false, None, Some(format!("{e:?}"))),
                        other => {
                            rep.violation(&format!("{}:harness-or-panic", KINDS[kind]), &format!("{other:?}"), json!({"doc": body}));
                            continue;
                        }
                    }
                };
            }
            match (kind, variant) {
                (0, 0) => go!(s.exchange::<Lock, _, _>(|b| b.target(Datastore::Running)?.finish(), mk)),
                (0, 1) => go!(s.exchange::<CommitConfiguration, _, _>(|b| b.finish(), mk)),
                (0, _) => go!(s.exchange::<Commit, _, _>(|b| b.finish(), mk)),
                (1, 0) => go!(s.exchange::<Get, _, _>(|b| b.finish(), mk)),
                (1, _) => go!(s.exchange::<GetConfig<Opaque>, _, _>(|b| b.source(Datastore::Running)?.finish(), mk)),
                (2, 0) => go!(s.exchange::<OpenConfiguration, _, _>(|b| b.ephemeral(Some("x")).finish(), mk)),
                (2, _) => go!(s.exchange::<CloseConfiguration, _, _>(|b| b.finish(), mk)),
                _ => go!(s.exchange::<LoadConfiguration<Config<String, Text, Merge>>, _, _>(
                    |b| b.source(Config::new("x".to_string(), Text, Merge)).finish(),
                    mk
                )),
            }
        };
        let mut errs = Vec::new();
        all_errs(&items, &mut errs);
        let key = format!("{kind}|{body}");
        rep.case(if errs.is_empty() { None } else { Some(key.as_bytes()) });
        rep.count(&format!("docs:{}", KINDS[kind]));
        if is_ok {
            rep.count("result_ok");
        } else if rpc_errs.is_some() {
            rep.count("result_rpc_error");
        } else {
            rep.count("result_other_error");
        }
        if errs.len() > 60 {
            rep.count(&format!("replies_with_more_than_60_errors:{}:{}", KINDS[kind], if is_ok { "ok".to_string() } else if let Some(d) = &rpc_errs { format!("rpc-errors({})", if d.len() == errs.len() { "all" } else { "fewer" }) } else { format!("other({})", clip(other.as_deref().unwrap_or(""), 60)) }));
        }
        let has_error = errs.iter().any(|e| e.severity == "error");
        let wit = || json!({"reply_type": KINDS[kind], "document": clip(&body, 1500), "shape": shape(&items), "case_index": idx, "seed": cfg.seed});
        if has_error && is_ok {
            rep.violation(
                &sig_class(&items, kind),
                &format!("{} reply with an rpc-error of severity error was reported as success (shape {})", KINDS[kind], shape(&items)),
                wit(),
            );
        }
        if is_ok && !positive(&items, kind) {
            rep.violation(
                &format!("{}:ok-without-positive-indication", KINDS[kind]),
                &format!("success reported although the reply carries no positive indication (shape {})", shape(&items)),
                wit(),
            );
        }
        if let Some(d) = &rpc_errs {
            let got = messages_in(&d.join("\n"));
            let want: Vec<String> = errs.iter().map(|e| e.msg.clone()).collect();
            if got != want {
                let adjacent_dup = errs.windows(2).any(|w| w[0].rendered == w[1].rendered);
                rep.violation(
                    &format!("{}:reported-errors-differ{}", KINDS[kind], if got.len() < want.len() && adjacent_dup { ":repeated-error-dropped" } else { "" }),
                    &format!("reported errors {got:?} are not the reply's errors {want:?}"),
                    wit(),
                );
            } else if d.len() == errs.len() {
                if errs.windows(2).any(|w| w[0].rendered == w[1].rendered) {
                    rep.count("replies_with_repeated_identical_error");
                }
                for (dbg, e) in d.iter().zip(&errs) {
                    rep.count("error_fields_compared");
                    if let Some(miss) = e.expect.iter().find(|x| !dbg.contains(x.as_str())) {
                        rep.violation(
                            &format!("{}:reported-error-field-differs", KINDS[kind]),
                            &format!("reported error {dbg} does not carry {miss:?} of the reply's error {}", e.rendered),
                            wit(),
                        );
                        break;
                    }
                }
            }
        }
        if rep.samples.len() < rep.max_samples && errs.len() >= 2 {
            rep.sample(json!({"reply_type": KINDS[kind], "document": clip(&body, 600), "ok": is_ok,
                "rpc_error_list": rpc_errs.as_ref().map(|d| messages_in(&d.join("\n"))), "other_error": other.as_ref().map(|o| clip(o, 200))}));
        }
    }
    if cfg.stage != "miri" {
        second_reply_stage(&mut rep, cfg);
        retry_stage(&mut rep, cfg);
    }
    rep.finish()
}

/// A reply with an rpc-error of severity error that has been read off the transport by another
/// request's future, followed by a second, positive reply bearing the same message-id: the
/// request was answered with an error and must not be reported as successful.
/// A request whose send fails although it reached the server (write done, flush timed out) is
/// retried on the same session. The server grants the first and refuses the retry (<lock> granted,
/// then lock-denied): the retry's caller must not be told "success" on the strength of the answer
/// to the request it was told had failed.
fn retry_stage(rep: &mut Report, cfg: &Cfg) {
    use crate::sched::drive;
    let n = cfg.count(300, 30_000);
    let mut uniq = 2_000_000u32;
    for i in 0..n {
        let idx = cfg.case_index(i);
        let mut r = cfg.prng("C08-retry", idx);
        let kind = r.below(4);
        let mut err_items = gen_items(&mut r, &mut uniq, false, kind);
        let mut errs = Vec::new();
        all_errs(&err_items, &mut errs);
        if !errs.iter().any(|e| e.severity == "error") {
            let mut e = gen_err(&mut r, &mut uniq);
            while e.severity != "error" {
                e = gen_err(&mut r, &mut uniq);
            }
            err_items.insert(0, Item::Err(e));
        }
        let mut err_body = String::new();
        render(&err_items, &mut err_body);
        let ok_body = match kind {
            0 => "<ok/>".to_string(),
            1 => "<data>payload</data>".to_string(),
            2 => String::new(),
            _ => "<load-configuration-results><ok/></load-configuration-results>".to_string(),
        };
        let mut s = sess::establish_ok(crate::memwire::ALL_CAPS);
        // 0-3 ordinary exchanges first, so that the failing send is not always the first
        let before = r.below(4);
        let mut ok_so_far = true;
        for _ in 0..before {
            let Some(Ok(f)) = drive(s.session.rpc::<Get, _>(|b| b.finish()), 64) else {
                ok_so_far = false;
                break;
            };
            let id = s.wire.lock().sent.last().and_then(|m| crate::memwire::request_message_id_lenient(m)).unwrap_or_default();
            s.wire.deliver(crate::memwire::data_reply(&id, "warm-up"));
            ok_so_far &= matches!(drive(Box::pin(f), 64), Some(Ok(_)));
        }
        if !ok_so_far {
            rep.violation("retry:warm-up-exchange-failed", "an ordinary exchange before the faulted send failed", json!({"case_index": idx, "seed": cfg.seed}));
            continue;
        }
        type BoxFut = std::pin::Pin<Box<dyn std::future::Future<Output = Result<String, netconf::Error>>>>;
        let mut issue = |s: &mut sess::Sess| -> Option<Result<BoxFut, netconf::Error>> {
            match kind {
                0 => drive(s.session.rpc::<Lock, _>(|b| b.target(Datastore::Running)?.finish()), 64).map(|r| r.map(|f| Box::pin(async move { f.await.map(|v| format!("{v:?}")) }) as BoxFut)),
                1 => drive(s.session.rpc::<GetConfig<Opaque>, _>(|b| b.source(Datastore::Running)?.finish()), 64).map(|r| r.map(|f| Box::pin(async move { f.await.map(|v| format!("{v:?}")) }) as BoxFut)),
                2 => drive(s.session.rpc::<CloseConfiguration, _>(|b| b.finish()), 64).map(|r| r.map(|f| Box::pin(async move { f.await.map(|v| format!("{v:?}")) }) as BoxFut)),
                _ => drive(s.session.rpc::<LoadConfiguration<Config<String, Text, Merge>>, _>(|b| b.source(Config::new("x".to_string(), Text, Merge)).finish()), 64)
                    .map(|r| r.map(|f| Box::pin(async move { f.await.map(|v| format!("{v:?}")) }) as BoxFut)),
            }
        };
        let attempt = s.wire.lock().send_attempts;
        s.wire.lock().fail_after_write.insert(attempt);
        let first = issue(&mut s);
        if !matches!(first, Some(Err(_))) {
            rep.violation("retry:faulted-send-not-reported", "send() failed but rpc() did not return an error", json!({"case_index": idx, "seed": cfg.seed}));
            continue;
        }
        let Some(Ok(fb)) = issue(&mut s) else {
            rep.count("retry_cases_in_which_the_retry_could_not_be_sent");
            continue;
        };
        let ids: Vec<String> = s.wire.lock().sent.iter().filter_map(|m| crate::memwire::request_message_id_lenient(m)).collect();
        if ids.len() < 2 {
            continue;
        }
        let (ida, idb) = (ids[ids.len() - 2].clone(), ids[ids.len() - 1].clone());
        let doc = |id: &str, body: &str| format!("<rpc-reply xmlns=\"{BASE_NS}\" message-id=\"{id}\">{body}</rpc-reply>{MARKER}").into_bytes();
        s.wire.deliver(doc(&ida, &ok_body));
        s.wire.deliver(doc(&idb, &err_body));
        let rb = drive(fb, 64);
        let key = format!("retry|{kind}|{before}|{err_body}");
        rep.case(Some(key.as_bytes()));
        rep.count("retry_after_failed_send_cases");
        if ida == idb {
            rep.count("retry_cases_in_which_the_retry_reused_the_message_id");
        }
        let wit = json!({"reply_type": KINDS[kind], "exchanges_before": before, "message_id_of_failed_request": ida, "message_id_of_retry": idb,
            "server_answer_to_failed_request": ok_body, "server_answer_to_retry": clip(&err_body, 600), "case_index": idx, "seed": cfg.seed,
            "retry": format!("{:?}", rb.as_ref().map(|r| r.as_ref().map(|v| v.clone()).map_err(|e| format!("{e:?}"))))});
        match rb {
            Some(Ok(_)) => rep.violation(
                &format!("{}:retry-after-failed-send:refusal-reported-as-success", KINDS[kind]),
                "the retry was answered with an rpc-error of severity error; the caller was handed the positive answer to the request whose send had failed",
                wit,
            ),
            Some(Err(_)) => rep.count("retry_cases_reported_as_error"),
            None => rep.violation(&format!("{}:retry-after-failed-send:left-pending", KINDS[kind]), "the retry's reply future did not resolve although both replies were delivered", wit),
        }
    }
}

fn second_reply_stage(rep: &mut Report, cfg: &Cfg) {
    use crate::sched::drive;
    let n = cfg.count(400, 40_000);
    let mut uniq = 1_000_000u32;
    for i in 0..n {
        let idx = cfg.case_index(i);
        let mut r = cfg.prng("C08-second-reply", idx);
        let kind = r.below(4);
        // an error document and a positive document of this reply type
        let mut err_items = gen_items(&mut r, &mut uniq, false, kind);
        let mut errs = Vec::new();
        all_errs(&err_items, &mut errs);
        if !errs.iter().any(|e| e.severity == "error") {
            let mut e = gen_err(&mut r, &mut uniq);
            while e.severity != "error" {
                e = gen_err(&mut r, &mut uniq);
            }
            err_items.insert(0, Item::Err(e));
        }
        let mut err_body = String::new();
        render(&err_items, &mut err_body);
        let ok_body = match kind {
            0 => "<ok/>".to_string(),
            1 => "<data>payload</data>".to_string(),
            2 => String::new(),
            _ => "<load-configuration-results><ok/></load-configuration-results>".to_string(),
        };
        let mut s = sess::establish_ok(crate::memwire::ALL_CAPS);
        let Some(Ok(fa)) = drive(s.session.rpc::<Get, _>(|b| b.finish()), 64) else { continue };
        type BoxFut = std::pin::Pin<Box<dyn std::future::Future<Output = Result<String, netconf::Error>>>>;
        let fb: Option<BoxFut> = match kind {
            0 => drive(s.session.rpc::<Lock, _>(|b| b.target(Datastore::Running)?.finish()), 64).and_then(Result::ok).map(|f| Box::pin(async move { f.await.map(|v| format!("{v:?}")) }) as BoxFut),
            1 => drive(s.session.rpc::<GetConfig<Opaque>, _>(|b| b.source(Datastore::Running)?.finish()), 64).and_then(Result::ok).map(|f| Box::pin(async move { f.await.map(|v| format!("{v:?}")) }) as BoxFut),
            2 => drive(s.session.rpc::<CloseConfiguration, _>(|b| b.finish()), 64).and_then(Result::ok).map(|f| Box::pin(async move { f.await.map(|v| format!("{v:?}")) }) as BoxFut),
            _ => drive(s.session.rpc::<LoadConfiguration<Config<String, Text, Merge>>, _>(|b| b.source(Config::new("x".to_string(), Text, Merge)).finish()), 64)
                .and_then(Result::ok)
                .map(|f| Box::pin(async move { f.await.map(|v| format!("{v:?}")) }) as BoxFut),
        };
        let Some(fb) = fb else { continue };
        let ids: Vec<String> = s.wire.lock().sent.iter().filter_map(|m| crate::memwire::request_message_id_lenient(m)).collect();
        if ids.len() < 2 {
            continue;
        }
        let (ida, idb) = (&ids[ids.len() - 2], &ids[ids.len() - 1]);
        let doc = |id: &str, body: &str| format!("<rpc-reply xmlns=\"{BASE_NS}\" message-id=\"{id}\">{body}</rpc-reply>{MARKER}").into_bytes();
        // variants: two separate replies; or both <rpc-reply> elements in ONE frame (the
        // delimiter between them never came) - bearing the same id, or the second another id
        let variant = idx % 4;
        let strip = |v: Vec<u8>| v[..v.len() - MARKER.len()].to_vec();
        match variant {
            0 | 1 => {
                s.wire.deliver(doc(idb, &err_body));
                s.wire.deliver(doc(idb, &ok_body));
            }
            2 => {
                let mut f = strip(doc(idb, &err_body));
                f.extend(doc(idb, &ok_body));
                s.wire.deliver(f);
            }
            _ => {
                let mut f = strip(doc(idb, &err_body));
                f.extend(doc("999999", &ok_body));
                s.wire.deliver(f);
            }
        }
        s.wire.deliver(crate::memwire::data_reply(ida, "a"));
        let ra = drive(Box::pin(fa), 64);
        let rb = drive(fb, 64);
        let key = format!("second|{kind}|{variant}|{err_body}");
        rep.case(Some(key.as_bytes()));
        rep.count("second_reply_cases");
        let wit = json!({"reply_type": KINDS[kind], "first_reply_to_b": clip(&err_body, 600), "second_reply_to_b": ok_body, "case_index": idx, "seed": cfg.seed,
            "a": format!("{:?}", ra.as_ref().map(|r| r.as_ref().map(|v| v.to_string()).map_err(|e| format!("{e:?}")))),
            "b": format!("{:?}", rb.as_ref().map(|r| r.as_ref().map(|v| v.clone()).map_err(|e| format!("{e:?}"))))});
        match rb {
            Some(Ok(_)) => rep.violation(
                &format!("{}:{}", KINDS[kind], match variant { 0 | 1 => "error-reply-replaced-by-a-second-positive-reply", 2 => "error-root-followed-by-positive-root-in-one-frame:same-id", _ => "error-root-followed-by-positive-root-in-one-frame:other-id" }),
                "the request was answered with an rpc-error of severity error; a second reply bearing its message-id turned that into success",
                wit,
            ),
            Some(Err(_)) => rep.count("second_reply_cases_reported_as_error"),
            None => rep.count("second_reply_cases_left_pending"),
        }
    }
}
