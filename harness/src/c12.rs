//! C12 — session establishment: established iff the hello is well-formed, has exactly one valid
//! non-zero 32-bit session-id and shares a base version with the client; the negotiated version is
//! the highest common one; the reported session-id and capabilities are those of the hello; both
//! arrival orders of the simultaneous hello exchange agree.  (Framing after the hello, C12b, is
//! decided over the real transports in `realwire`.)

use crate::memwire::{self, BASE_NS, MARKER};
use crate::sched::{self, Plan};
use crate::sess::{self, Established};
use crate::util::{clip_bytes, Cfg, Prng, Report};
use crate::xmlstrict;
use serde_json::json;
use std::collections::BTreeSet;

const B10: &str = "urn:ietf:params:netconf:base:1.0";
const B11: &str = "urn:ietf:params:netconf:base:1.1";

#[derive(Clone, Debug)]
pub struct HelloSpec {
    pub caps: Vec<String>,
    /// session-id elements (text), 0, 1 or 2 of them
    pub session_ids: Vec<String>,
    pub prefixed: bool,
    pub wrong_ns: bool,
    /// where the session-id goes relative to <capabilities>
    pub sid_first: bool,
    /// 0 = one binding style throughout; 1 = both a default namespace and a prefix are declared
    /// for the base namespace and the <capability> elements use the other one than their parent;
    /// 2 = as 0, plus a foreign-namespace element that is merely *named* capability (and contains
    /// a base-version URI), which is no capability of the hello
    pub binding: u8,
    /// what stands between </hello> and the delimiter: 0 nothing, 1 white space, 2 a comment (both
    /// leave the hello well-formed); 3 text, 4 a second <hello> with other contents, 5 an element
    /// that is never closed (none of these is a well-formed hello message)
    pub tail: u8,
}

impl HelloSpec {
    pub fn render(&self) -> Vec<u8> {
        let (open, p) = if self.prefixed {
            let ns = if self.wrong_ns { "urn:example:not-netconf" } else { BASE_NS };
            (format!("<nc:hello xmlns:nc=\"{ns}\">"), "nc:")
        } else {
            let ns = if self.wrong_ns { "urn:example:not-netconf" } else { BASE_NS };
            (format!("<hello xmlns=\"{ns}\">"), "")
        };
        let (open, cp) = if self.binding == 1 {
            // the other binding for the children: both are declared on <hello>
            let ns = if self.wrong_ns { "urn:example:not-netconf" } else { BASE_NS };
            if self.prefixed { (format!("<nc:hello xmlns:nc=\"{ns}\" xmlns=\"{ns}\">"), "") } else { (format!("<hello xmlns=\"{ns}\" xmlns:nc=\"{ns}\">"), "nc:") }
        } else {
            (open, p)
        };
        let mut caps = format!("<{p}capabilities>");
        for c in &self.caps {
            caps.push_str(&format!("<{cp}capability>{}</{cp}capability>", xmlstrict::escape_text(c)));
        }
        if self.binding == 2 {
            let foreign = if self.prefixed { "<nc:capability xmlns:nc=\"urn:example:vendor:annotations\">urn:ietf:params:netconf:base:1.0</nc:capability>" } else { "<capability xmlns=\"urn:example:vendor:annotations\">urn:ietf:params:netconf:base:1.0</capability>" };
            caps.push_str(foreign);
        }
        caps.push_str(&format!("</{p}capabilities>"));
        let sids: String = self.session_ids.iter().map(|s| format!("<{p}session-id>{s}</{p}session-id>")).collect();
        let mut s = open;
        if self.sid_first {
            s.push_str(&sids);
            s.push_str(&caps);
        } else {
            s.push_str(&caps);
            s.push_str(&sids);
        }
        s.push_str(&format!("</{p}hello>"));
        match self.tail {
            1 => s.push_str("\n  \n"),
            2 => s.push_str("<!-- end of hello -->"),
            3 => s.push_str("junk after the document element"),
            4 => s.push_str(&format!("<hello xmlns=\"{BASE_NS}\"><capabilities><capability>urn:ietf:params:netconf:base:1.1</capability></capabilities><session-id>0</session-id></hello>")),
            5 => s.push_str("<session-id>9"),
            _ => {}
        }
        s.push_str(MARKER);
        s.into_bytes()
    }
    /// the valid session-id, if the hello has exactly one valid one (xs:unsignedInt, >= 1)
    pub fn valid_session_id(&self) -> Option<u32> {
        if self.session_ids.len() != 1 {
            return None;
        }
        let t = &self.session_ids[0];
        let digits = t.strip_prefix('+').unwrap_or(t);
        if digits.is_empty() || !digits.bytes().all(|b| b.is_ascii_digit()) {
            return None;
        }
        match digits.parse::<u64>() {
            Ok(n) if (1..=u64::from(u32::MAX)).contains(&n) => Some(n as u32),
            _ => None,
        }
    }
}

const SIDS: &[&str] = &["1", "7", "4242", "4294967295", "0", "4294967296", "-1", "", "abc", "99999999999999999999", "1.0", "0x10", "007", "+5"];
const EXTRA: &[&str] = &[
    "urn:ietf:params:netconf:capability:candidate:1.0",
    "urn:ietf:params:netconf:capability:validate:1.1",
    "urn:ietf:params:netconf:capability:url:1.0?scheme=http,ftp,file",
    "urn:ietf:params:xml:ns:yang:ietf-netconf-monitoring",
    "http://xml.juniper.net/netconf/junos/1.0",
    "urn:ietf:params:xml:ns:yang:ietf-inet-types?module=ietf-inet-types&revision=2013-07-15",
    "http://example.com/cap?a=1&b=2",
    // mixed-case URIs are what they are: reported as sent, distinct from their lower-case twins,
    // and a look-alike of a base capability is not that capability
    "http://cisco.com/ns/yang/Cisco-IOS-XR-ifmgr-cfg?module=Cisco-IOS-XR-ifmgr-cfg&revision=2015-07-30",
    "http://example.com/ns/Acme-System",
    "http://example.com/ns/acme-system",
    "urn:ietf:params:netconf:BASE:1.0",
    "urn:ietf:params:netconf:Base:1.1",
    "urn:ietf:params:netconf:capability:Candidate:1.0",
    // capability URIs with unusual (but harmless) parameter lists
    "urn:ietf:params:netconf:capability:url:1.0?scheme",
    "urn:ietf:params:netconf:capability:url:1.0?scheme&foo=bar",
    "urn:ietf:params:netconf:capability:url:1.0?foo=bar&scheme",
    "urn:ietf:params:netconf:capability:url:1.0?scheme=http&scheme",
    "urn:ietf:params:netconf:capability:url:1.0?scheme=",
    "urn:ietf:params:netconf:capability:url:1.0?schemes=x",
    "urn:ietf:params:netconf:capability:url:1.0?",
    "urn:ietf:params:netconf:capability:url:1.0?=",
    "urn:ietf:params:netconf:capability:url:1.0?scheme=,,",
    "urn:ietf:params:netconf:capability:with-defaults:1.0?basic-mode=explicit&also-supported=report-all,trim",
    "urn:ietf:params:netconf:capability:xpath:1.0?",
];

/// session-id text: the fixed forms, or a number around the 32- and 64-bit boundaries (a value
/// that wraps to a small non-zero number when truncated is as invalid as any other above 2^32-1)
fn gen_sid(r: &mut Prng) -> String {
    match r.below(4) {
        0 | 1 => (*r.pick(SIDS)).to_string(),
        2 => {
            let base: u128 = *r.pick(&[1u128 << 31, (1 << 32) - 1, 1 << 32, 1 << 33, 3 << 32, 1 << 40, 1 << 63, (1 << 64) - 1, 1 << 64, 5 << 64]);
            let off = r.below(2000) as u128;
            let n = if r.chance(1, 2) { base + off } else { base.saturating_sub(off) };
            n.to_string()
        }
        _ => {
            let len = r.range(1, 24);
            let mut t = String::new();
            for _ in 0..len {
                t.push((b'0' + r.below(10) as u8) as char);
            }
            t
        }
    }
}

/// signature class of a session-id text
fn sid_class_of(t: &str) -> &'static str {
    let digits = t.strip_prefix('+').unwrap_or(t);
    if t.is_empty() {
        "empty"
    } else if digits.is_empty() || !digits.bytes().all(|b| b.is_ascii_digit()) {
        if t.starts_with('-') { "negative" } else { "not-a-number" }
    } else {
        let stripped = digits.trim_start_matches('0');
        let n: Option<u128> = if stripped.is_empty() { Some(0) } else if stripped.len() > 30 { None } else { stripped.parse().ok() };
        match n {
            Some(0) => "zero",
            Some(n) if n <= u128::from(u32::MAX) => {
                if t.starts_with('+') { "in-range-with-plus-sign" } else if digits.starts_with('0') { "in-range-with-leading-zeros" } else { "in-range" }
            }
            Some(n) if n <= u128::from(u64::MAX) => {
                if n % (1u128 << 32) == 0 { "above-32-bits:multiple-of-2^32" } else { "above-32-bits" }
            }
            _ => "above-64-bits",
        }
    }
}

fn gen_spec(r: &mut Prng) -> HelloSpec {
    let mut caps = Vec::new();
    match r.below(4) {
        0 => caps.push(B10.to_string()),
        1 => caps.push(B11.to_string()),
        2 => {
            caps.push(B10.to_string());
            caps.push(B11.to_string());
        }
        _ => {}
    }
    for e in EXTRA {
        if r.chance(1, 3) {
            caps.push((*e).to_string());
        }
    }
    r.shuffle(&mut caps);
    let session_ids = match r.below(10) {
        0 => vec![],
        1 => vec![gen_sid(r), gen_sid(r)],
        _ => vec![gen_sid(r)],
    };
    HelloSpec { caps, session_ids, prefixed: r.chance(1, 3), wrong_ns: r.chance(1, 12), sid_first: r.chance(1, 4), binding: match r.below(8) { 0 => 1, 1 => 2, _ => 0 }, tail: if r.chance(1, 8) { r.range(1, 5) as u8 } else { 0 } }
}

/// base versions the client itself advertised, read off the wire
fn client_versions(sent: &[Vec<u8>]) -> BTreeSet<&'static str> {
    let mut v = BTreeSet::new();
    if let Some(h) = sent.first() {
        let s = String::from_utf8_lossy(h);
        if s.contains(&format!(">{B10}<")) {
            v.insert("1.0");
        }
        if s.contains(&format!(">{B11}<")) {
            v.insert("1.1");
        }
    }
    v
}

pub fn run(cfg: &Cfg) -> i32 {
    let mut rep = Report::new(
        "C12",
        cfg,
        "one evaluation = one generated server hello (base-version subset x extra capabilities x session-id form x namespace form x element order) fed to the real session establishment, \
         in both arrival orders of the simultaneous hello exchange; distinct = distinct hello documents; non-trivial = every hello except the plain valid one",
    );
    let n = cfg.count(4_000, 200_000);
    for i in 0..n {
        let idx = cfg.case_index(i);
        let mut r = cfg.prng("C12", idx);
        let spec = gen_spec(&mut r);
        let hello = spec.render();
        rep.case(Some(&hello));
        // now and then another session of the same process (same thread) has just had a request
        // refused locally - a fragment containing the end-of-message delimiter. Establishment
        // depends on the server's hello, not on what this process did before
        if idx % 25 == 7 {
            use netconf::message::rpc::operation::{Builder, Filter, Get};
            match sess::establish(&memwire::server_hello(memwire::ALL_CAPS, "4242")) {
                Established::Ok(mut other) => {
                    let refused = crate::sched::drive(other.session.rpc::<Get, _>(|b| b.filter(Some(Filter::Subtree("<x><!-- ]]>]]> --></x>".to_string()))).finish()), 64);
                    match refused {
                        Some(Err(_)) => rep.count("establishments_after_a_locally_refused_request_on_the_same_thread"),
                        Some(Ok(_)) => rep.count("establishments_after_a_request_that_was_expected_to_be_refused_but_was_sent"),
                        None => rep.count("establishments_after_a_request_left_pending"),
                    }
                    // the next session of this thread, with the plainest of hellos
                    let again = sess::establish(&memwire::server_hello(memwire::ALL_CAPS, "4243"));
                    if !matches!(again, Established::Ok(_)) {
                        rep.violation(
                            "establish:refused:valid-hello-after-a-locally-refused-request-in-this-process",
                            &format!("a plain, valid server hello did not establish a session: {again:?}"),
                            json!({"case_index": idx, "seed": cfg.seed, "history": "an earlier session of this thread had a request refused locally (fragment containing the end-of-message delimiter)"}),
                        );
                        // nothing on this thread can be judged any more
                        return rep.finish();
                    }
                }
                other => {
                    rep.violation(
                        "establish:refused:valid-hello-after-a-locally-refused-request-in-this-process",
                        &format!("a plain, valid server hello did not establish a session: {other:?}"),
                        json!({"case_index": idx, "seed": cfg.seed, "history": "an earlier session of this thread had a request refused locally (fragment containing the end-of-message delimiter)"}),
                    );
                    return rep.finish();
                }
            }
        }
        // order A: server hello already there when the client starts
        let a = sess::establish(&hello);
        // order B: client hello blocked on the wire until after the server hello was consumed,
        // and C: server hello delivered only after the client's hello went out
        let plan = Plan {
            first: vec![], late: 0, block_sends: vec![0], block_after_write: vec![], yield_between: false, hello_preloaded: false,
            extra: vec![], drops: 0, hello: hello.clone(), reply_pad: vec![], fail_after_write: vec![], charref_ids: false,
        };
        // actions offered at the choice point: Poll / DeliverHello / Release in this order; choose
        // DeliverHello first (B), or Release first (C)
        let mut first = true;
        let b = sched::run(&plan, "b", &mut |k| if first { first = false; 1.min(k - 1) } else { 0 }, 200);
        // C: poll the client first (its hello blocks), release the send, poll, only then deliver
        let mut nc = 0;
        let c = sched::run(&plan, "c", &mut |k| { nc += 1; if nc == 2 { k - 1 } else { 0 } }, 200);
        let wit = |extra: serde_json::Value| json!({"hello": clip_bytes(&hello, 900), "spec": format!("{spec:?}"), "case_index": idx, "seed": cfg.seed, "observed": extra});
        let (a_ok, a_info, sent) = match &a {
            Established::Ok(s) => (true, Some(sched::context_info(&s.session)), s.wire.lock().sent.clone()),
            Established::Err(_) => (false, None, vec![]),
            Established::Stuck => {
                rep.violation("establish:stuck", "establishment did not complete although the server hello was available", wit(json!({})));
                continue;
            }
            Established::Panic(m) => {
                rep.violation("establish:panic", m, wit(json!({})));
                continue;
            }
        };
        let client_v = if sent.is_empty() { client_versions(&c.sent) } else { client_versions(&sent) };
        if client_v.is_empty() {
            // in the client-hello-first order the server waits for the client's hello: a client that
            // sends nothing before it has received the server's hello deadlocks the exchange
            rep.violation("establish:order:client-sends-no-hello-until-it-received-the-server's", "no client <hello> reached the wire in the order in which the server hello is delivered only after the client's was sent", wit(json!({"actions": sched::actions_json(&c.actions), "establish": format!("{:?}", c.establish)})));
            continue;
        }
        // ---- oracle
        let server_v: BTreeSet<&str> = spec.caps.iter().filter_map(|c| match c.as_str() {
            B10 => Some("1.0"),
            B11 => Some("1.1"),
            _ => None,
        }).collect();
        let common: Vec<&&str> = client_v.intersection(&server_v).collect();
        let sid = spec.valid_session_id();
        let expect = !spec.wrong_ns && sid.is_some() && !common.is_empty() && spec.tail <= 2;
        if spec.tail > 0 {
            rep.count(&format!("hellos_with_something_behind_the_document_element:{}", ["", "white-space", "comment", "text", "second-hello", "unclosed-element"][spec.tail as usize]));
        }
        rep.count(if expect { "expected_established" } else { "expected_refused" });
        let sid_class = match spec.session_ids.len() {
            0 => "missing".to_string(),
            2 => "duplicated".to_string(),
            _ => sid_class_of(&spec.session_ids[0]).to_string(),
        };
        rep.count(&format!("session-id-class:{sid_class}"));
        // a foreign-namespace child of <capabilities> is not in the hello's schema: refusing such a
        // hello is as legitimate as ignoring the element; what is ruled out is counting it as a
        // capability (establishing on its strength, or reporting it)
        let foreign_child_refused = spec.binding == 2 && expect && !a_ok;
        if spec.binding == 2 {
            rep.count(if a_ok { "hello_with_a_foreign_element_named_capability:established" } else { "hello_with_a_foreign_element_named_capability:refused" });
        }
        if spec.binding == 1 {
            rep.count("hello_with_both_bindings_of_the_base_namespace");
        }
        if a_ok != expect && !foreign_child_refused {
            let why = if spec.tail > 2 && a_ok { format!("not-well-formed({}-behind-the-document-element)", ["", "", "", "text", "second-hello", "unclosed-element"][spec.tail as usize]) } else if spec.wrong_ns { "wrong-namespace".to_string() } else if sid.is_none() { format!("session-id-{sid_class}") } else if common.is_empty() { "no-common-version".into() } else { format!("valid-hello(session-id {sid_class})") };
            rep.violation(
                &format!("establish:{}:{why}", if a_ok { "accepted" } else { "refused" }),
                &format!("expected established={expect}, got {:?}", match &a { Established::Err(e) => e.clone(), _ => "Ok".into() }),
                wit(json!({})),
            );
        }
        if let (true, Some(info)) = (a_ok && expect, &a_info) {
            let highest = if common.iter().any(|v| ***v == *"1.1") { "V1_1" } else { "V1_0" };
            let mut caps: Vec<String> = spec.caps.clone();
            caps.sort();
            caps.dedup();
            let want = format!("{}|{highest}|{}", sid.unwrap(), caps.join(" "));
            // the :url capability is reported in a canonical spelling of its scheme list: for the
            // unusual parameter lists (no value, empty value, repeated or foreign parameters) the
            // text may differ although the capability is the same one; those hellos are here for
            // establishment, version and session-id, not for the spelling
            let odd_url = spec.caps.iter().any(|c| c.contains(":capability:url:1.0?") && !c.ends_with("?scheme=http,ftp,file"));
            let strip_url = |s: &str| s.split(' ').filter(|c| !c.contains(":capability:url:1.0")).collect::<Vec<_>>().join(" ");
            let same = if odd_url {
                let (p, w): (Vec<&str>, Vec<&str>) = (info.splitn(3, '|').collect(), want.splitn(3, '|').collect());
                p.len() == 3 && p[0] == w[0] && p[1] == w[1] && strip_url(p[2]) == strip_url(w[2])
            } else {
                *info == want
            };
            if odd_url {
                rep.count("hellos_with_an_unusual_url_capability_parameter_list");
            }
            if !same {
                let parts: Vec<&str> = info.splitn(3, '|').collect();
                let wparts: Vec<&str> = want.splitn(3, '|').collect();
                let mut what = if parts[0] != wparts[0] { "session-id-differs" } else if parts[1] != wparts[1] { "version-differs" } else { "capabilities-differ" };
                // precisely: the reported URIs are the hello's URIs still XML-escaped
                let mut esc: Vec<String> = spec.caps.iter().map(|c| xmlstrict::escape_text(c)).collect();
                esc.sort();
                esc.dedup();
                let norm = |s: &str| if odd_url { strip_url(s) } else { s.to_string() };
                if what == "capabilities-differ" && parts.get(2).map(|p| norm(p)) == Some(norm(&esc.join(" "))) {
                    what = "capability-uri-not-unescaped";
                }
                rep.violation(&format!("context:{what}"), &format!("reported {info:?}, hello says {want:?}"), wit(json!({})));
            }
        }
        // both orders must agree with order A
        for (name, ex) in [("server-hello-first", &b), ("client-hello-first", &c)] {
            if ex.truncated || !ex.panics.is_empty() {
                rep.violation("establish:order:panic-or-livelock", &format!("{:?}", ex.panics), wit(json!({"order": name})));
                continue;
            }
            let ok = ex.establish.is_ok();
            if ok != a_ok || ex.ctx_info != a_info {
                rep.violation(
                    "establish:order-dependent",
                    &format!("arrival order {name}: established={ok} ctx={:?}; preloaded: established={a_ok} ctx={a_info:?}", ex.ctx_info),
                    wit(json!({"order": name, "actions": sched::actions_json(&ex.actions)})),
                );
            }
            rep.count(&format!("order:{name}"));
        }
        if rep.samples.len() < rep.max_samples && i % 97 == 5 {
            rep.sample(json!({"hello": clip_bytes(&hello, 500), "established": a_ok, "context": a_info}));
        }
    }
    let _ = memwire::ALL_CAPS;
    rep.finish()
}
