//! Capturing `tracing` subscriber for the worker processes: a structured event list (used by the
//! peers to observe what the client actually read) and, optionally, the complete formatted text
//! at TRACE level including span fields and bridged `log` records (searched by C20).

use std::sync::atomic::{AtomicBool, AtomicU64, Ordering};
use std::sync::{Arc, Mutex, OnceLock};
use std::time::Instant;
use tracing::field::{Field, Visit};
use tracing_subscriber::layer::SubscriberExt;
use tracing_subscriber::util::SubscriberInitExt;
use tracing_subscriber::Layer;

#[derive(Clone, Debug)]
pub struct Ev {
    pub seq: u64,
    pub target: String,
    pub level: tracing::Level,
    pub msg: String,
    pub at: Instant,
}

static SEQ: AtomicU64 = AtomicU64::new(0);
static EVENTS: OnceLock<Mutex<Vec<Ev>>> = OnceLock::new();
static TEXT: OnceLock<Arc<Mutex<Vec<u8>>>> = OnceLock::new();
static TEXT_ON: AtomicBool = AtomicBool::new(false);

fn events() -> &'static Mutex<Vec<Ev>> {
    EVENTS.get_or_init(|| Mutex::new(Vec::new()))
}
fn text_buf() -> &'static Arc<Mutex<Vec<u8>>> {
    TEXT.get_or_init(|| Arc::new(Mutex::new(Vec::new())))
}

struct MsgVisitor {
    msg: String,
    rest: String,
}
impl Visit for MsgVisitor {
    fn record_debug(&mut self, field: &Field, value: &dyn std::fmt::Debug) {
        if field.name() == "message" {
            self.msg = format!("{value:?}");
        } else if self.rest.len() < 256 {
            // keep it short: some trace events carry the whole receive buffer
            let v = format!("{value:?}");
            self.rest.push_str(&format!(" {}={}", field.name(), &v[..v.len().min(64)]));
        }
    }
}

/// receive-path counters, updated from the client's own trace events (O(1) to read, bounded
/// memory even when a broken client emits millions of events)
#[derive(Default)]
struct RxCounters {
    reads: Vec<usize>,
    read_count: usize,
    read_sum: usize,
    zero_reads: usize,
    waiting_again: bool,
    ssh_packets: usize,
    ssh_split: usize,
}
static RX: OnceLock<Mutex<RxCounters>> = OnceLock::new();
fn rx() -> &'static Mutex<RxCounters> {
    RX.get_or_init(|| Mutex::new(RxCounters::default()))
}

struct Capture;
impl<S: tracing::Subscriber> Layer<S> for Capture {
    fn on_event(&self, event: &tracing::Event<'_>, _ctx: tracing_subscriber::layer::Context<'_, S>) {
        let meta = event.metadata();
        let target = meta.target();
        if target.starts_with("netconf::transport") {
            let mut v = MsgVisitor { msg: String::new(), rest: String::new() };
            event.record(&mut v);
            let m = v.msg.as_str();
            if let Ok(mut c) = rx().lock() {
                if let Some(rest) = m.strip_prefix("read ") {
                    if let Some(n) = rest.split(' ').next().and_then(|n| n.parse::<usize>().ok()) {
                        if c.reads.len() < 4096 {
                            c.reads.push(n);
                        }
                        c.read_count += 1;
                        c.read_sum += n;
                        c.waiting_again = false;
                        if n == 0 {
                            c.zero_reads += 1;
                        }
                    }
                } else if m.starts_with("trying to read from transport") {
                    c.waiting_again = true;
                } else if m.starts_with("checking for message break marker") {
                    c.ssh_packets += 1;
                } else if m.starts_with("splitting ") && target.ends_with("ssh") {
                    c.ssh_split += 1;
                }
            }
            return;
        }
        if !target.starts_with("vh::") {
            return;
        }
        let mut v = MsgVisitor { msg: String::new(), rest: String::new() };
        event.record(&mut v);
        let ev = Ev {
            seq: SEQ.fetch_add(1, Ordering::SeqCst),
            target: target.to_string(),
            level: *meta.level(),
            msg: format!("{}{}", v.msg, v.rest),
            at: Instant::now(),
        };
        if let Ok(mut g) = events().lock() {
            if g.len() < 100_000 {
                g.push(ev);
            }
        }
    }
}

#[derive(Clone)]
struct TextWriter;
impl std::io::Write for TextWriter {
    fn write(&mut self, buf: &[u8]) -> std::io::Result<usize> {
        if TEXT_ON.load(Ordering::Relaxed) {
            if let Ok(mut g) = text_buf().lock() {
                if g.len() < (64 << 20) {
                    g.extend_from_slice(buf);
                }
            }
        }
        Ok(buf.len())
    }
    fn flush(&mut self) -> std::io::Result<()> {
        Ok(())
    }
}
impl<'a> tracing_subscriber::fmt::MakeWriter<'a> for TextWriter {
    type Writer = TextWriter;
    fn make_writer(&'a self) -> Self::Writer {
        TextWriter
    }
}

/// Install the global subscriber. `directives` is an EnvFilter string for the structured
/// capture; `full_text` additionally records the complete formatted output at TRACE.
pub fn init(directives: &str, full_text: bool) {
    let _ = tracing_log::LogTracer::init();
    let capture = Capture.with_filter(tracing_subscriber::EnvFilter::new(directives));
    let reg = tracing_subscriber::registry().with(capture);
    if full_text {
        let fmt = tracing_subscriber::fmt::layer()
            .with_writer(TextWriter)
            .with_ansi(false)
            .with_span_events(tracing_subscriber::fmt::format::FmtSpan::NEW | tracing_subscriber::fmt::format::FmtSpan::CLOSE)
            .with_filter(tracing_subscriber::EnvFilter::new("trace"));
        let _ = reg.with(fmt).try_init();
    } else {
        let _ = reg.try_init();
    }
}

pub fn clear() {
    if let Ok(mut g) = events().lock() {
        g.clear();
    }
    if let Ok(mut c) = rx().lock() {
        *c = RxCounters::default();
    }
    if let Ok(mut g) = text_buf().lock() {
        g.clear();
    }
}

pub fn set_text(on: bool) {
    TEXT_ON.store(on, Ordering::SeqCst);
}

pub fn snapshot() -> Vec<Ev> {
    events().lock().map(|g| g.clone()).unwrap_or_default()
}

pub fn len() -> usize {
    events().lock().map(|g| g.len()).unwrap_or(0)
}

/// events from index `from`
pub fn since(from: usize) -> Vec<Ev> {
    events().lock().map(|g| g[from.min(g.len())..].to_vec()).unwrap_or_default()
}

pub fn text() -> Vec<u8> {
    text_buf().lock().map(|g| g.clone()).unwrap_or_default()
}

/// what the client's receive path has observed so far, derived from its own trace events
#[derive(Clone, Debug, Default)]
pub struct RxView {
    /// sizes of the reads the client performed (TLS / child-process transports)
    pub reads: Vec<usize>,
    pub read_sum: usize,
    pub read_count: usize,
    /// SSH: number of channel-data packets the pump processed
    pub ssh_packets: usize,
    /// SSH: number of messages the pump split off and enqueued
    pub ssh_split: usize,
    /// client went back to waiting for the transport after its last read
    pub waiting_again: bool,
    pub zero_reads: usize,
    pub last_seq: u64,
}

pub fn rx_view(_from: usize) -> RxView {
    let c = rx().lock().unwrap_or_else(|e| e.into_inner());
    RxView {
        reads: c.reads.clone(),
        read_sum: c.read_sum,
        read_count: c.read_count,
        ssh_packets: c.ssh_packets,
        ssh_split: c.ssh_split,
        waiting_again: c.waiting_again,
        zero_reads: c.zero_reads,
        last_seq: 0,
    }
}
