//! C10 — serialised requests are single well-formed documents followed by exactly one delimiter,
//! and carry the caller's values unchanged.  Oracle: the harness' own strict XML parser.

use crate::memwire::MARKER;
use crate::sess::{self, Exchange, Sess};
use crate::util::{clip, clip_bytes, Cfg, Prng, Report};
use crate::xmlstrict::{self, Elem};
use netconf::message::rpc::operation::junos::load_configuration::{Config, Json, Merge, Override, Replace, Set, Text, Update};
use netconf::message::rpc::operation::junos::{CommitConfiguration, LoadConfiguration, OpenConfiguration};
use netconf::message::rpc::operation::{
    Builder, CancelCommit, Commit, CopyConfig, Datastore, DeleteConfig, EditConfig, Filter, Get, GetConfig, Opaque,
    Token, Validate,
};
use serde_json::json;

// -------------------------------------------------------------------------------- values

const PLAIN: &[&str] = &["a", "policy-1", " ", "{", "}", "/*", "*/", "=", ";", "%", "\\", "]]", "]"];
/// hazard classes: each generated value mostly draws from ONE class (plus plain atoms), so that a
/// failure can be attributed to the class
const HAZARDS: &[(&str, &[&str])] = &[
    ("metachar", &["&", "<", "&amp;", "&lt;", "<!--", "<![CDATA[", "&#13;"]),
    ("quote-or-gt", &[">", "\"", "'", "-->"]),
    ("cdata-end", &["]]>", ">]]>"]),
    ("delimiter", &["]]>]]>"]),
    ("non-ascii", &["é", "日本", "😀", "\u{7f}", "\u{85}", "\u{2028}"]),
    ("carriage-return", &["\r", "\r\n"]),
    ("newline-or-tab", &["\n", "\t"]),
];

fn gen_text(r: &mut Prng, allow_ws_ctl: bool) -> String {
    match r.below(14) {
        0 => String::new(),
        1 => "x".repeat(r.range(1000, 20_000)),
        2 => {
            // mixed hazards
            let mut s = String::new();
            for _ in 0..r.range(2, 8) {
                let (_, atoms) = HAZARDS[r.below(if allow_ws_ctl { HAZARDS.len() } else { HAZARDS.len() - 2 })];
                s.push_str(*r.pick(atoms));
            }
            s
        }
        _ => {
            let (_, atoms) = HAZARDS[r.below(if allow_ws_ctl { HAZARDS.len() } else { HAZARDS.len() - 2 })];
            let mut s = String::new();
            for _ in 0..r.range(1, 7) {
                if r.chance(1, 2) {
                    s.push_str(*r.pick(atoms));
                } else {
                    s.push_str(*r.pick(PLAIN));
                }
            }
            s
        }
    }
}

fn eol_normalised(v: &str) -> String {
    v.replace("\r\n", "\n").replace('\r', "\n")
}

fn attr_normalised(v: &str) -> String {
    eol_normalised(v).replace(['\n', '\t'], " ")
}

/// value class for signatures (what about the value makes it interesting), most specific first
fn class_of(v: &str) -> &'static str {
    if v.contains('\r') {
        "carriage-return"
    } else if v.contains('\n') || v.contains('\t') {
        "newline-or-tab"
    } else if v.contains(MARKER) {
        "delimiter"
    } else if v.contains("]]>") {
        "cdata-end"
    } else if v.contains('&') || v.contains('<') {
        "metachar"
    } else if v.contains('>') || v.contains('"') || v.contains('\'') {
        "quote-or-gt"
    } else if !v.is_ascii() {
        "non-ascii"
    } else if v.is_empty() {
        "empty"
    } else {
        "plain"
    }
}

/// a syntactically valid URI (the builder validates) with reserved characters
fn gen_url(r: &mut Prng) -> String {
    // legal URIs that are not in RFC 3986 normal form are values like any other: mixed-case hosts,
    // dot segments, lower-case or superfluous percent-encodings, empty segments, userinfo, ports,
    // IPv6 literals, fragments
    let scheme = *r.pick(&["http", "ftp", "file"]);
    let host = if scheme == "file" && r.chance(1, 2) {
        ""
    } else {
        *r.pick(&["host.example", "Backup.Example.NET", "HOST", "user:pw@host.example:8080", "[2001:DB8::1]", "[2001:db8::1]:830", "192.0.2.1", "ops@Host.Example"])
    };
    let mut s = format!("{scheme}://{host}/");
    for i in 0..r.range(0, 5) {
        if i > 0 && r.chance(1, 2) {
            s.push('/');
        }
        s.push_str(*r.pick(&[
            "a", "b-c", "%20", "~", "'", "(", ")", "!", "*", ";", "=", ",", "$", "+", "@", ".", "..", "./", "../", "%7e", "%7E", "%41%42", "%2f", "%2F", "%c3%a9", "r1%2fconfig.xml", "Config.XML", "", ";v=1",
        ]));
    }
    if r.chance(1, 2) {
        s.push_str(*r.pick(&["?a=1&b='2'&c=%3C", "?A=%7e&b=%2f", "?"]));
    }
    if r.chance(1, 6) {
        s.push_str("#Frag%7e");
    }
    s
}

/// a well-formed XML fragment; may legally contain the delimiter inside a comment or attribute
fn gen_fragment(r: &mut Prng, depth: u32, allow_delim: bool) -> String {
    let mut s = String::new();
    for _ in 0..r.range(1, 3) {
        match r.below(8) {
            0 => {
                s.push_str("<!-- ");
                s.push_str(if allow_delim && r.chance(1, 3) { "note ]]>]]> here" } else { "c" });
                s.push_str(" -->");
            }
            1 => s.push_str(&xmlstrict::escape_text(&gen_text(r, false)).replace("]]>", "]]&gt;")),
            _ => {
                let name = *r.pick(&["top", "a", "x:b", "interface", "policy-statement"]);
                s.push('<');
                s.push_str(name);
                if r.chance(1, 3) {
                    let v = if allow_delim && r.chance(1, 3) { "v]]>]]>".to_string() } else { gen_text(r, false) };
                    s.push_str(&format!(" k=\"{}\"", xmlstrict::escape_attr(&v).replace("&gt;", ">")));
                }
                if depth < 3 && r.chance(1, 2) {
                    s.push('>');
                    s.push_str(&gen_fragment(r, depth + 1, allow_delim));
                    s.push_str(&format!("</{name}>"));
                } else {
                    s.push_str("/>");
                }
            }
        }
    }
    s
}

// -------------------------------------------------------------------------------- slots

#[derive(Clone, Copy, Debug, PartialEq)]
enum Kind {
    Text,
    Attr(&'static str),
    /// raw fragment: the element's raw content must be the fragment verbatim
    Fragment,
}

struct Slot {
    name: &'static str,
    /// element path from <rpc> to the element that carries the value
    path: &'static [&'static str],
    kind: Kind,
    /// 0 text value, 1 url, 2 fragment
    gen: u8,
    run: fn(&mut Sess, &str) -> Exchange<String>,
}

fn unit<T>(e: Exchange<T>) -> Exchange<String> {
    match e {
        Exchange::BuildErr { err, sent } => Exchange::BuildErr { err, sent },
        Exchange::Reply { request, message_id, result } => Exchange::Reply { request, message_id, result: result.map(|_| String::new()) },
        Exchange::Stuck { request } => Exchange::Stuck { request },
        Exchange::Panic { msg } => Exchange::Panic { msg },
    }
}

fn none(_: Option<&str>) -> Option<Vec<u8>> {
    None
}

fn slots() -> Vec<Slot> {
    vec![
        Slot { name: "commit/persist", path: &["commit", "persist"], kind: Kind::Text, gen: 0, run: |s, v| {
            unit(s.exchange::<Commit, _, _>(|b| b.confirmed(true)?.persist(Some(Token::new(v)))?.finish(), none))
        }},
        // the same values with other (legal) parameters set alongside: a value must arrive whatever
        // else the request carries
        Slot { name: "commit/persist(+confirm-timeout=120s)", path: &["commit", "persist"], kind: Kind::Text, gen: 0, run: |s, v| {
            unit(s.exchange::<Commit, _, _>(|b| b.confirmed(true)?.confirm_timeout(std::time::Duration::from_secs(120))?.persist(Some(Token::new(v)))?.finish(), none))
        }},
        Slot { name: "commit/persist(+confirm-timeout=600s)", path: &["commit", "persist"], kind: Kind::Text, gen: 0, run: |s, v| {
            unit(s.exchange::<Commit, _, _>(|b| b.confirmed(true)?.persist(Some(Token::new(v)))?.confirm_timeout(std::time::Duration::from_secs(600))?.finish(), none))
        }},
        Slot { name: "edit-config/url(+options)", path: &["edit-config", "url"], kind: Kind::Text, gen: 1, run: |s, v| {
            unit(s.exchange::<EditConfig<Opaque>, _, _>(|b| b.target(Datastore::Candidate)?.error_option(netconf::message::rpc::operation::edit_config::ErrorOption::RollbackOnError)?.test_option(netconf::message::rpc::operation::edit_config::TestOption::TestOnly)?.url(v)?.finish(), none))
        }},
        Slot { name: "get-config/filter@select(source=candidate)", path: &["get-config", "filter"], kind: Kind::Attr("select"), gen: 0, run: |s, v| {
            unit(s.exchange::<GetConfig<Opaque>, _, _>(|b| b.filter(Some(Filter::XPath(v.to_string())))?.source(Datastore::Candidate)?.finish(), none))
        }},
        Slot { name: "load-configuration/configuration-text(override)", path: &["load-configuration", "configuration-text"], kind: Kind::Text, gen: 0, run: |s, v| {
            unit(s.exchange::<LoadConfiguration<Config<String, Text, Override>>, _, _>(|b| b.source(Config::new(v.to_string(), Text, Override)).finish(), none))
        }},
        Slot { name: "load-configuration/configuration-text(replace)", path: &["load-configuration", "configuration-text"], kind: Kind::Text, gen: 0, run: |s, v| {
            unit(s.exchange::<LoadConfiguration<Config<String, Text, Replace>>, _, _>(|b| b.source(Config::new(v.to_string(), Text, Replace)).finish(), none))
        }},
        Slot { name: "load-configuration/configuration-text(update)", path: &["load-configuration", "configuration-text"], kind: Kind::Text, gen: 0, run: |s, v| {
            unit(s.exchange::<LoadConfiguration<Config<String, Text, Update>>, _, _>(|b| b.source(Config::new(v.to_string(), Text, Update)).finish(), none))
        }},
        Slot { name: "load-configuration/configuration-json(merge)", path: &["load-configuration", "configuration-json"], kind: Kind::Text, gen: 0, run: |s, v| {
            unit(s.exchange::<LoadConfiguration<Config<String, Json, Merge>>, _, _>(|b| b.source(Config::new(v.to_string(), Json, Merge)).finish(), none))
        }},
        Slot { name: "commit/persist-id", path: &["commit", "persist-id"], kind: Kind::Text, gen: 0, run: |s, v| {
            unit(s.exchange::<Commit, _, _>(|b| b.persist_id(Some(Token::new(v)))?.finish(), none))
        }},
        Slot { name: "cancel-commit/persist-id", path: &["cancel-commit", "persist-id"], kind: Kind::Text, gen: 0, run: |s, v| {
            unit(s.exchange::<CancelCommit, _, _>(|b| b.persist_id(Some(Token::new(v)))?.finish(), none))
        }},
        Slot { name: "commit-configuration/log", path: &["commit-configuration", "log"], kind: Kind::Text, gen: 0, run: |s, v| {
            unit(s.exchange::<CommitConfiguration, _, _>(|b| b.with_log_message(v).finish(), none))
        }},
        Slot { name: "open-configuration/ephemeral-instance", path: &["open-configuration", "ephemeral-instance"], kind: Kind::Text, gen: 0, run: |s, v| {
            unit(s.exchange::<OpenConfiguration, _, _>(|b| b.ephemeral(Some(v)).finish(), none))
        }},
        Slot { name: "get/filter@select", path: &["get", "filter"], kind: Kind::Attr("select"), gen: 0, run: |s, v| {
            unit(s.exchange::<Get, _, _>(|b| b.filter(Some(Filter::XPath(v.to_string()))).finish(), none))
        }},
        Slot { name: "get-config/filter@select", path: &["get-config", "filter"], kind: Kind::Attr("select"), gen: 0, run: |s, v| {
            unit(s.exchange::<GetConfig<Opaque>, _, _>(|b| b.source(Datastore::Running)?.filter(Some(Filter::XPath(v.to_string())))?.finish(), none))
        }},
        Slot { name: "edit-config/url", path: &["edit-config", "url"], kind: Kind::Text, gen: 1, run: |s, v| {
            unit(s.exchange::<EditConfig<Opaque>, _, _>(|b| b.target(Datastore::Candidate)?.url(v)?.finish(), none))
        }},
        Slot { name: "delete-config/url", path: &["delete-config", "target", "url"], kind: Kind::Text, gen: 1, run: |s, v| {
            unit(s.exchange::<DeleteConfig, _, _>(|b| b.url(v)?.finish(), none))
        }},
        Slot { name: "load-configuration/configuration-text", path: &["load-configuration", "configuration-text"], kind: Kind::Text, gen: 0, run: |s, v| {
            unit(s.exchange::<LoadConfiguration<Config<String, Text, Merge>>, _, _>(|b| b.source(Config::new(v.to_string(), Text, Merge)).finish(), none))
        }},
        Slot { name: "load-configuration/configuration-set", path: &["load-configuration", "configuration-set"], kind: Kind::Text, gen: 0, run: |s, v| {
            unit(s.exchange::<LoadConfiguration<Config<String, Text, Set>>, _, _>(|b| b.source(Config::new(v.to_string(), Text, Set)).finish(), none))
        }},
        Slot { name: "load-configuration/configuration-json", path: &["load-configuration", "configuration-json"], kind: Kind::Text, gen: 0, run: |s, v| {
            unit(s.exchange::<LoadConfiguration<Config<String, Json, Override>>, _, _>(|b| b.source(Config::new(v.to_string(), Json, Override)).finish(), none))
        }},
        Slot { name: "copy-config/source/config", path: &["copy-config", "source", "config"], kind: Kind::Fragment, gen: 2, run: |s, v| {
            unit(s.exchange::<CopyConfig, _, _>(|b| b.target(Datastore::Candidate)?.config(v.to_string()).finish(), none))
        }},
        Slot { name: "validate/source/config", path: &["validate", "source", "config"], kind: Kind::Fragment, gen: 2, run: |s, v| {
            unit(s.exchange::<Validate, _, _>(|b| b.config(v.to_string()).finish(), none))
        }},
        Slot { name: "get/filter-subtree", path: &["get", "filter"], kind: Kind::Fragment, gen: 2, run: |s, v| {
            unit(s.exchange::<Get, _, _>(|b| b.filter(Some(Filter::Subtree(v.to_string()))).finish(), none))
        }},
        Slot { name: "edit-config/config", path: &["edit-config", "config"], kind: Kind::Fragment, gen: 2, run: |s, v| {
            unit(s.exchange::<EditConfig<Opaque>, _, _>(|b| b.target(Datastore::Candidate)?.config(Opaque::from(v)).finish(), none))
        }},
    ]
}

/// Check one serialised message; returns violations as (signature suffix, detail).
pub fn check_message(msg: &[u8]) -> Result<Elem, (String, String)> {
    let Some(body) = msg.strip_suffix(MARKER.as_bytes()) else {
        return Err(("no-trailing-delimiter".into(), "message does not end with ]]>]]>".into()));
    };
    if body.windows(MARKER.len()).any(|w| w == MARKER.as_bytes()) {
        return Err(("delimiter-inside-message".into(), "the end-of-message delimiter occurs inside the message".into()));
    }
    match xmlstrict::parse(body) {
        Ok(doc) => Ok(doc.root),
        Err(e) => Err(("not-well-formed".into(), format!("not well-formed at byte {}: {}", e.pos, e.msg))),
    }
}

fn check_slot(rep: &mut Report, slot: &Slot, value: &str, ex: Exchange<String>, idx: u64, seed: u64) {
    let class = class_of(value);
    let wit = |req: &[u8]| json!({"slot": slot.name, "value": clip(value, 300), "value_class": class, "request": clip_bytes(req, 900), "case_index": idx, "seed": seed});
    let request = match ex {
        Exchange::Stuck { request } => request, // no reply is ever sent in this check
        Exchange::Reply { request, .. } => request,
        Exchange::BuildErr { err, sent } => {
            if sent {
                rep.violation(&format!("{}:error-but-sent", slot.name), &err, wit(&[]));
            }
            // refusing locally is acceptable only for a fragment that cannot be framed
            if slot.kind == Kind::Fragment && value.contains(MARKER) {
                rep.count("fragment_with_delimiter_refused");
            } else {
                rep.violation(&format!("{}:{class}:refused", slot.name), &format!("value could not be sent at all: {err}"), wit(&[]));
            }
            return;
        }
        Exchange::Panic { msg } => {
            rep.violation(&format!("{}:{class}:panic", slot.name), &msg, wit(&[]));
            return;
        }
    };
    rep.count("messages_checked");
    let root = match check_message(&request) {
        Ok(r) => r,
        Err((sig, detail)) => {
            let fam = if slot.kind == Kind::Fragment { "fragment" } else { slot.name };
            rep.violation(&format!("{fam}:{class}:{sig}"), &detail, wit(&request));
            return;
        }
    };
    if root.local() != "rpc" || root.attr("message-id").is_none() {
        rep.violation(&format!("{}:bad-envelope", slot.name), "no <rpc message-id=...> envelope", wit(&request));
        return;
    }
    let Some(el) = root.path(slot.path) else {
        rep.violation(&format!("{}:{class}:element-missing", slot.name), &format!("element {:?} not found in the parsed request", slot.path), wit(&request));
        return;
    };
    match slot.kind {
        Kind::Text => {
            if el.text() != value && el.text() == eol_normalised(value) && el.elems().next().is_none() {
                // exactly the XML end-of-line normalisation, nothing else
                rep.violation("text:carriage-return-normalised", &format!("a conforming parser reads the CR as LF ({})", slot.name), wit(&request));
            } else if el.text() != value || el.elems().next().is_some() {
                rep.violation(&format!("{}:{class}:value-changed", slot.name), &format!("server would read {:?}", clip(&el.text(), 200)), wit(&request));
            }
        }
        Kind::Attr(a) => {
            if el.attr(a) != Some(value) && el.attr(a) == Some(attr_normalised(value).as_str()) {
                rep.violation("attr:whitespace-normalised", &format!("a conforming parser reads literal CR/LF/TAB in an attribute value as a space ({})", slot.name), wit(&request));
            } else if el.attr(a) != Some(value) {
                rep.violation(&format!("{}:{class}:value-changed", slot.name), &format!("server would read {:?}", el.attr(a).map(|s| clip(s, 200))), wit(&request));
            }
        }
        Kind::Fragment => {
            let body = &request[..request.len() - MARKER.len()];
            let raw = &body[el.content.0..el.content.1];
            if raw != value.as_bytes() {
                rep.violation(&format!("fragment:{}:not-verbatim", slot.name), "fragment was not embedded verbatim", wit(&request));
            }
        }
    }
}

pub fn run(cfg: &Cfg) -> i32 {
    let mut rep = Report::new(
        "C10",
        cfg,
        "one evaluation = one request (operation slot x adversarial value) serialised by the real client onto the in-memory wire and re-parsed by the harness' strict XML parser, \
         or one agent update payload from the plan facade; distinct = distinct (slot, value); non-trivial = value contains an XML metacharacter, quote, ]]>, the delimiter, whitespace control or non-ASCII text",
    );
    rep.assumptions.push("the server is a conforming XML 1.0 parser (end-of-line and attribute-value normalisation applied) that does not require namespace declarations on <rpc>".into());
    let slots = slots();
    let n = cfg.count(30_000, 3_000_000);
    let caps: Vec<&str> = crate::memwire::ALL_CAPS.to_vec();
    let mut s = sess::establish_ok(&caps);
    for i in 0..n {
        let idx = cfg.case_index(i);
        let mut r = cfg.prng("C10", idx);
        // keep the recorded wire from growing without bound
        if i % 2000 == 1999 {
            // the same code established a session at the start of this run: if it cannot any more,
            // what changed is state the library kept from the messages serialised in between
            match sess::establish(&crate::memwire::server_hello(&caps, "4242")) {
                sess::Established::Ok(n) => s = n,
                other => {
                    rep.violation(
                        "session:hello-not-sendable-after-earlier-messages",
                        &format!("a new session could not be established after {i} requests on this thread: {other:?}"),
                        json!({"case_index": idx, "seed": cfg.seed, "requests_before": i}),
                    );
                    break;
                }
            }
        }
        if r.chance(1, 8) {
            #[cfg(feature = "full")]
            agent_case(&mut rep, &mut r, idx, cfg.seed);
            continue;
        }
        let slot = &slots[r.below(slots.len())];
        let value = match slot.gen {
            0 => gen_text(&mut r, true),
            1 => gen_url(&mut r),
            _ => gen_fragment(&mut r, 0, true),
        };
        let class = class_of(&value);
        let key = format!("{}|{}", slot.name, value);
        rep.case(if class == "plain" || class == "empty" { None } else { Some(key.as_bytes()) });
        rep.count(&format!("class:{class}"));
        if slot.gen == 2 {
            if let Err(e) = xmlstrict::parse_fragment(value.as_bytes()) {
                rep.violation("harness:fragment-generator", &format!("generated fragment is not well-formed: {e:?}"), json!({"fragment": value}));
                continue;
            }
        }
        let ex = (slot.run)(&mut s, &value);
        if rep.samples.len() < rep.max_samples && class != "plain" && i % 500 == 3 {
            if let Exchange::Stuck { request } | Exchange::Reply { request, .. } = &ex {
                rep.sample(json!({"slot": slot.name, "value": clip(&value, 120), "request": clip_bytes(request, 400)}));
            }
        }
        check_slot(&mut rep, slot, &value, ex, idx, cfg.seed);
    }
    rep.finish()
}

#[cfg(feature = "full")]
fn agent_case(rep: &mut Report, r: &mut Prng, idx: u64, seed: u64) {
    const EXPRS: &[&str] = &[
        "AS65000", "AS-FOO", "AS-FOO AND NOT {10.0.0.0/8^+}", "{192.0.2.0/24^+, 2001:db8::/32^48-64}", "RS-BAR OR AS65001",
        "AS-FOO AND <^AS65000+$>", "FLTR-X OR (AS1 AND {0.0.0.0/0^8-24})", "AS65000:AS-CUSTOMERS", "ANY", "NOT ANY",
    ];
    let name = if r.chance(1, 6) {
        // a name whose characters spell an entity or character reference: "AT&amp;T" is a
        // seven-character name, not a spelling of "AT&T"
        (*r.pick(&["AT&amp;T-in", "lt-&lt;-peer", "tab&#9;sep", "&quot;x&quot;", "a&amp;b<c", "&#x41;S65000", "x&apos;y", "&amp;", "p&gt;q&amp;amp;r"])).to_string()
    } else {
        let v = gen_text(r, false);
        if v.is_empty() { "p".to_string() } else { v }
    };
    let expr = *r.pick(EXPRS);
    let v4 = if r.chance(1, 2) { vec!["192.0.2.0/24,24,32".to_string()] } else { vec![] };
    let v6 = if r.chance(1, 2) { vec!["2001:db8::/32,48,64".to_string()] } else { vec![] };
    let installed = "<data><configuration xmlns=\"http://xml.juniper.net/xnm/1.1/xnm\"></configuration></data>";
    let class = class_of(&name);
    let key = format!("agent|{name}|{expr}");
    rep.case(if class == "plain" { None } else { Some(key.as_bytes()) });
    let payloads = match agent::verif::plan(installed, &[(name.clone(), expr.to_string(), Some((v4, v6)))]) {
        Ok(p) => p,
        Err(e) => {
            if e.contains("bad filter expression") {
                rep.count("agent_expr_rejected_by_parser");
            } else {
                rep.violation("agent-payload:plan-failed", &e, json!({"name": name, "expr": expr}));
            }
            return;
        }
    };
    for p in payloads {
        rep.count("agent_payloads_checked");
        let wit = json!({"name": clip(&name, 200), "expr": expr, "payload": clip(&p, 900), "case_index": idx, "seed": seed});
        if p.contains(MARKER) {
            rep.violation(&format!("agent-payload:{class}:delimiter-inside-message"), "payload contains the delimiter", wit.clone());
            continue;
        }
        // the agent writes an undeclared junos: prefix, which a non-validating parser accepts
        match xmlstrict::parse(p.as_bytes()) {
            Err(e) => rep.violation(&format!("agent-payload:{class}:not-well-formed"), &format!("{e:?}"), wit),
            Ok(doc) => {
                let ps = doc.root.path(&["policy-options", "policy-statement"]);
                let got = ps.and_then(|e| e.child("name")).map(|e| e.text());
                if got.as_deref() != Some(name.as_str()) {
                    rep.violation(&format!("agent-payload:{class}:name-changed"), &format!("server would read name {got:?}"), wit.clone());
                }
                match ps.and_then(|e| e.attr("junos:comment")) {
                    Some(c) if c.contains("from mp-filter expression ") => {
                        // the comment carries the expression: what the server reads is what the
                        // agent meant to write (the expression in the rpsl crate's own rendering)
                        let canon = expr.parse::<rpsl::expr::MpFilterExpr>().ok().map(|e| e.to_string());
                        if let Some(canon) = canon {
                            rep.count("agent_comments_compared_with_the_expression");
                            if !c.contains(&canon) {
                                rep.violation(&format!("agent-payload:comment-expression-changed"), &format!("server would read comment {c:?}, which does not contain the expression {canon:?}"), wit);
                            }
                        }
                    }
                    other => rep.violation("agent-payload:comment-missing", &format!("{other:?}"), wit),
                }
            }
        }
    }
}
