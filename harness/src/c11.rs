//! C11 — filter-expression evaluation equals RPSL set semantics over the IRR data (in-process
//! evaluator and the real `bgpfu` binary against the fake IRRd; the agent part is in `e2e`), and
//! C17 — evaluations are independent of what was evaluated before on the connection.

use crate::util::{clip, Cfg, Prng, Report};
use ip::traits::PrefixSet as _;
use irrfake::db::{self, Db, GenOpts, Size};
use irrfake::expr::{self, EvalFail, Expr, GenExprOpts, Policy, Range, RefEval};
use irrfake::server::{Fault, Faults, Server};
use serde_json::{json, Value};
use std::collections::BTreeSet;
use std::sync::mpsc;
use std::time::Duration;

#[derive(Clone, Debug, PartialEq, Eq)]
pub enum Real {
    Ranges(Vec<String>),
    Err(String),
    Panic(String),
    Timeout,
}

/// evaluate on a (possibly shared) evaluator in a helper thread so that a runaway evaluation
/// becomes "inconclusive", not a hung check
fn eval_fresh(port: u16, text: &str, timeout: Duration) -> Real {
    let (tx, rx) = mpsc::channel();
    let text = text.to_string();
    std::thread::spawn(move || {
        let r = std::panic::catch_unwind(|| {
            let parsed: rpsl::expr::MpFilterExpr = match text.parse() {
                Ok(p) => p,
                Err(e) => return Real::Err(format!("parse: {e}")),
            };
            let mut ev = match bgpfu::RpslEvaluator::new("127.0.0.1", port) {
                Ok(e) => e,
                Err(e) => return Real::Err(format!("connect: {e:?}")),
            };
            match ev.evaluate(parsed) {
                Ok(set) => Real::Ranges(set.ranges().map(|r| r.to_string()).collect()),
                Err(e) => Real::Err(format!("{e:?}")),
            }
        });
        let _ = tx.send(r.unwrap_or_else(|p| Real::Panic(crate::sess::panic_message(p))));
    });
    rx.recv_timeout(timeout).unwrap_or(Real::Timeout)
}

fn to_ranges(lines: &[String]) -> Result<Vec<Range>, String> {
    lines.iter().map(|l| expr::parse_range_line(l).ok_or_else(|| format!("unparseable range line {l:?}"))).collect()
}

/// first probe on which output and reference disagree
fn disagreement(e: &Expr, db: &Db, reference: &RefEval, ranges: &[Range], seed: u64) -> Option<(String, bool, bool)> {
    for p in expr::probes(e, db, ranges, 200, seed) {
        let want = reference.contains(p);
        let got = ranges.iter().any(|r| expr::range_contains(r, p));
        if want != got {
            return Some((p.to_string(), want, got));
        }
    }
    None
}

/// does the expression (directly or through filter-sets) use an as-set whose expansion is empty?
/// IRRd's answer for such a set (D vs C) is not something this harness can vouch for.
fn uses_empty_as_set(e: &Expr, db: &Db) -> bool {
    expr::referenced_names(e, db).as_sets.iter().any(|s| expr::expand_as_set(db, s).map_or(true, |m| m.is_empty()))
}

fn expr_class(e: &Expr) -> &'static str {
    match e {
        Expr::Any => "any",
        Expr::AsNum(_) => "aut-num",
        Expr::AsSet(_) => "as-set",
        Expr::RouteSet(_) => "route-set",
        Expr::FilterSet(_) => "filter-set",
        Expr::Literal(_) => "literal",
        Expr::Not(_) => "not",
        Expr::And(..) => "and",
        Expr::Or(..) => "or",
        Expr::RangeOp(..) => "range-op",
        _ => "unevaluable",
    }
}

fn db_for(r: &mut Prng) -> (Db, &'static str) {
    let seed = r.next_u64();
    match r.below(6) {
        0 => (db::generate_with(seed, GenOpts { size: Size::Small, rs_as_members: false, max_prefix_len: Some(12) }), "small,max-len-12(NOT enabled)"),
        1 => (db::generate_with(seed, GenOpts { size: Size::Medium, rs_as_members: false, max_prefix_len: Some(12) }), "medium,max-len-12(NOT enabled)"),
        2 => (db::generate(seed, Size::Small), "small"),
        3 => (db::generate(seed, Size::Large), "large"),
        4 => (db::generate_with(seed, GenOpts { size: Size::Medium, rs_as_members: true, max_prefix_len: None }), "medium,route-set-as-members"),
        _ => (db::generate(seed, Size::Medium), "medium"),
    }
}

fn bgpfu_bin() -> String {
    let t = std::env::var("VH_TARGET").unwrap_or_else(|_| "/verif/target".into());
    format!("{t}/repo/release/bgpfu")
}

pub fn run_c11(cfg: &Cfg) -> i32 {
    let mut rep = Report::new(
        "C11",
        cfg,
        "one evaluation = one generated filter expression evaluated by the real evaluator (in-process, or the bgpfu binary) against a fake IRRd serving a generated database, compared pointwise with an independent reference evaluator on a probe set built from every boundary of the output, the database and the expression; \
         distinct = distinct (database, expression); non-trivial = expression references at least one named set or combines operands",
    );
    rep.assumptions.push("the fake IRRd answers !i/!g/!6/!m as IRRd 4 does for non-empty results (irrfake/README.md); as-sets whose recursive expansion is empty are excluded because IRRd's answer for them is not known here".into());
    rep.assumptions.push("mixed AND/OR/NOT are always parenthesised (operator precedence belongs to the external rpsl parser); ^n-m ranges that cross the IPv4/IPv6 length boundary and NOT over prefixes longer than /16 are not generated (dependency limitations recorded in DESIGN.md)".into());
    let ndb = cfg.count(12, 300);
    let per_db = if cfg.thorough() { 100 } else { 25 };
    let bin_every = if cfg.thorough() { 12 } else { 10 };
    let have_bin = std::path::Path::new(&bgpfu_bin()).exists();
    if !have_bin {
        rep.inconclusive("bgpfu binary", "not built: only the in-process evaluator was exercised");
    }
    for d in 0..ndb {
        let didx = cfg.case_index(d);
        let mut r = cfg.prng("C11-db", didx);
        let (database, dbkind) = db_for(&mut r);
        let server = match Server::start(database.clone(), Faults::default()) {
            Ok(s) => s,
            Err(e) => {
                rep.inconclusive("fake irrd", &format!("could not start: {e}"));
                continue;
            }
        };
        rep.count(&format!("db:{dbkind}"));
        for k in 0..per_db {
            let eseed = r.next_u64();
            let opts = GenExprOpts::safe_for(&database, 1 + (k % 4) as u32);
            let e = expr::generate_expr_with(eseed, &database, &opts);
            let text = e.to_rpsl();
            let key = format!("{didx}|{text}");
            let nontrivial = !matches!(e, Expr::Any | Expr::AsNum(_) | Expr::Literal(_));
            rep.case(if nontrivial { Some(key.as_bytes()) } else { None });
            rep.count(&format!("expr:{}", expr_class(&e)));
            let reference = RefEval::new(&e, &database, &Policy::STRICT);
            let use_bin = have_bin && k % bin_every == 0;
            let real = if use_bin {
                rep.count("via_bgpfu_binary");
                run_binary(server.port(), &text)
            } else {
                eval_fresh(server.port(), &text, Duration::from_secs(30))
            };
            let wit = |extra: Value| json!({"expression": text, "db_kind": dbkind, "db_seed_case": didx, "seed": cfg.seed, "via": if use_bin { "bgpfu binary" } else { "in-process" },
                "db": database.to_json(), "observed": extra});
            match (&reference, &real) {
                (_, Real::Timeout) => rep.inconclusive(&format!("expr {}", clip(&text, 120)), "evaluation did not finish within 30 s"),
                (_, Real::Panic(m)) => rep.violation(&format!("panic:{}", expr_class(&e)), m, wit(json!({}))),
                (Ok(rf), Real::Ranges(lines)) => match to_ranges(lines) {
                    Err(h) => rep.violation("harness:range-parse", &h, wit(json!({"output": lines}))),
                    Ok(ranges) => {
                        rep.count_n("output_ranges", ranges.len() as u64);
                        if let Some((p, want, got)) = disagreement(&e, &database, rf, &ranges, eseed) {
                            rep.violation(
                                &format!("set-differs:{}:{}", expr_class(&e), if want { "missing-prefix" } else { "extra-prefix" }),
                                &format!("prefix {p}: RPSL semantics say {want}, evaluated set says {got}"),
                                wit(json!({"probe": p, "output": lines.iter().take(40).collect::<Vec<_>>()})),
                            );
                        } else {
                            rep.count("agree");
                        }
                    }
                },
                (Err(_), Real::Err(_)) => rep.count("both_fail"),
                (Ok(_), Real::Err(err)) => {
                    if uses_empty_as_set(&e, &database) {
                        rep.count("dont_care:as-set-with-empty-expansion");
                    } else {
                        rep.violation(&format!("evaluation-fails:{}", expr_class(&e)), &format!("the expression is evaluable but the evaluator failed: {}", clip(err, 300)), wit(json!({})));
                    }
                }
                (Err(f), Real::Ranges(lines)) => {
                    let class = match f {
                        EvalFail::UnknownAsSet(_) => "unknown-as-set",
                        EvalFail::UnknownRouteSet(_) => "unknown-route-set",
                        EvalFail::UnknownFilterSet(_) => "unknown-filter-set",
                        _ => "other",
                    };
                    rep.violation(&format!("succeeds-although-reference-fails:{class}"), &format!("{f:?}"), wit(json!({"output": lines.iter().take(20).collect::<Vec<_>>()})));
                }
            }
            if rep.samples.len() < rep.max_samples && nontrivial && k % 9 == 4 {
                rep.sample(json!({"expression": text, "db_kind": dbkind, "result": match &real { Real::Ranges(l) => json!(l.iter().take(8).collect::<Vec<_>>()), other => json!(format!("{other:?}")) }}));
            }
        }
        rep.count_n("irrd_queries_served", server.log().len() as u64);
        server.stop();
        // "the bgpfu command prints exactly that set": also when the evaluation has something to
        // complain about on the way (a route query the IRR refuses is logged and skipped) - what
        // is on standard output must be prefix ranges and nothing else
        if have_bin {
            if let Some((asn, _)) = database.ases.iter().find(|(_, r)| !r.v6.is_empty() || !r.v4.is_empty()) {
                let mut faults = Faults::default();
                faults.by_query.insert(format!("!gAS{asn}"), Fault::Other("route query refused".into()));
                if let Ok(srv) = Server::start(database.clone(), faults) {
                    let text = format!("AS{asn}");
                    let out = run_binary(srv.port(), &text);
                    srv.stop();
                    rep.case(Some(format!("stdout|{didx}|{text}").as_bytes()));
                    rep.count("binary_runs_with_a_refused_route_query");
                    if let Real::Ranges(lines) = &out {
                        if let Err(h) = to_ranges(lines) {
                            rep.violation("bgpfu-output:standard-output-is-not-only-the-set", &h, json!({"expression": text, "stdout": lines.iter().take(12).map(|l| clip(l, 200)).collect::<Vec<_>>(), "db_seed_case": didx, "seed": cfg.seed}));
                        }
                    }
                }
            }
        }
    }
    rep.finish()
}

fn run_binary(port: u16, text: &str) -> Real {
    let out = std::process::Command::new(bgpfu_bin())
        .args(["-H", "127.0.0.1", "-P", &port.to_string(), "--", text])
        .stdout(std::process::Stdio::piped())
        .stderr(std::process::Stdio::piped())
        .output();
    match out {
        Err(e) => Real::Err(format!("spawn: {e}")),
        Ok(o) => {
            let stderr = String::from_utf8_lossy(&o.stderr).into_owned();
            if stderr.contains("panicked at") {
                return Real::Panic(clip(&stderr, 400));
            }
            if !o.status.success() {
                return Real::Err(clip(&stderr, 400));
            }
            Real::Ranges(String::from_utf8_lossy(&o.stdout).lines().map(ToString::to_string).filter(|l| !l.trim().is_empty()).collect())
        }
    }
}

// =============================================================================== C17

fn norm(r: &Real) -> Result<BTreeSet<String>, String> {
    match r {
        Real::Ranges(l) => Ok(l.iter().cloned().collect()),
        Real::Err(_) => Err("error".into()),
        Real::Panic(m) => Err(format!("panic: {m}")),
        Real::Timeout => Err("timeout".into()),
    }
}

/// the text an IRRd puts after `F`: usually short, but free-form - now and then a long one with
/// multi-byte characters at every alignment (a message in the operator's language, a quoted object)
pub fn long_message(r: &mut crate::util::Prng, short: &str) -> String {
    if r.chance(2, 3) {
        // texts real servers produce for one-off conditions: none of them says anything about
        // the next query
        return match r.below(6) {
            0 => "unrecognized command".to_string(),
            1 => "Unrecognised command: 6".to_string(),
            2 => "query timeout".to_string(),
            3 => "Access denied: query rate limit exceeded".to_string(),
            _ => short.to_string(),
        };
    }
    let mut s = "x".repeat(r.below(4));
    let unit = *r.pick(&["\u{e9}", "\u{df}\u{20ac}", "\u{65e5}\u{672c}\u{8a9e}", "\u{1f600}", "a\u{e9}"]);
    let target = *r.pick(&[60usize, 130, 250, 300, 520, 1030, 4100]) + r.below(16);
    while s.len() < target {
        s.push_str(unit);
    }
    s
}

pub fn run_c17(cfg: &Cfg) -> i32 {
    let mut rep = Report::new(
        "C17",
        cfg,
        "one evaluation = one sequence of 2-12 expressions evaluated on ONE evaluator (one IRR connection) against a fake IRRd with error responses (D/E/F) injected by query text, each result compared with the same expression on a fresh evaluator; \
         distinct = distinct (database, faults, sequence); non-trivial = the sequence contains at least one failing or fault-affected evaluation before another expression",
    );
    rep.assumptions.push("faults are keyed by query text, so the same query fails the same way on the shared and on the fresh connection".into());
    let n = cfg.count(150, 20_000);
    // panics of the evaluator are caught and compared like any other outcome: keep their
    // backtraces (hundreds per saturation sequence) out of the log
    std::panic::set_hook(Box::new(|_| {}));
    for i in 0..n {
        let idx = cfg.case_index(i);
        let mut r = cfg.prng("C17", idx);
        let database = if r.chance(1, 2) { db::generate(r.next_u64(), Size::Small) } else { db::generate(r.next_u64(), Size::Medium) };
        // expressions
        let k = r.range(2, 12);
        let mut exprs: Vec<Expr> = Vec::new();
        for j in 0..k {
            let mut o = GenExprOpts::safe_for(&database, 1 + (j % 3) as u32);
            o.unknown_names = r.chance(1, 4);
            exprs.push(expr::generate_expr_with(r.next_u64(), &database, &o));
        }
        // saturation mode (one case in six, and the first few of every run): the SAME failing or
        // panicking expression m times in a row - m around powers of two - and then a good one
        // that shares a filter-set with it: budgets, counters and tables that only a successful
        // evaluation resets must not carry over
        let mut database = database;
        let saturation = idx < 6 || r.chance(1, 6);
        if saturation {
            database.filter_sets.insert("FLTR-VH-GOOD".into(), "{192.0.2.0/24, 198.51.100.0/24}".into());
            database.filter_sets.insert("FLTR-VH-REGEX".into(), "<^AS65000$>".into());
            database.filter_sets.insert("FLTR-VH-ERR".into(), "AS-VH-DOES-NOT-EXIST".into());
            for c in 1..=16 {
                database.filter_sets.insert(format!("FLTR-VH-C{c}"), if c < 16 { format!("FLTR-VH-C{}", c + 1) } else { "<^AS65000$>".into() });
            }
            let fs = |n: &str| Expr::FilterSet(n.to_string());
            // an as-set of 150 members none of which has a route object: 300 "key not found"
            // answers that the evaluator logs and skips; and an AS with IPv4 routes only, whose
            // evaluation skips one such answer itself
            database.as_sets.insert("AS-VH-BIG".into(), (0..150u32).map(|k| irrfake::db::AsSetMember::As(4_200_100_000 + k)).collect());
            database.ases.insert(64_999, irrfake::db::AsRoutes { v4: vec![(0xC633_6400, 24)], v6: vec![] });
            let bad = match if idx < 6 { idx as usize } else { r.below(7) } {
                6 => Expr::AsSet("AS-VH-BIG".into()),
                0 => fs("FLTR-VH-REGEX"),
                1 => fs("FLTR-VH-C1"),
                2 => fs("FLTR-VH-ERR"),
                3 => Expr::And(Box::new(fs("FLTR-VH-GOOD")), Box::new(Expr::AsSet("AS-VH-DOES-NOT-EXIST".into()))),
                4 => Expr::And(Box::new(fs("FLTR-VH-GOOD")), Box::new(Expr::PeerAs)),
                _ => Expr::Or(Box::new(fs("FLTR-VH-C13")), Box::new(fs("FLTR-VH-GOOD"))),
            };
            let m = if idx < 6 { [64usize, 4, 5, 33, 65, 16][idx as usize] } else { *r.pick(&[1usize, 2, 3, 4, 5, 7, 8, 9, 15, 16, 17, 31, 32, 33, 63, 64, 65, 127, 128, 129, 255, 256, 257]) };
            exprs.clear();
            for _ in 0..m {
                exprs.push(bad.clone());
            }
            exprs.push(fs("FLTR-VH-GOOD"));
            exprs.push(Expr::AsNum(64_999));
            exprs.push(Expr::Or(Box::new(fs("FLTR-VH-GOOD")), Box::new(fs("FLTR-VH-GOOD"))));
            rep.count("saturation_sequences");
            rep.count_n("saturation_repetitions", m as u64);
        }
        // re-evaluate some expressions later in the sequence: a result (or a failure) of an
        // earlier evaluation must not be remembered in a way that changes a later one
        for _ in 0..(if saturation { 0 } else { r.range(0, 3) }) {
            let e = exprs[r.below(exprs.len())].clone();
            exprs.push(e);
        }
        // servers differ in how they answer for a set that exists but expands to nothing (`D`, or
        // `C` without data): one case in four runs against the second kind, with such a set in play
        let mut faults = Faults::default();
        if r.chance(1, 4) {
            faults.empty_set_is_success = true;
            database.as_sets.insert("AS-VH-EMPTY".into(), vec![]);
            let at = r.below(exprs.len().min(3) + 1);
            let e = if r.chance(1, 2) { Expr::AsSet("AS-VH-EMPTY".into()) } else { Expr::Or(Box::new(Expr::AsSet("AS-VH-EMPTY".into())), Box::new(exprs[0].clone())) };
            exprs.insert(at, e);
            rep.count("sequences_against_a_server_answering_C_for_empty_sets");
        }
        // faults on queries those expressions will cause
        let mut candidates: Vec<String> = Vec::new();
        for e in &exprs {
            let names = expr::referenced_names(e, &database);
            for s in &names.as_sets {
                candidates.push(format!("!i{s},1"));
                for a in expr::expand_as_set(&database, s).unwrap_or_default() {
                    candidates.push(format!("!gAS{a}"));
                    candidates.push(format!("!6AS{a}"));
                }
            }
            for s in &names.route_sets {
                candidates.push(format!("!i{s},1"));
            }
            for s in &names.filter_sets {
                candidates.push(format!("!mfilter-set,{s}"));
            }
            for a in &names.ases {
                candidates.push(format!("!gAS{a}"));
                candidates.push(format!("!6AS{a}"));
            }
        }
        candidates.sort();
        candidates.dedup();
        let nf = if candidates.is_empty() { 0 } else { r.range(0, 3.min(candidates.len())) };
        for _ in 0..nf {
            let q = candidates[r.below(candidates.len())].clone();
            let f = match r.below(3) {
                0 => Fault::KeyNotFound,
                1 => Fault::NotUnique,
                _ => Fault::Other(long_message(&mut r, "injected failure")),
            };
            faults.by_query.insert(q, f);
        }
        // transient faults: hit only the first occurrence of a query (on the shared connection)
        let nt = if candidates.is_empty() { 0 } else { r.range(0, 3.min(candidates.len())) };
        for _ in 0..nt {
            let q = candidates[r.below(candidates.len())].clone();
            if faults.by_query.contains_key(&q) {
                continue;
            }
            let f = match r.below(3) {
                0 => Fault::KeyNotFound,
                1 => Fault::NotUnique,
                _ => Fault::Other(long_message(&mut r, "transient failure")),
            };
            faults.once.insert(q, f);
        }
        let server = match Server::start(database.clone(), faults.clone()) {
            Ok(s) => s,
            Err(e) => {
                rep.inconclusive("fake irrd", &format!("{e}"));
                continue;
            }
        };
        let port = server.port();
        let texts: Vec<String> = exprs.iter().map(Expr::to_rpsl).collect();
        // shared evaluator, in a helper thread (a hang must not wedge the check); after every
        // evaluation the main thread notes how far the server's log has grown, which tells which
        // transient faults were consumed by which expression
        let (tx, rx) = mpsc::channel::<Real>();
        let (go_tx, go_rx) = mpsc::channel::<()>();
        let t2 = texts.clone();
        let via_trait = idx % 2 == 1;
        rep.count(if via_trait { "sequences_through_the_Evaluator_trait" } else { "sequences_through_the_inherent_method" });
        std::thread::spawn(move || {
            let mut ev = match bgpfu::RpslEvaluator::new("127.0.0.1", port) {
                Ok(e) => e,
                Err(e) => {
                    for _ in &t2 {
                        let _ = tx.send(Real::Err(format!("connect: {e:?}")));
                        let _ = go_rx.recv();
                    }
                    return;
                }
            };
            for t in &t2 {
                let parsed: Result<rpsl::expr::MpFilterExpr, _> = t.parse();
                let r = match parsed {
                    Err(e) => Real::Err(format!("parse: {e}")),
                    // both public entry points: the evaluator's own method, and the rpsl crate's
                    // `Evaluator` trait that generic callers go through
                    Ok(p) => match std::panic::catch_unwind(std::panic::AssertUnwindSafe(|| if via_trait { rpsl::expr::eval::Evaluator::evaluate(&mut ev, p).map_err(bgpfu::Error::from) } else { ev.evaluate(p) })) {
                        Ok(Ok(set)) => Real::Ranges(set.ranges().map(|r| r.to_string()).collect()),
                        Ok(Err(e)) => Real::Err(format!("{e:?}")),
                        Err(p) => Real::Panic(crate::sess::panic_message(p)),
                    },
                };
                if tx.send(r).is_err() || go_rx.recv().is_err() {
                    return;
                }
            }
        });
        let mut shared: Vec<Real> = Vec::new();
        let mut consumed_by: Vec<Vec<String>> = Vec::new(); // transient faults consumed during expression j
        let mut seen_log = 0usize;
        let mut timed_out = false;
        for _ in &texts {
            match rx.recv_timeout(Duration::from_secs(60)) {
                Ok(r) => {
                    // let the server finish logging what it answered for this evaluation
                    std::thread::sleep(Duration::from_millis(2));
                    let log = server.log();
                    let mut mine = Vec::new();
                    let mut remaining: std::collections::BTreeSet<String> = faults.once.keys().cloned().collect();
                    for prev in consumed_by.iter().flatten() {
                        remaining.remove(prev);
                    }
                    for e in &log[seen_log.min(log.len())..] {
                        if remaining.remove(&e.query) {
                            mine.push(e.query.clone());
                        }
                    }
                    seen_log = log.len();
                    consumed_by.push(mine);
                    shared.push(r);
                    let _ = go_tx.send(());
                }
                Err(_) => {
                    timed_out = true;
                    break;
                }
            }
        }
        if timed_out {
            rep.inconclusive(&format!("sequence {idx}"), "shared evaluator did not finish within 60 s");
            server.stop();
            continue;
        }
        // fresh evaluator per expression, on a fresh server whose transient faults are exactly
        // those that hit this expression on the shared connection
        let fresh: Vec<Real> = texts
            .iter()
            .enumerate()
            .map(|(j, t)| {
                if consumed_by[j].is_empty() && faults.once.is_empty() {
                    return eval_fresh(port, t, Duration::from_secs(30));
                }
                let mut f2 = faults.clone();
                f2.once.retain(|q, _| consumed_by[j].contains(q));
                match Server::start(database.clone(), f2) {
                    Ok(s2) => {
                        let r = eval_fresh(s2.port(), t, Duration::from_secs(30));
                        s2.stop();
                        r
                    }
                    Err(e) => Real::Err(format!("harness: fresh server: {e}")),
                }
            })
            .collect();
        rep.count_n("transient_faults_injected", faults.once.len() as u64);
        rep.count_n("transient_faults_consumed", consumed_by.iter().map(Vec::len).sum::<usize>() as u64);
        let any_fail_before = shared.iter().take(shared.len().saturating_sub(1)).any(|r| !matches!(r, Real::Ranges(_)));
        let key = format!("{idx}|{texts:?}|{:?}|{:?}", faults.by_query, faults.once);
        rep.case(if any_fail_before || nf > 0 || !faults.once.is_empty() { Some(key.as_bytes()) } else { None });
        rep.count_n("expressions", texts.len() as u64);
        rep.count_n("faults_injected", nf as u64);
        rep.count_n("evaluations_failed_on_shared_connection", shared.iter().filter(|r| !matches!(r, Real::Ranges(_))).count() as u64);
        let wit = |extra: Value| json!({"sequence": texts, "faults": faults.by_query.iter().map(|(q, f)| format!("{q} -> {f:?}")).collect::<Vec<_>>(),
            "transient_faults": faults.once.iter().map(|(q, f)| format!("{q} -> {f:?} (first occurrence only)")).collect::<Vec<_>>(), "transient_consumed_by_expression": consumed_by, "case_index": idx, "seed": cfg.seed,
            "db": database.to_json(), "observed": extra});
        for (j, (s, f)) in shared.iter().zip(fresh.iter()).enumerate() {
            if matches!(f, Real::Timeout) || matches!(s, Real::Timeout) {
                rep.inconclusive(&format!("sequence {idx} item {j}"), "timeout");
                continue;
            }
            let (ns, nfz) = (norm(s), norm(f));
            let same = match (&ns, &nfz) {
                (Ok(a), Ok(b)) => a == b,
                (Err(_), Err(_)) => true,
                _ => false,
            };
            if !same {
                let prev_failed = j > 0 && !matches!(shared[j - 1], Real::Ranges(_));
                let what = match (&ns, &nfz) {
                    (Ok(_), Ok(_)) => "different-set",
                    (Err(_), Ok(_)) => "fails-only-on-shared-connection",
                    _ => "succeeds-only-on-shared-connection",
                };
                rep.violation(
                    &format!("history-dependent:{what}:{}", if prev_failed { "after-failed-evaluation" } else { "after-successful-evaluation" }),
                    &format!("expression #{j} {:?}: on the shared connection {}, on a fresh connection {}", clip(&texts[j], 100), clip(&format!("{s:?}"), 200), clip(&format!("{f:?}"), 200)),
                    wit(json!({"index": j})),
                );
                break;
            }
        }
        // the server's log: within a connection responses are produced in query order
        let log = server.log();
        let mut last: std::collections::BTreeMap<u64, u64> = std::collections::BTreeMap::new();
        for e in &log {
            if let Some(prev) = last.get(&e.conn) {
                if e.seq <= *prev {
                    rep.violation("harness:server-log-out-of-order", &format!("conn {} seq {} after {}", e.conn, e.seq, prev), json!({}));
                }
            }
            last.insert(e.conn, e.seq);
        }
        rep.count_n("irrd_queries_served", log.len() as u64);
        if rep.samples.len() < rep.max_samples && nf > 0 && i % 17 == 3 {
            rep.sample(json!({"sequence": texts, "faults": faults.by_query.iter().map(|(q, f)| format!("{q} -> {f:?}")).collect::<Vec<_>>(),
                "shared": shared.iter().map(|r| clip(&format!("{r:?}"), 100)).collect::<Vec<_>>()}));
        }
        server.stop();
    }
    agent_layer_c17(&mut rep, cfg);
    rep.finish()
}


/// C17 one layer up: the agent evaluates all candidate policies of a run on ONE evaluator, in the
/// order its hash map yields them. Whatever happened to the policies visited before - three, four,
/// five failures in a row, for whatever reason - a policy's result must be the one it gets when it
/// is the only candidate.
fn agent_layer_c17(rep: &mut Report, cfg: &Cfg) {
    use crate::bases::{candidate_policy, config_data};
    use crate::dom;
    let n = cfg.count(8, 400);
    for i in 0..n {
        let idx = cfg.case_index(i);
        let mut r = cfg.prng("C17-agent-layer", idx);
        let mut database = db::generate(r.next_u64(), Size::Small);
        database.as_sets.insert("AS-VH-AMBIGUOUS".into(), vec![]);
        database.as_sets.insert("AS-VH-BROKEN".into(), vec![]);
        let mut faults = Faults::default();
        faults.by_query.insert("!iAS-VH-AMBIGUOUS,1".into(), Fault::NotUnique);
        faults.by_query.insert("!iAS-VH-BROKEN,1".into(), Fault::Other("no such set".into()));
        // 2-4 good policies, 3-6 failing ones (unknown set = D, E, F, PeerAS)
        let mut pols: Vec<(String, String, bool)> = Vec::new();
        for g in 0..r.range(2, 4) {
            let o = GenExprOpts::safe_for(&database, 1 + (g % 2) as u32);
            pols.push((format!("good-{g}"), expr::generate_expr_with(r.next_u64(), &database, &o).to_rpsl(), true));
        }
        let nbad = r.range(3, 6);
        for b in 0..nbad {
            let e = match (b + r.below(4)) % 4 {
                0 => format!("AS-VH-MISSING-{b}"),
                1 => "AS-VH-AMBIGUOUS".to_string(),
                2 => "AS-VH-BROKEN".to_string(),
                _ => "AS65000 AND PeerAS".to_string(),
            };
            pols.push((format!("bad-{b}"), e, false));
        }
        let server = match Server::start(database.clone(), faults.clone()) {
            Ok(s) => s,
            Err(e) => {
                rep.inconclusive("fake irrd", &format!("{e}"));
                continue;
            }
        };
        let port = server.port();
        let xml_of = |ps: &[(String, String, bool)]| {
            let t = config_data(ps.iter().map(|(n, e, _)| candidate_policy(n, &format!("/* bgpfu-fltr: {e} */"), None)).collect());
            dom::serialise(&t, &dom::Style::default())
        };
        let call = |xml: String| -> Option<Result<Vec<agent::verif::EvaluatedItem>, String>> {
            let (tx, rx) = mpsc::channel();
            std::thread::spawn(move || {
                let r = std::panic::catch_unwind(|| agent::verif::evaluate(&xml, "127.0.0.1", port)).unwrap_or_else(|p| Err(format!("panic: {}", crate::sess::panic_message(p))));
                let _ = tx.send(r);
            });
            rx.recv_timeout(Duration::from_secs(60)).ok()
        };
        // stand-alone results of the good ones
        let mut alone: Vec<(String, Option<(Vec<String>, Vec<String>)>)> = Vec::new();
        let mut usable = true;
        for p in pols.iter().filter(|p| p.2) {
            match call(xml_of(std::slice::from_ref(p))) {
                Some(Ok(v)) if v.len() == 1 => alone.push((p.0.clone(), v[0].2.clone())),
                other => {
                    rep.inconclusive("agent-layer stand-alone evaluation", &format!("{:?}", other.map(|r| r.map(|v| v.len()))));
                    usable = false;
                }
            }
        }
        if !usable {
            continue;
        }
        // together, several times (the hash map's order differs from call to call)
        let reps = 12;
        for k in 0..reps {
            let key = format!("agent-layer|{idx}|{k}");
            rep.case(Some(key.as_bytes()));
            rep.count("agent_layer_runs");
            let Some(res) = call(xml_of(&pols)) else {
                rep.violation("agent-layer:evaluation-hangs", "evaluating the candidates together did not finish within 60 s", json!({"case_index": idx, "seed": cfg.seed}));
                break;
            };
            let res = match res {
                Ok(v) => v,
                Err(e) => {
                    rep.violation("agent-layer:evaluation-step-failed", &e, json!({"case_index": idx, "seed": cfg.seed}));
                    break;
                }
            };
            for (name, want) in &alone {
                let got = res.iter().find(|x| x.0 == *name).map(|x| x.2.clone());
                if got.as_ref() != Some(want) {
                    let what = match (&got, want) {
                        (Some(None), Some(_)) => "fails-only-among-the-others",
                        (Some(Some(_)), None) => "succeeds-only-among-the-others",
                        (None, _) => "missing-from-the-result",
                        _ => "different-set",
                    };
                    rep.violation(
                        &format!("agent-layer:history-dependent:{what}"),
                        &format!("policy {name}: alone {}, among {} other candidates ({nbad} of them unevaluable) {}", summarise(want), pols.len() - 1, got.as_ref().map_or("absent".to_string(), summarise)),
                        json!({"case_index": idx, "seed": cfg.seed, "repetition": k, "policies": pols.iter().map(|p| format!("{} = {}", p.0, p.1)).collect::<Vec<_>>(),
                               "order_is": "the agent's hash map order of this call (not observable from outside)"}),
                    );
                }
            }
            // and the unevaluable ones stay unevaluated
            for p in pols.iter().filter(|p| !p.2) {
                if let Some(x) = res.iter().find(|x| x.0 == p.0) {
                    if x.2.is_some() {
                        rep.violation("agent-layer:unevaluable-policy-evaluated", &format!("policy {} ({}) got a result", p.0, p.1), json!({"case_index": idx, "seed": cfg.seed}));
                    }
                }
            }
        }
    }
}

fn summarise(v: &Option<(Vec<String>, Vec<String>)>) -> String {
    match v {
        None => "failed".into(),
        Some((a, b)) => format!("evaluated to {} + {} ranges", a.len(), b.len()),
    }
}
