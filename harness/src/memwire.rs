//! In-memory `Transport` whose sends and receives complete only when the controlled scheduler
//! (or a simple auto-responder) says so.  Records every byte the client sends.

use async_trait::async_trait;
use bytes::Bytes;
use netconf::transport::{RecvHandle, SendHandle, Transport};
use std::collections::{BTreeSet, VecDeque};
use std::future::poll_fn;
use std::sync::{Arc, Mutex};
use std::task::{Poll, Waker};

#[derive(Default, Debug)]
pub struct WireState {
    /// complete messages the client put on the wire, in order
    pub sent: Vec<Vec<u8>>,
    /// number of `send()` calls begun so far
    pub send_attempts: usize,
    /// indices of send attempts that must wait for `release`
    pub block_sends: BTreeSet<usize>,
    /// of those, the attempts whose bytes reach the peer BEFORE the send suspends (e.g. written
    /// but not yet flushed/acknowledged), as opposed to being held back entirely
    pub block_after_write: BTreeSet<usize>,
    /// a send that is currently blocked (attempt index)
    pub blocked: Option<usize>,
    pub released: BTreeSet<usize>,
    pub send_waker: Option<Waker>,
    /// messages available to `recv()`
    pub inbox: VecDeque<Vec<u8>>,
    pub recv_waker: Option<Waker>,
    /// after the inbox drains, `recv()` fails with UnexpectedEof
    pub closed: bool,
    /// fail every send with BrokenPipe
    pub send_broken: bool,
    /// send attempts that return an error (TimedOut) although their bytes reached the peer: a
    /// write that completed followed by a flush / acknowledgement that did not
    pub fail_after_write: BTreeSet<usize>,
    pub recv_calls: u64,
    pub recv_polls: u64,
    /// receive-side event log: b'c' = recv() called, b'p' = a message was taken off the wire
    pub rx_events: Vec<u8>,
}

#[derive(Clone, Debug, Default)]
pub struct Wire(pub Arc<Mutex<WireState>>);

impl Wire {
    pub fn new() -> Self {
        Self::default()
    }
    pub fn lock(&self) -> std::sync::MutexGuard<'_, WireState> {
        self.0.lock().unwrap_or_else(|e| e.into_inner())
    }
    /// make a message available to the client's `recv()`
    pub fn deliver(&self, msg: Vec<u8>) {
        let w = {
            let mut st = self.lock();
            st.inbox.push_back(msg);
            st.recv_waker.take()
        };
        if let Some(w) = w {
            w.wake();
        }
    }
    pub fn close(&self) {
        let w = {
            let mut st = self.lock();
            st.closed = true;
            st.recv_waker.take()
        };
        if let Some(w) = w {
            w.wake();
        }
    }
    pub fn release_send(&self) {
        let w = {
            let mut st = self.lock();
            if let Some(i) = st.blocked {
                st.released.insert(i);
            }
            st.send_waker.take()
        };
        if let Some(w) = w {
            w.wake();
        }
    }
    pub fn transport(&self) -> MemTransport {
        MemTransport { wire: self.clone() }
    }
}

#[derive(Debug)]
pub struct MemTransport {
    wire: Wire,
}

#[derive(Debug)]
pub struct MemSender {
    wire: Wire,
}

#[derive(Debug)]
pub struct MemReceiver {
    wire: Wire,
}

impl Transport for MemTransport {
    type SendHandle = MemSender;
    type RecvHandle = MemReceiver;
    fn split(self) -> (MemSender, MemReceiver) {
        (MemSender { wire: self.wire.clone() }, MemReceiver { wire: self.wire })
    }
}

#[async_trait]
impl SendHandle for MemSender {
    async fn send(&mut self, data: Bytes) -> Result<(), netconf::Error> {
        let idx = {
            let mut st = self.wire.lock();
            if st.send_broken {
                return Err(netconf::Error::Transport(std::io::Error::new(
                    std::io::ErrorKind::BrokenPipe,
                    "memwire: send side broken",
                )));
            }
            let idx = st.send_attempts;
            st.send_attempts += 1;
            if st.fail_after_write.contains(&idx) {
                st.sent.push(data.to_vec());
                return Err(netconf::Error::Transport(std::io::Error::new(
                    std::io::ErrorKind::TimedOut,
                    "memwire: the write completed, the flush timed out",
                )));
            }
            if st.block_sends.contains(&idx) {
                st.blocked = Some(idx);
                if st.block_after_write.contains(&idx) {
                    st.sent.push(data.to_vec());
                }
            }
            idx
        };
        let already_written = self.wire.lock().block_after_write.contains(&idx) && self.wire.lock().block_sends.contains(&idx);
        let wire = self.wire.clone();
        poll_fn(move |cx| {
            let mut st = wire.lock();
            if st.blocked == Some(idx) {
                if st.released.contains(&idx) {
                    st.blocked = None;
                    Poll::Ready(())
                } else {
                    st.send_waker = Some(cx.waker().clone());
                    Poll::Pending
                }
            } else {
                Poll::Ready(())
            }
        })
        .await;
        if !already_written {
            self.wire.lock().sent.push(data.to_vec());
        }
        Ok(())
    }
}

#[async_trait]
impl RecvHandle for MemReceiver {
    async fn recv(&mut self) -> Result<Bytes, netconf::Error> {
        {
            let mut st = self.wire.lock();
            st.recv_calls += 1;
            st.rx_events.push(b'c');
        }
        let wire = self.wire.clone();
        poll_fn(move |cx| {
            let mut st = wire.lock();
            st.recv_polls += 1;
            if let Some(m) = st.inbox.pop_front() {
                st.rx_events.push(b'p');
                Poll::Ready(Ok(Bytes::from(m)))
            } else if st.closed {
                Poll::Ready(Err(netconf::Error::Transport(std::io::Error::new(
                    std::io::ErrorKind::UnexpectedEof,
                    "memwire: peer closed",
                ))))
            } else {
                st.recv_waker = Some(cx.waker().clone());
                Poll::Pending
            }
        })
        .await
    }
}

pub const MARKER: &str = "]]>]]>";
pub const BASE_NS: &str = "urn:ietf:params:xml:ns:netconf:base:1.0";
pub const JUNOS_CAP: &str = "http://xml.juniper.net/netconf/junos/1.0";

/// a plain server hello with the given capability URIs
pub fn server_hello(caps: &[&str], session_id: &str) -> Vec<u8> {
    let mut s = format!("<hello xmlns=\"{BASE_NS}\"><capabilities>");
    for c in caps {
        s.push_str("<capability>");
        s.push_str(&crate::xmlstrict::escape_text(c));
        s.push_str("</capability>");
    }
    s.push_str("</capabilities><session-id>");
    s.push_str(session_id);
    s.push_str("</session-id></hello>");
    s.push_str(MARKER);
    s.into_bytes()
}

pub const ALL_CAPS: &[&str] = &[
    "urn:ietf:params:netconf:base:1.0",
    "urn:ietf:params:netconf:capability:writable-running:1.0",
    "urn:ietf:params:netconf:capability:candidate:1.0",
    "urn:ietf:params:netconf:capability:confirmed-commit:1.0",
    "urn:ietf:params:netconf:capability:confirmed-commit:1.1",
    "urn:ietf:params:netconf:capability:rollback-on-error:1.0",
    "urn:ietf:params:netconf:capability:validate:1.0",
    "urn:ietf:params:netconf:capability:validate:1.1",
    "urn:ietf:params:netconf:capability:startup:1.0",
    "urn:ietf:params:netconf:capability:url:1.0?scheme=http,ftp,file",
    "urn:ietf:params:netconf:capability:xpath:1.0",
    JUNOS_CAP,
];

/// the message-id attribute of a client request (None if it is not an <rpc> or cannot be parsed)
pub fn request_message_id(msg: &[u8]) -> Option<String> {
    let body = msg.strip_suffix(MARKER.as_bytes())?;
    if cfg!(miri) {
        // the interpreter is ~1000x slower: a plain substring scan instead of the strict parser
        let s = std::str::from_utf8(body).ok()?;
        if !s.starts_with("<rpc ") {
            return None;
        }
        let at = s.find("message-id=\"")? + 12;
        let end = s[at..].find('"')? + at;
        return Some(s[at..end].to_string());
    }
    let doc = crate::xmlstrict::parse(body).ok()?;
    if doc.root.local() != "rpc" {
        return None;
    }
    doc.root.attr("message-id").map(ToString::to_string)
}

pub fn data_reply(message_id: &str, tag: &str) -> Vec<u8> {
    format!("<rpc-reply xmlns=\"{BASE_NS}\" message-id=\"{message_id}\"><data>{tag}</data></rpc-reply>{MARKER}")
        .into_bytes()
}

/// a data reply of at least `size` bytes: the padding is a comment after `<data>`, so that the
/// value the caller receives is still `tag`
pub fn data_reply_padded(message_id: &str, tag: &str, size: usize) -> Vec<u8> {
    let mut pad = String::with_capacity(size);
    while pad.len() < size {
        pad.push_str("padding padding padding padding padding padding padding padding ");
    }
    format!("<rpc-reply xmlns=\"{BASE_NS}\" message-id=\"{message_id}\"><data>{tag}</data><!-- {pad} --></rpc-reply>{MARKER}").into_bytes()
}

pub fn ok_reply(message_id: &str) -> Vec<u8> {
    format!("<rpc-reply xmlns=\"{BASE_NS}\" message-id=\"{message_id}\"><ok/></rpc-reply>{MARKER}").into_bytes()
}

/// message-id by substring scan (works on requests that are not well-formed)
pub fn request_message_id_lenient(msg: &[u8]) -> Option<String> {
    let s = String::from_utf8_lossy(msg);
    let at = s.find("message-id=\"")? + 12;
    let end = s[at..].find('"')? + at;
    Some(s[at..end].to_string())
}
