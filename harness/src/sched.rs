//! Controlled executor: runs the real `Session::rpc` / reply-future code over `memwire` and owns
//! every source of nondeterminism (which task is polled, which reply is delivered when, when a
//! blocked send completes, which reply future is dropped at which suspension point).

use crate::memwire::{self, Wire};
use netconf::message::rpc::operation::{Builder, Get};
use netconf::Session;
use serde_json::{json, Value};
use std::cell::RefCell;
use std::collections::{BTreeMap, BTreeSet};
use std::future::Future;
use std::panic::{catch_unwind, AssertUnwindSafe};
use std::pin::Pin;
use std::rc::Rc;
use std::sync::atomic::{AtomicBool, Ordering};
use std::sync::Arc;
use std::task::{Context, Poll, Wake, Waker};

pub struct Flag(pub AtomicBool);
impl Wake for Flag {
    fn wake(self: Arc<Self>) {
        self.0.store(true, Ordering::SeqCst);
    }
    fn wake_by_ref(self: &Arc<Self>) {
        self.0.store(true, Ordering::SeqCst);
    }
}

/// poll a single future to completion with no scheduler: it must make progress on its own
/// (all its inputs are already in the wire's inbox). `None` = it returned Pending without having
/// been woken (it is waiting for something that will never come) or exceeded the poll budget.
pub fn drive<F: Future>(fut: F, max_polls: usize) -> Option<F::Output> {
    let flag = Arc::new(Flag(AtomicBool::new(true)));
    let waker = Waker::from(flag.clone());
    let mut cx = Context::from_waker(&waker);
    let mut fut = std::pin::pin!(fut);
    for _ in 0..max_polls {
        if !flag.0.swap(false, Ordering::SeqCst) {
            return None;
        }
        if let Poll::Ready(v) = fut.as_mut().poll(&mut cx) {
            return Some(v);
        }
    }
    None
}

pub struct YieldNow(bool);
impl Future for YieldNow {
    type Output = ();
    fn poll(mut self: Pin<&mut Self>, cx: &mut Context<'_>) -> Poll<()> {
        if self.0 {
            Poll::Ready(())
        } else {
            self.0 = true;
            cx.waker().wake_by_ref();
            Poll::Pending
        }
    }
}
pub fn yield_now() -> YieldNow {
    YieldNow(false)
}

#[derive(Clone, Debug, PartialEq, Eq)]
pub enum Place {
    /// each reply future in its own task
    Spawn,
    /// joined with the other futures of the same group in one task
    Join(u8),
    /// awaited by the issuing task itself, in order, after all of its sends (like the agent's
    /// pipelined load_config)
    Seq,
}

#[derive(Clone, Debug)]
pub struct Plan {
    /// RPCs issued in the first batch, with the placement of each reply future
    pub first: Vec<Place>,
    /// RPCs issued by the main task after it has awaited its `Seq` futures (all `Spawn`)
    pub late: usize,
    /// send attempts that block until released (attempt 0 is the client hello)
    pub block_sends: Vec<usize>,
    /// of the blocked sends, those whose bytes are on the wire before the send suspends
    pub block_after_write: Vec<usize>,
    /// the main task yields to the scheduler between RPCs
    pub yield_between: bool,
    /// server hello is in the inbox before the client starts (else its delivery is an action)
    pub hello_preloaded: bool,
    /// extra server messages the scheduler may deliver at any point after the hello
    pub extra: Vec<Vec<u8>>,
    /// number of reply tasks the scheduler may drop (C18)
    pub drops: usize,
    /// hello to use
    pub hello: Vec<u8>,
    /// size of the i-th reply is padded (with a comment after <data>) to reply_pad[i % len] bytes;
    /// empty = small replies
    pub reply_pad: Vec<usize>,
    /// send attempts (1.. = the rpcs) that fail although the request reached the server, which
    /// answers it like any other: the session goes on being used
    pub fail_after_write: Vec<usize>,
    /// the server echoes message-ids with their first digit written as a character reference
    /// (`message-id="&#x31;2"` is the attribute value "12")
    pub charref_ids: bool,
}

impl Plan {
    pub fn total(&self) -> usize {
        self.first.len() + self.late
    }
    pub fn describe(&self) -> Value {
        json!({
            "first": self.first.iter().map(|p| format!("{p:?}")).collect::<Vec<_>>(),
            "late": self.late, "block_sends": self.block_sends, "block_after_write": self.block_after_write, "yield_between": self.yield_between,
            "hello_preloaded": self.hello_preloaded, "extra": self.extra.len(), "drops": self.drops, "reply_pad": self.reply_pad, "fail_after_write": self.fail_after_write, "charref_ids": self.charref_ids,
        })
    }
}

#[derive(Clone, Debug, PartialEq, Eq)]
pub enum Outcome {
    /// the RPC was never issued (main task did not get that far)
    NotIssued,
    /// issued, reply future not resolved
    Unresolved,
    /// `rpc()` itself failed
    SendErr(String),
    Ok(String),
    Err(String),
    /// future was dropped by the scheduler
    Dropped,
}

#[derive(Clone, Debug, PartialEq, Eq)]
pub enum Action {
    Poll(usize),
    Deliver(usize),
    DeliverExtra(usize),
    DeliverHello,
    Release,
    Drop(usize),
}

pub struct Execution {
    pub actions: Vec<Action>,
    pub outcomes: Vec<Outcome>,
    pub sent: Vec<Vec<u8>>,
    /// message-id (as on the wire) of request i, in issue order
    pub ids: Vec<String>,
    /// tags by request index (the tag the server put into the reply for that request)
    pub tags: Vec<String>,
    pub establish: Result<(), String>,
    pub ctx_info: Option<String>,
    pub panics: Vec<String>,
    /// replies the server produced but the scheduler had not delivered at quiescence
    pub undelivered: usize,
    pub state_sigs: BTreeSet<u64>,
    pub truncated: bool,
    pub dropped_reqs: BTreeSet<usize>,
    /// reply tasks: which request indices each task awaits
    pub task_reqs: Vec<Vec<usize>>,
    pub steps: usize,
    pub recv_calls: u64,
    /// per action: receive-side events (b'c' recv called, b'p' message taken) caused by it
    pub rx_events: Vec<Vec<u8>>,
}

struct Task {
    fut: Option<Pin<Box<dyn Future<Output = ()>>>>,
    flag: Arc<Flag>,
    reqs: Vec<usize>,
    is_main: bool,
    polled: bool,
}

type Spawner = Rc<RefCell<Vec<(Vec<usize>, Pin<Box<dyn Future<Output = ()>>>)>>>;

struct Shared {
    outcomes: RefCell<Vec<Outcome>>,
    establish: RefCell<Option<Result<(), String>>>,
    ctx: RefCell<Option<String>>,
}

/// what the session reports to the user about itself: "session-id|version|sorted capability URIs"
pub fn context_info<T: netconf::transport::Transport>(s: &Session<T>) -> String {
    let c = s.context();
    let mut caps: Vec<String> = c.server_capabilities().iter().map(|c| c.uri().into_owned()).collect();
    caps.sort();
    format!("{}|{:?}|{}", c.session_id(), c.protocol_version(), caps.join(" "))
}

fn record<T: std::fmt::Display>(sh: &Shared, i: usize, r: Result<T, netconf::Error>) {
    sh.outcomes.borrow_mut()[i] = match r {
        Ok(v) => Outcome::Ok(v.to_string()),
        Err(e) => Outcome::Err(format!("{e:?}")),
    };
}

async fn main_task(plan: Plan, wire: Wire, spawner: Spawner, sh: Rc<Shared>) {
    let mut session = match Session::verif_establish(wire.transport()).await {
        Ok(s) => {
            *sh.establish.borrow_mut() = Some(Ok(()));
            *sh.ctx.borrow_mut() = Some(context_info(&s));
            s
        }
        Err(e) => {
            *sh.establish.borrow_mut() = Some(Err(format!("{e:?}")));
            return;
        }
    };
    let mut seq = Vec::new();
    let mut groups: BTreeMap<u8, Vec<(usize, Pin<Box<dyn Future<Output = Result<String, netconf::Error>>>>)>> =
        BTreeMap::new();
    for (i, place) in plan.first.iter().enumerate() {
        if plan.yield_between && i > 0 {
            yield_now().await;
        }
        match session.rpc::<Get, _>(|b| b.finish()).await {
            Err(e) => sh.outcomes.borrow_mut()[i] = Outcome::SendErr(format!("{e:?}")),
            Ok(fut) => {
                sh.outcomes.borrow_mut()[i] = Outcome::Unresolved;
                let fut = Box::pin(async move { fut.await.map(|o| o.to_string()) });
                match place {
                    Place::Spawn => {
                        let sh2 = sh.clone();
                        spawner.borrow_mut().push((
                            vec![i],
                            Box::pin(async move {
                                let r = fut.await;
                                record(&sh2, i, r);
                            }),
                        ));
                    }
                    Place::Join(g) => groups.entry(*g).or_default().push((i, fut)),
                    Place::Seq => seq.push((i, fut)),
                }
            }
        }
    }
    for (_, members) in groups {
        let reqs: Vec<usize> = members.iter().map(|(i, _)| *i).collect();
        let sh2 = sh.clone();
        spawner.borrow_mut().push((
            reqs,
            Box::pin(async move {
                let futs = members.into_iter().map(|(i, f)| {
                    let sh3 = sh2.clone();
                    async move {
                        let r = f.await;
                        record(&sh3, i, r);
                    }
                });
                futures::future::join_all(futs).await;
            }),
        ));
    }
    if plan.yield_between {
        yield_now().await;
    }
    for (i, fut) in seq {
        let r = fut.await;
        record(&sh, i, r);
    }
    for j in 0..plan.late {
        let i = plan.first.len() + j;
        if plan.yield_between {
            yield_now().await;
        }
        match session.rpc::<Get, _>(|b| b.finish()).await {
            Err(e) => sh.outcomes.borrow_mut()[i] = Outcome::SendErr(format!("{e:?}")),
            Ok(fut) => {
                sh.outcomes.borrow_mut()[i] = Outcome::Unresolved;
                let sh2 = sh.clone();
                spawner.borrow_mut().push((
                    vec![i],
                    Box::pin(async move {
                        let r = fut.await.map(|o| o.to_string());
                        record(&sh2, i, r);
                    }),
                ));
            }
        }
    }
    // keep the session alive until the scheduler ends the execution: dropping it must not be
    // what makes outstanding requests fail or succeed
    std::future::pending::<()>().await;
}

pub fn default_hello() -> Vec<u8> {
    if cfg!(miri) {
        // capability URI validation dominates interpreter time; one capability is enough here
        return memwire::server_hello(&memwire::ALL_CAPS[..1], "4242");
    }
    memwire::server_hello(memwire::ALL_CAPS, "4242")
}

/// Run one execution of `plan`; `choose(n)` picks one of n enabled actions; `max_choice_depth`
/// bounds the number of real choice points (beyond it the first enabled action is taken).
pub fn run(
    plan: &Plan,
    case_tag: &str,
    choose: &mut dyn FnMut(usize) -> usize,
    max_steps: usize,
) -> Execution {
    let wire = Wire::new();
    {
        let mut st = wire.lock();
        st.block_sends = plan.block_sends.iter().copied().collect();
        st.block_after_write = plan.block_after_write.iter().copied().collect();
        st.fail_after_write = plan.fail_after_write.iter().copied().collect();
        if plan.hello_preloaded {
            st.inbox.push_back(plan.hello.clone());
        }
    }
    let total = plan.total();
    let sh = Rc::new(Shared {
        outcomes: RefCell::new(vec![Outcome::NotIssued; total]),
        establish: RefCell::new(None),
        ctx: RefCell::new(None),
    });
    let spawner: Spawner = Rc::new(RefCell::new(Vec::new()));
    let mut tasks: Vec<Task> = vec![Task {
        fut: Some(Box::pin(main_task(plan.clone(), wire.clone(), spawner.clone(), sh.clone()))),
        flag: Arc::new(Flag(AtomicBool::new(true))),
        reqs: vec![],
        is_main: true,
        polled: false,
    }];
    let mut ex = Execution {
        actions: Vec::new(),
        outcomes: Vec::new(),
        sent: Vec::new(),
        ids: Vec::new(),
        tags: Vec::new(),
        establish: Err("not attempted".into()),
        ctx_info: None,
        panics: Vec::new(),
        undelivered: 0,
        state_sigs: BTreeSet::new(),
        truncated: false,
        dropped_reqs: BTreeSet::new(),
        task_reqs: Vec::new(),
        steps: 0,
        recv_calls: 0,
        rx_events: Vec::new(),
    };
    // server side
    let mut seen_msgs = 0usize; // messages of wire.sent already looked at
    let mut replies: Vec<Option<Vec<u8>>> = Vec::new(); // by request index; None once delivered
    let mut hello_delivered = plan.hello_preloaded;
    let mut extra_delivered = vec![false; plan.extra.len()];
    let mut drops_left = plan.drops;
    let mut hello_seen_from_client = false;

    loop {
        // collect spawned tasks
        for (reqs, fut) in spawner.borrow_mut().drain(..) {
            tasks.push(Task {
                fut: Some(fut),
                flag: Arc::new(Flag(AtomicBool::new(true))),
                reqs,
                is_main: false,
                polled: false,
            });
        }
        // server looks at the wire
        {
            let st = wire.lock();
            while seen_msgs < st.sent.len() {
                let msg = &st.sent[seen_msgs];
                seen_msgs += 1;
                match memwire::request_message_id(msg) {
                    Some(id) => {
                        let i = ex.ids.len();
                        let tag = format!("t-{case_tag}-{i}-{id}");
                        let pad = if plan.reply_pad.is_empty() { 0 } else { plan.reply_pad[i % plan.reply_pad.len()] };
                        let echoed = if plan.charref_ids { format!("&#x{:x};{}", id.as_bytes()[0], &id[1..]) } else { id.clone() };
                        replies.push(Some(if pad == 0 { memwire::data_reply(&echoed, &tag) } else { memwire::data_reply_padded(&echoed, &tag, pad) }));
                        ex.ids.push(id);
                        ex.tags.push(tag);
                    }
                    None => hello_seen_from_client = true,
                }
            }
        }
        let _ = hello_seen_from_client;
        // enabled actions (Poll first so that choice 0 always drives towards completion)
        let mut actions = Vec::new();
        for (t, task) in tasks.iter().enumerate() {
            if task.fut.is_some() && task.flag.0.load(Ordering::SeqCst) {
                actions.push(Action::Poll(t));
            }
        }
        if !hello_delivered {
            actions.push(Action::DeliverHello);
        }
        for (i, r) in replies.iter().enumerate() {
            if r.is_some() {
                actions.push(Action::Deliver(i));
            }
        }
        if hello_delivered {
            for (j, d) in extra_delivered.iter().enumerate() {
                if !*d {
                    actions.push(Action::DeliverExtra(j));
                }
            }
        }
        {
            let st = wire.lock();
            if let Some(b) = st.blocked {
                if !st.released.contains(&b) {
                    actions.push(Action::Release);
                }
            }
        }
        if drops_left > 0 {
            for (t, task) in tasks.iter().enumerate() {
                if !task.is_main && task.fut.is_some() {
                    actions.push(Action::Drop(t));
                }
            }
        }
        // quiescence: nothing but (optional) drops / extras left and nobody runnable
        let progress_possible = actions.iter().any(|a| !matches!(a, Action::Drop(_)));
        if !progress_possible || ex.steps >= max_steps {
            if ex.steps >= max_steps {
                ex.truncated = true;
            }
            break;
        }
        let pick = if actions.len() == 1 { 0 } else { choose(actions.len()) };
        let action = actions[pick.min(actions.len() - 1)].clone();
        ex.steps += 1;
        let rx_before = wire.lock().rx_events.len();
        match &action {
            Action::Poll(t) => {
                let task = &mut tasks[*t];
                task.flag.0.store(false, Ordering::SeqCst);
                task.polled = true;
                let waker = Waker::from(task.flag.clone());
                let mut cx = Context::from_waker(&waker);
                let fut = task.fut.as_mut().unwrap();
                match catch_unwind(AssertUnwindSafe(|| fut.as_mut().poll(&mut cx))) {
                    Ok(Poll::Ready(())) => task.fut = None,
                    Ok(Poll::Pending) => {}
                    Err(p) => {
                        let msg = p
                            .downcast_ref::<String>()
                            .cloned()
                            .or_else(|| p.downcast_ref::<&str>().map(|s| (*s).to_string()))
                            .unwrap_or_else(|| "panic".into());
                        ex.panics.push(msg);
                        task.fut = None;
                    }
                }
            }
            Action::DeliverHello => {
                hello_delivered = true;
                wire.deliver(plan.hello.clone());
            }
            Action::Deliver(i) => {
                if let Some(m) = replies[*i].take() {
                    wire.deliver(m);
                }
            }
            Action::DeliverExtra(j) => {
                extra_delivered[*j] = true;
                wire.deliver(plan.extra[*j].clone());
            }
            Action::Release => wire.release_send(),
            Action::Drop(t) => {
                drops_left -= 1;
                let task = &mut tasks[*t];
                task.fut = None; // drops the future at its current suspension point
                for r in &task.reqs {
                    let mut o = sh.outcomes.borrow_mut();
                    if o[*r] == Outcome::Unresolved {
                        o[*r] = Outcome::Dropped;
                        ex.dropped_reqs.insert(*r);
                    }
                }
            }
        }
        ex.actions.push(action);
        ex.rx_events.push(wire.lock().rx_events[rx_before..].to_vec());
        // state signature (observable state only)
        let mut sig = Vec::new();
        for task in &tasks {
            sig.push(match (&task.fut, task.polled, task.flag.0.load(Ordering::SeqCst)) {
                (None, _, _) => 0u8,
                (Some(_), false, _) => 1,
                (Some(_), true, true) => 2,
                (Some(_), true, false) => 3,
            });
        }
        sig.push(0xff);
        for o in sh.outcomes.borrow().iter() {
            sig.push(match o {
                Outcome::NotIssued => 0,
                Outcome::Unresolved => 1,
                Outcome::SendErr(_) => 2,
                Outcome::Ok(_) => 3,
                Outcome::Err(_) => 4,
                Outcome::Dropped => 5,
            });
        }
        sig.push(0xfe);
        for r in &replies {
            sig.push(u8::from(r.is_some()));
        }
        {
            let st = wire.lock();
            sig.push(st.inbox.len() as u8);
            sig.push(u8::from(st.blocked.is_some()));
        }
        ex.state_sigs.insert(crate::util::fnv(&sig));
    }
    ex.undelivered = replies.iter().filter(|r| r.is_some()).count()
        + extra_delivered.iter().filter(|d| !**d).count();
    ex.outcomes = sh.outcomes.borrow().clone();
    ex.establish = sh.establish.borrow().clone().unwrap_or(Err("establishment did not complete".into()));
    ex.ctx_info = sh.ctx.borrow().clone();
    ex.task_reqs = tasks.iter().map(|t| t.reqs.clone()).collect();
    {
        let st = wire.lock();
        ex.sent = st.sent.clone();
        ex.recv_calls = st.recv_calls;
    }
    // drop tasks before the wire so that destructors run in a defined order
    drop(tasks);
    ex
}

/// Stateless DFS over choice sequences (re-executes from the start for every path).
pub struct Dfs {
    stack: Vec<(usize, usize)>,
    pos: usize,
    pub max_depth: usize,
    pub hit_depth_bound: bool,
}

impl Dfs {
    pub fn new(max_depth: usize) -> Self {
        Self { stack: Vec::new(), pos: 0, max_depth, hit_depth_bound: false }
    }
    pub fn choose(&mut self, n: usize) -> usize {
        if self.pos < self.stack.len() {
            let c = self.stack[self.pos].0;
            self.pos += 1;
            c
        } else if self.stack.len() < self.max_depth {
            self.stack.push((0, n));
            self.pos += 1;
            0
        } else {
            self.hit_depth_bound = true;
            0
        }
    }
    /// advance to the next unexplored path; false when the space is exhausted
    pub fn next_path(&mut self) -> bool {
        self.pos = 0;
        while let Some((c, n)) = self.stack.pop() {
            if c + 1 < n {
                self.stack.push((c + 1, n));
                return true;
            }
        }
        false
    }
}

pub fn actions_json(actions: &[Action]) -> Value {
    Value::Array(actions.iter().map(|a| Value::String(format!("{a:?}"))).collect())
}
