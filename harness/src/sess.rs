//! One real `Session` over the in-memory wire, driven synchronously (no scheduler): used by the
//! properties whose quantifier is over inputs, not schedules.

use crate::memwire::{self, MemTransport, Wire};
use crate::sched::drive;
use netconf::message::rpc::operation::{Builder, Operation};
use netconf::message::rpc::IntoResult;
use netconf::Session;
use std::panic::{catch_unwind, AssertUnwindSafe};

pub struct Sess {
    pub wire: Wire,
    pub session: Session<MemTransport>,
}

pub fn panic_message(p: Box<dyn std::any::Any + Send>) -> String {
    p.downcast_ref::<String>()
        .cloned()
        .or_else(|| p.downcast_ref::<&str>().map(|s| (*s).to_string()))
        .unwrap_or_else(|| "panic (non-string payload)".into())
}

#[derive(Debug)]
pub enum Established {
    Ok(Sess),
    Err(String),
    /// establishment did not complete although the hello was available (stuck)
    Stuck,
    Panic(String),
}

impl std::fmt::Debug for Sess {
    fn fmt(&self, f: &mut std::fmt::Formatter<'_>) -> std::fmt::Result {
        f.write_str("Sess")
    }
}

pub fn establish(hello: &[u8]) -> Established {
    let wire = Wire::new();
    wire.deliver(hello.to_vec());
    let w2 = wire.clone();
    match catch_unwind(AssertUnwindSafe(|| drive(Session::verif_establish(w2.transport()), 64))) {
        Ok(Some(Ok(session))) => Established::Ok(Sess { wire, session }),
        Ok(Some(Err(e))) => Established::Err(format!("{e:?}")),
        Ok(None) => Established::Stuck,
        Err(p) => Established::Panic(panic_message(p)),
    }
}

pub fn establish_ok(caps: &[&str]) -> Sess {
    match establish(&memwire::server_hello(caps, "4242")) {
        Established::Ok(s) => s,
        other => panic!("harness: could not establish a session with a plain hello: {other:?}"),
    }
}

#[derive(Debug)]
pub enum Exchange<T> {
    /// `rpc()` returned an error; `sent` tells whether anything reached the wire nevertheless
    BuildErr { err: String, sent: bool },
    /// request went out; this is what the reply future resolved to
    Reply { request: Vec<u8>, message_id: Option<String>, result: Result<T, netconf::Error> },
    /// reply future did not resolve although the reply was available
    Stuck { request: Vec<u8> },
    Panic { msg: String },
}

impl Sess {
    /// Issue one RPC; `mk_reply(message_id)` produces the server's bytes (None = no reply is sent,
    /// the future is expected to stay pending and `Stuck` is returned).
    pub fn exchange<O, F, R>(&mut self, build_fn: F, mk_reply: R) -> Exchange<<O::Reply as IntoResult>::Ok>
    where
        O: Operation,
        F: FnOnce(O::Builder<'_>) -> Result<O, netconf::Error> + Send,
        R: FnOnce(Option<&str>) -> Option<Vec<u8>>,
    {
        let before = self.wire.lock().sent.len();
        let session = &mut self.session;
        let fut = match catch_unwind(AssertUnwindSafe(|| drive(session.rpc::<O, F>(build_fn), 64))) {
            Ok(Some(Ok(fut))) => fut,
            Ok(Some(Err(e))) => {
                let sent = self.wire.lock().sent.len() > before;
                return Exchange::BuildErr { err: format!("{e:?}"), sent };
            }
            Ok(None) => return Exchange::Stuck { request: vec![] },
            Err(p) => return Exchange::Panic { msg: panic_message(p) },
        };
        let request = self.wire.lock().sent.last().cloned().unwrap_or_default();
        let message_id = memwire::request_message_id_lenient(&request);
        if let Some(reply) = mk_reply(message_id.as_deref()) {
            self.wire.deliver(reply);
        }
        match catch_unwind(AssertUnwindSafe(|| drive(fut, 64))) {
            Ok(Some(result)) => Exchange::Reply { request, message_id, result },
            Ok(None) => Exchange::Stuck { request },
            Err(p) => Exchange::Panic { msg: panic_message(p) },
        }
    }

    pub fn sent_count(&self) -> usize {
        self.wire.lock().sent.len()
    }
}

/// convenience for operations whose builder needs no parameters
pub fn finish<'a, O: Operation>(b: O::Builder<'a>) -> Result<O, netconf::Error> {
    b.finish()
}
