//! Further real-transport case kinds run by the worker: framing after the hello (C12b), dropping
//! the reading future while a message has partly arrived (C18b), credentials in logs (C20).

use crate::memwire::MARKER;
use crate::peers::{self, CloseManner, Endpoint, Listener, Tr};
use crate::realwire::{hello_bytes, reply_bytes};
use crate::secrets;
use crate::trace;
use crate::util::clip;
use netconf::message::rpc::operation::{Builder, Get};
use netconf::Session;
use serde_json::{json, Value};
use std::time::Duration;

pub async fn run_other(kind: &str, case: &Value) -> Value {
    match kind {
        "framing" => run_framing(case).await,
        "drop-partial" => run_drop_partial(case).await,
        "creds" => run_creds(case).await,
        "demux" => run_demux(case).await,
        "drop-close" => run_drop_close(case).await,
        "backlog" => run_backlog(case).await,
        "oversized" => run_oversized(case).await,
        "big-request" => run_big_request(case).await,
        _ => json!({"verdict": "harness-error", "why": format!("unknown case kind {kind}")}),
    }
}

async fn connect_tls(port: u16) -> Result<Session<netconf::transport::Tls>, netconf::Error> {
    Session::tls(("127.0.0.1", port), "localhost", peers::read_pem_cert("ca.crt"), peers::read_pem_cert("client.crt"), peers::read_pem_key("client.key")).await
}

fn chunked(msg: &[u8]) -> Vec<u8> {
    // RFC 6242 4.2: \n#<len>\n<data>\n##\n
    let body = msg.strip_suffix(MARKER.as_bytes()).unwrap_or(msg);
    let mut v = format!("\n#{}\n", body.len()).into_bytes();
    v.extend_from_slice(body);
    v.extend_from_slice(b"\n##\n");
    v
}

/// C12b: a conforming server switches to chunked framing after the hello exchange iff both
/// peers advertised :base:1.1. An established session must be usable with it.
async fn run_framing(case: &Value) -> Value {
    let tr = Tr::parse(case["tr"].as_str().unwrap_or("tls")).unwrap();
    let server_caps: Vec<&str> = case["server_versions"].as_array().map(|a| a.iter().filter_map(|v| v.as_str()).collect()).unwrap_or_default();
    let mut caps: Vec<String> = server_caps.iter().map(|v| format!("urn:ietf:params:netconf:base:{v}")).collect();
    caps.push("urn:ietf:params:netconf:capability:candidate:1.0".into());
    // a hello of an exact total length (module capabilities make hellos of tens of kilobytes):
    // sent in one write, the transport cuts it where its own packet size ends
    if let Some(target) = case["hello_len"].as_u64() {
        let target = target as usize;
        let base_len = {
            let mut c = caps.clone();
            c.push("urn:vh:pad:".into());
            let refs: Vec<&str> = c.iter().map(String::as_str).collect();
            hello_bytes(&refs).len()
        };
        let mut rest = target.saturating_sub(base_len);
        // several capabilities of at most 200 characters, the last one takes what is left
        let per_cap_overhead = {
            let mut c = caps.clone();
            c.push("urn:vh:pad:".into());
            c.push("urn:vh:pad:".into());
            let refs: Vec<&str> = c.iter().map(String::as_str).collect();
            hello_bytes(&refs).len() - base_len
        };
        let mut pads: Vec<String> = Vec::new();
        while rest > 200 + per_cap_overhead {
            pads.push(format!("urn:vh:pad:{}", "x".repeat(200)));
            rest -= 200 + per_cap_overhead;
        }
        pads.push(format!("urn:vh:pad:{}", "y".repeat(rest)));
        caps.extend(pads);
    }
    let cap_refs: Vec<&str> = caps.iter().map(String::as_str).collect();
    let hello = hello_bytes(&cap_refs);
    if let Some(target) = case["hello_len"].as_u64() {
        if hello.len() != target as usize {
            return json!({"verdict": "harness-error", "why": format!("hello of {} bytes instead of {target}", hello.len())});
        }
    }
    let mut lis = match Listener::bind(tr).await {
        Ok(l) => l,
        Err(e) => return json!({"verdict": "harness-error", "why": format!("bind: {e}")}),
    };
    let ep = lis.endpoint.clone();
    let pw = lis.ssh_password.clone();
    let cl = tokio::spawn(async move {
        async fn go<T: netconf::transport::Transport>(s: Result<Session<T>, netconf::Error>) -> (Result<String, String>, Option<Result<String, String>>) {
            match s {
                Err(e) => (Err(format!("{e:?}")), None),
                Ok(mut s) => {
                    let ctx = crate::sched::context_info(&s);
                    let r = match tokio::time::timeout(Duration::from_secs(3), async {
                        let f = s.rpc::<Get, _>(|b| b.finish()).await?;
                        f.await
                    })
                    .await
                    {
                        Ok(Ok(v)) => Ok(v.to_string()),
                        Ok(Err(e)) => Err(format!("{e:?}")),
                        Err(_) => Err("TIMEOUT".into()),
                    };
                    (Ok(ctx), Some(r))
                }
            }
        }
        let to = Duration::from_secs(6);
        match (tr, ep) {
            (Tr::Tls, Endpoint::Tcp(p)) => match tokio::time::timeout(to, connect_tls(p)).await {
                Ok(s) => go(s).await,
                Err(_) => (Err("TIMEOUT".into()), None),
            },
            (Tr::Ssh, Endpoint::Tcp(p)) => match tokio::time::timeout(to, Session::ssh(("127.0.0.1", p), "vh".to_string(), pw.parse().unwrap())).await {
                Ok(s) => go(s).await,
                Err(_) => (Err("TIMEOUT".into()), None),
            },
            (Tr::Cli, Endpoint::Unix(path)) => {
                let exe = std::env::current_exe().unwrap().to_string_lossy().into_owned();
                let p = path.to_string_lossy().into_owned();
                match tokio::time::timeout(to, Session::verif_junos_local(&exe, &["fake-cli", &p])).await {
                    Ok(s) => go(s).await,
                    Err(_) => (Err("TIMEOUT".into()), None),
                }
            }
            _ => (Err("harness".into()), None),
        }
    });
    let mut conn = match tokio::time::timeout(Duration::from_secs(8), lis.accept()).await {
        Ok(Ok(c)) => c,
        other => return json!({"verdict": "harness-error", "why": format!("accept: {:?}", other.map(|r| r.map(|_| ())))}),
    };
    let _ = conn.send_unit(&hello).await;
    let mut from_client = Vec::new();
    // client hello (always end-of-message framed)
    let got_hello = conn.read_messages(&mut from_client, 1, Duration::from_secs(4)).await;
    let client_hello = String::from_utf8_lossy(&from_client).into_owned();
    let client_11 = client_hello.contains("urn:ietf:params:netconf:base:1.1");
    let client_10 = client_hello.contains("urn:ietf:params:netconf:base:1.0");
    let both_11 = client_11 && server_caps.contains(&"1.1");
    let common = both_11 || (client_10 && server_caps.contains(&"1.0"));
    // the request
    // the request may already have arrived together with the client hello
    let after_hello = from_client.windows(6).position(|w| w == MARKER.as_bytes()).map_or(from_client.len(), |p| p + 6);
    let mut request_framing = "none";
    if got_hello && common {
        // wait for request bytes in either framing
        let t0 = std::time::Instant::now();
        loop {
            let rest = &from_client[after_hello.min(from_client.len())..];
            let rest_s = String::from_utf8_lossy(rest);
            if rest_s.trim_start().starts_with('#') || rest.starts_with(b"\n#") {
                if rest.ends_with(b"\n##\n") {
                    request_framing = "chunked";
                    break;
                }
            } else if rest.windows(6).any(|w| w == MARKER.as_bytes()) {
                request_framing = "end-of-message";
                break;
            }
            if t0.elapsed() > Duration::from_secs(2) || !conn.read_some(&mut from_client, Duration::from_millis(50)).await {
                break;
            }
        }
        let want = if both_11 { "chunked" } else { "end-of-message" };
        if request_framing == want {
            let r = reply_bytes(1, "framing-tag", 0, false);
            let _ = conn.send_unit(&if both_11 { chunked(&r) } else { r }).await;
        }
        // a conforming server cannot parse a request in the wrong framing: it does not answer
    }
    let (establish, rpc) = tokio::time::timeout(Duration::from_secs(10), cl).await.ok().and_then(Result::ok).unwrap_or((Err("client task lost".into()), None));
    conn.close(CloseManner::Clean).await;
    let established = establish.is_ok();
    let mut symptoms: Vec<String> = Vec::new();
    if established != common {
        symptoms.push(format!("established={established}-but-common-version={common}"));
    }
    if established {
        let want = if both_11 { "V1_1" } else { "V1_0" };
        if !establish.as_ref().map_or(false, |c| c.contains(want)) {
            symptoms.push("negotiated-version-not-highest-common".into());
        }
        match &rpc {
            Some(Ok(v)) if v.starts_with("framing-tag") => {}
            _ => symptoms.push(if both_11 { "base-1.1-negotiated-but-session-unusable-with-chunked-framing".into() } else { "first-rpc-failed".to_string() }),
        }
    }
    json!({
        "verdict": if symptoms.is_empty() { "held" } else { "violated" }, "symptoms": symptoms,
        "server_versions": server_caps, "client_advertised": {"1.0": client_10, "1.1": client_11}, "establish": establish.as_ref().map(|c| clip(c, 100)).map_err(|e| clip(e, 200)),
        "request_framing_seen_by_server": request_framing, "first_rpc": rpc.map(|r| r.map(|v| clip(&v, 60)).map_err(|e| clip(&e, 200))),
    })
}

/// C18b: drop the future that is reading from the transport while a message has partly arrived.
async fn run_drop_partial(case: &Value) -> Value {
    let tr = Tr::parse(case["tr"].as_str().unwrap_or("tls")).unwrap();
    let which = case["drop"].as_u64().unwrap_or(0) as usize; // which of the 2 outstanding futures is the (dropped) reader
    let cut_frac = case["fraction"].as_u64().unwrap_or(2) as usize;
    let hello = hello_bytes(&["urn:ietf:params:netconf:base:1.0"]);
    let mut lis = match Listener::bind(tr).await {
        Ok(l) => l,
        Err(e) => return json!({"verdict": "harness-error", "why": format!("bind: {e}")}),
    };
    let ep = lis.endpoint.clone();
    let pw = lis.ssh_password.clone();
    let cl = tokio::spawn(async move {
        async fn go<T: netconf::transport::Transport + 'static>(s: Result<Session<T>, netconf::Error>, which: usize) -> Value {
            let mut s = match s {
                Ok(s) => s,
                Err(e) => return json!({"establish": format!("{e:?}")}),
            };
            let f0 = s.rpc::<Get, _>(|b| b.finish()).await;
            let f1 = s.rpc::<Get, _>(|b| b.finish()).await;
            let (Ok(f0), Ok(f1)) = (f0, f1) else { return json!({"establish": "rpc failed"}) };
            tracing::info!(target: "vh::client", "requests-sent");
            type BF = std::pin::Pin<Box<dyn std::future::Future<Output = Result<netconf::message::rpc::operation::Opaque, netconf::Error>> + Send>>;
            let (f0, f1): (BF, BF) = (Box::pin(f0), Box::pin(f1));
            let (dropped, survivor) = if which == 0 { (f0, f1) } else { (f1, f0) };
            // poll the reader until the partial message has been consumed, then drop it
            let r = tokio::time::timeout(Duration::from_millis(400), dropped).await;
            let dropped_state = if r.is_err() { "dropped-while-reading" } else { "resolved-before-drop" };
            tracing::info!(target: "vh::client", "reader-dropped");
            let surv = match tokio::time::timeout(Duration::from_secs(3), survivor).await {
                Ok(Ok(v)) => format!("ok:{v}"),
                Ok(Err(e)) => format!("err:{e:?}"),
                Err(_) => "timeout".into(),
            };
            let fresh = match tokio::time::timeout(Duration::from_secs(3), async {
                let f = s.rpc::<Get, _>(|b| b.finish()).await?;
                f.await
            })
            .await
            {
                Ok(Ok(v)) => format!("ok:{v}"),
                Ok(Err(e)) => format!("err:{e:?}"),
                Err(_) => "timeout".into(),
            };
            json!({"establish": "ok", "dropped": dropped_state, "survivor": surv, "fresh": fresh})
        }
        let to = Duration::from_secs(6);
        match (tr, ep) {
            (Tr::Tls, Endpoint::Tcp(p)) => match tokio::time::timeout(to, connect_tls(p)).await {
                Ok(s) => go(s, which).await,
                Err(_) => json!({"establish": "TIMEOUT"}),
            },
            (Tr::Ssh, Endpoint::Tcp(p)) => match tokio::time::timeout(to, Session::ssh(("127.0.0.1", p), "vh".to_string(), pw.parse().unwrap())).await {
                Ok(s) => go(s, which).await,
                Err(_) => json!({"establish": "TIMEOUT"}),
            },
            (Tr::Cli, Endpoint::Unix(path)) => {
                let exe = std::env::current_exe().unwrap().to_string_lossy().into_owned();
                let p = path.to_string_lossy().into_owned();
                match tokio::time::timeout(to, Session::verif_junos_local(&exe, &["fake-cli", &p])).await {
                    Ok(s) => go(s, which).await,
                    Err(_) => json!({"establish": "TIMEOUT"}),
                }
            }
            _ => json!({"establish": "harness"}),
        }
    });
    let mut conn = match tokio::time::timeout(Duration::from_secs(8), lis.accept()).await {
        Ok(Ok(c)) => c,
        other => return json!({"verdict": "harness-error", "why": format!("accept: {:?}", other.map(|r| r.map(|_| ())))}),
    };
    let _ = conn.send_unit(&hello).await;
    let mut from_client = Vec::new();
    let got = conn.read_messages(&mut from_client, 3, Duration::from_secs(4)).await;
    // the reply that the *dropped* reader will be in the middle of: the other request's reply comes
    // first on the wire, so that the reader has to take someone else's message
    let first_id = if which == 0 { 2 } else { 1 };
    let r_first = reply_bytes(first_id, &format!("tag-{first_id}"), 64, false);
    let second_id = 3 - first_id;
    let r_second = reply_bytes(second_id, &format!("tag-{second_id}"), 0, false);
    let cut = (r_first.len() * cut_frac / 4).clamp(1, r_first.len() - 1);
    let _ = conn.send_unit(&r_first[..cut]).await;
    // wait until the client dropped its reader
    let t0 = std::time::Instant::now();
    while !trace::snapshot().iter().any(|e| e.target == "vh::client" && e.msg.starts_with("reader-dropped")) && t0.elapsed() < Duration::from_secs(3) {
        tokio::time::sleep(Duration::from_millis(5)).await;
    }
    let _ = conn.send_unit(&r_first[cut..]).await;
    let _ = conn.send_unit(&r_second).await;
    // the fresh rpc (message-id 3)
    let _ = conn.read_messages(&mut from_client, 4, Duration::from_secs(4)).await;
    let _ = conn.send_unit(&reply_bytes(3, "tag-3", 0, false)).await;
    let out = tokio::time::timeout(Duration::from_secs(12), cl).await.ok().and_then(Result::ok).unwrap_or(json!({"establish": "client task lost"}));
    conn.close(CloseManner::Clean).await;
    let survivor_id = if which == 0 { 2 } else { 1 };
    let mut symptoms = Vec::new();
    if out["establish"] != "ok" || !got {
        return json!({"verdict": "not-exercised", "why": format!("setup: {out}")});
    }
    if out["dropped"] != "dropped-while-reading" {
        return json!({"verdict": "not-exercised", "why": "the reader resolved before it could be dropped", "client": out});
    }
    if !out["survivor"].as_str().map_or(false, |s| s.starts_with(&format!("ok:tag-{survivor_id}"))) {
        symptoms.push("survivor-did-not-get-its-reply");
    }
    if !out["fresh"].as_str().map_or(false, |s| s.starts_with("ok:tag-3")) {
        symptoms.push("session-unusable-after-drop");
    }
    json!({"verdict": if symptoms.is_empty() { "held" } else { "violated" }, "symptoms": symptoms, "client": out, "cut_at": cut, "reply_len": r_first.len()})
}

/// C20: connect with secrets while the complete TRACE output is captured; search it.
static USED_KEYS: std::sync::Mutex<Vec<String>> = std::sync::Mutex::new(Vec::new());

async fn run_creds(case: &Value) -> Value {
    let tr = Tr::parse(case["tr"].as_str().unwrap_or("ssh")).unwrap();
    let outcome = case["outcome"].as_str().unwrap_or("success").to_string();
    let password = case["password"].as_str().unwrap_or("pw").to_string();
    let key_file = case["key"].as_str().unwrap_or("client.key").to_string();
    let cert_file = case["cert"].as_str().unwrap_or("client.crt").to_string();
    let hello = hello_bytes(&["urn:ietf:params:netconf:base:1.0"]);
    let mut lis = match Listener::bind(tr).await {
        Ok(l) => l,
        Err(e) => return json!({"verdict": "harness-error", "why": format!("bind: {e}")}),
    };
    if outcome != "wrong-password" {
        lis.ssh_password = password.clone();
    }
    lis.ssh_auth_hangup = outcome == "server-hangs-up-on-the-password-request";
    let ep = lis.endpoint.clone();
    trace::set_text(true);
    let (pw2, kf, cf, oc) = (password.clone(), key_file.clone(), cert_file.clone(), outcome.clone());
    let cl = tokio::spawn(async move {
        async fn go<T: netconf::transport::Transport>(s: Result<Session<T>, netconf::Error>) -> String {
            match s {
                Err(e) => format!("establish-error: {e:?}"),
                Ok(mut s) => {
                    let r = tokio::time::timeout(Duration::from_secs(2), async {
                        let f = s.rpc::<Get, _>(|b| b.finish()).await?;
                        f.await
                    })
                    .await;
                    format!("established; rpc: {}", match r { Ok(Ok(_)) => "ok".to_string(), Ok(Err(e)) => format!("{e:?}"), Err(_) => "timeout".into() })
                }
            }
        }
        let to = Duration::from_secs(6);
        match (tr, ep) {
            (Tr::Tls, Endpoint::Tcp(p)) => {
                let ca = if oc == "untrusted-ca" { "other-ca.crt" } else { "ca.crt" };
                let s = tokio::time::timeout(to, Session::tls(("127.0.0.1", p), "localhost", peers::read_pem_cert(ca), peers::read_pem_cert(&cf), peers::read_pem_key(&kf))).await;
                match s {
                    Ok(s) => go(s).await,
                    Err(_) => "establish-timeout".into(),
                }
            }
            (Tr::Ssh, Endpoint::Tcp(p)) => match tokio::time::timeout(to, Session::ssh(("127.0.0.1", p), "vh-user".to_string(), pw2.parse().unwrap())).await {
                Ok(s) => go(s).await,
                Err(_) => "establish-timeout".into(),
            },
            (Tr::Cli, Endpoint::Unix(path)) => {
                let exe = std::env::current_exe().unwrap().to_string_lossy().into_owned();
                let p = path.to_string_lossy().into_owned();
                match tokio::time::timeout(to, Session::verif_junos_local(&exe, &["fake-cli", &p])).await {
                    Ok(s) => go(s).await,
                    Err(_) => "establish-timeout".into(),
                }
            }
            _ => "harness".into(),
        }
    });
    let accepted = tokio::time::timeout(Duration::from_secs(5), lis.accept()).await;
    if let Ok(Ok(mut conn)) = accepted {
        if outcome == "peer-closes-during-hello" {
            let _ = conn.send_unit(&hello[..hello.len() / 2]).await;
            conn.close(CloseManner::Abrupt).await;
        } else {
            let _ = conn.send_unit(&hello).await;
            let mut from_client = Vec::new();
            let _ = conn.read_messages(&mut from_client, 2, Duration::from_secs(3)).await;
            let _ = conn.send_unit(&reply_bytes(1, "x", 0, false)).await;
            tokio::time::sleep(Duration::from_millis(50)).await;
            conn.close(CloseManner::Clean).await;
        }
    }
    let client = tokio::time::timeout(Duration::from_secs(10), cl).await.ok().and_then(Result::ok).unwrap_or_else(|| "client task lost".into());
    tokio::time::sleep(Duration::from_millis(30)).await;
    trace::set_text(false);
    let text = trace::text();
    // what must not appear
    let mut secrets_list: Vec<(String, Vec<u8>)> = Vec::new();
    match tr {
        Tr::Ssh => secrets_list.push(("ssh-password".into(), password.as_bytes().to_vec())),
        Tr::Tls => {
            // the key of this attempt - and every other client key this process has handed to the
            // library before (a worker runs many attempts: what one attempt was given must not
            // turn up in the log of a later one either)
            let dir = peers::fixtures().join("pki");
            let public: Vec<Vec<u8>> = peers::PUBLIC_CERTS.iter().map(|c| secrets::pem_der(&std::fs::read(dir.join(c)).unwrap_or_default())).collect();
            let mut keys: Vec<String> = vec![key_file.clone()];
            {
                let mut used = USED_KEYS.lock().unwrap_or_else(|e| e.into_inner());
                for k in used.iter() {
                    if !keys.contains(k) {
                        keys.push(k.clone());
                    }
                }
                if !used.contains(&key_file) {
                    used.push(key_file.clone());
                }
            }
            for (n, kf) in keys.iter().enumerate() {
                let der = secrets::pem_der(&std::fs::read(dir.join(kf)).unwrap_or_default());
                for (k, seg) in secrets::sensitive_segments(&der, &public).into_iter().enumerate() {
                    let label = if n == 0 { format!("tls-client-key:der-segment-{k}") } else { format!("tls-client-key-of-an-earlier-attempt:{kf}:der-segment-{k}") };
                    secrets_list.push((label, seg));
                }
            }
        }
        Tr::Cli => {}
    }
    let mut hits = Vec::new();
    for (name, s) in &secrets_list {
        for h in secrets::search(&text, s) {
            let line = secrets::line_at(&text, h.offset);
            hits.push(json!({"secret": name, "encoding": h.encoding, "window": h.window, "target": secrets::target_of(&line), "line": clip(&line, 400)}));
        }
    }
    json!({
        "verdict": if hits.is_empty() { "held" } else { "violated" },
        "hits": hits.iter().take(6).collect::<Vec<_>>(), "hit_count": hits.len(), "log_bytes": text.len(), "log_lines": text.iter().filter(|b| **b == b'\n').count(),
        "client": clip(&client, 300), "secrets_checked": secrets_list.iter().map(|(n, s)| format!("{n} ({} bytes)", s.len())).collect::<Vec<_>>(),
    })
}


/// C05 over the real transports: `rounds` batches of `n` pipelined requests on one session; the
/// server answers each batch in a scripted permutation, the replies cut into scripted units
/// (several replies or parts of replies per TLS record / channel-data packet / pipe write). The
/// reply futures are awaited in issue order, in reverse order, or as concurrently spawned tasks.
async fn run_demux(case: &Value) -> Value {
    let tr = Tr::parse(case["tr"].as_str().unwrap_or("tls")).unwrap();
    let n = case["n"].as_u64().unwrap_or(3) as usize;
    let rounds = case["rounds"].as_u64().unwrap_or(1) as usize;
    let mode = case["await"].as_str().unwrap_or("in-order").to_string();
    let seed = case["seed"].as_u64().unwrap_or(0);
    let cid = case["id"].as_u64().unwrap_or(0);
    let hello = hello_bytes(&["urn:ietf:params:netconf:base:1.0"]);
    let mut lis = match Listener::bind(tr).await {
        Ok(l) => l,
        Err(e) => return json!({"verdict": "harness-error", "why": format!("bind: {e}")}),
    };
    let ep = lis.endpoint.clone();
    let pw = lis.ssh_password.clone();
    let mode2 = mode.clone();
    let cl = tokio::spawn(async move {
        async fn go<T: netconf::transport::Transport + 'static>(s: Result<Session<T>, netconf::Error>, n: usize, rounds: usize, mode: &str) -> Value {
            let mut s = match s {
                Ok(s) => s,
                Err(e) => return json!({"establish": format!("{e:?}")}),
            };
            type BF = std::pin::Pin<Box<dyn std::future::Future<Output = Result<netconf::message::rpc::operation::Opaque, netconf::Error>> + Send>>;
            let mut all: Vec<Vec<String>> = Vec::new();
            for _ in 0..rounds {
                let mut futs: Vec<BF> = Vec::new();
                for _ in 0..n {
                    match s.rpc::<Get, _>(|b| b.finish()).await {
                        Ok(f) => futs.push(Box::pin(f)),
                        Err(e) => return json!({"establish": format!("rpc failed: {e:?}")}),
                    }
                }
                tracing::info!(target: "vh::client", "requests-sent");
                let to = Duration::from_secs(4);
                let show = |r: Result<Result<netconf::message::rpc::operation::Opaque, netconf::Error>, tokio::time::error::Elapsed>| match r {
                    Ok(Ok(v)) => format!("ok:{v}"),
                    Ok(Err(e)) => format!("err:{e:?}"),
                    Err(_) => "timeout".to_string(),
                };
                let mut res: Vec<String> = vec![String::new(); n];
                match mode {
                    "spawned" => {
                        let hs: Vec<_> = futs.into_iter().map(|f| tokio::spawn(async move { tokio::time::timeout(to, f).await })).collect();
                        for (k, h) in hs.into_iter().enumerate() {
                            res[k] = match h.await {
                                Ok(r) => show(r),
                                Err(e) => format!("panic:{e}"),
                            };
                        }
                    }
                    "reverse" => {
                        for (k, f) in futs.into_iter().enumerate().rev() {
                            res[k] = show(tokio::time::timeout(to, f).await);
                        }
                    }
                    _ => {
                        for (k, f) in futs.into_iter().enumerate() {
                            res[k] = show(tokio::time::timeout(to, f).await);
                        }
                    }
                }
                tracing::info!(target: "vh::client", "round-done");
                all.push(res);
            }
            json!({"establish": "ok", "rounds": all})
        }
        let to = Duration::from_secs(6);
        match (tr, ep) {
            (Tr::Tls, Endpoint::Tcp(p)) => match tokio::time::timeout(to, connect_tls(p)).await {
                Ok(s) => go(s, n, rounds, &mode2).await,
                Err(_) => json!({"establish": "TIMEOUT"}),
            },
            (Tr::Ssh, Endpoint::Tcp(p)) => match tokio::time::timeout(to, Session::ssh(("127.0.0.1", p), "vh".to_string(), pw.parse().unwrap())).await {
                Ok(s) => go(s, n, rounds, &mode2).await,
                Err(_) => json!({"establish": "TIMEOUT"}),
            },
            (Tr::Cli, Endpoint::Unix(path)) => {
                let exe = std::env::current_exe().unwrap().to_string_lossy().into_owned();
                let p = path.to_string_lossy().into_owned();
                match tokio::time::timeout(to, Session::verif_junos_local(&exe, &["fake-cli", &p])).await {
                    Ok(s) => go(s, n, rounds, &mode2).await,
                    Err(_) => json!({"establish": "TIMEOUT"}),
                }
            }
            _ => json!({"establish": "harness"}),
        }
    });
    let mut conn = match tokio::time::timeout(Duration::from_secs(8), lis.accept()).await {
        Ok(Ok(c)) => c,
        other => return json!({"verdict": "harness-error", "why": format!("accept: {:?}", other.map(|r| r.map(|_| ())))}),
    };
    let _ = conn.send_unit(&hello).await;
    let mut r = crate::util::Prng::derive(seed, "demux", cid);
    let mut from_client = Vec::new();
    let mut seen_ids: Vec<String> = Vec::new();
    let mut expected: Vec<Vec<String>> = Vec::new();
    let mut script: Vec<Value> = Vec::new();
    let mut setup_problem: Option<String> = None;
    for round in 0..rounds {
        // client hello + all requests so far
        if !conn.read_messages(&mut from_client, 1 + (round + 1) * n, Duration::from_secs(5)).await {
            setup_problem = Some(format!("round {round}: the client's requests did not arrive"));
            break;
        }
        let msgs: Vec<&[u8]> = from_client.split_inclusive_marker();
        let ids: Vec<String> = msgs.iter().skip(1 + round * n).take(n).filter_map(|m| crate::memwire::request_message_id_lenient(m)).collect();
        if ids.len() != n {
            setup_problem = Some(format!("round {round}: {} message-ids found in {} requests", ids.len(), n));
            break;
        }
        let tags: Vec<String> = (0..n).map(|k| format!("tag-{cid}-{round}-{k}")).collect();
        let mut order: Vec<usize> = (0..n).collect();
        r.shuffle(&mut order);
        let mut stream = Vec::new();
        for &k in &order {
            let pad = *r.pick(&[0usize, 0, 16, 300, 5000, 70_000]);
            let idn: usize = ids[k].parse().unwrap_or(0);
            stream.extend(reply_bytes(idn, &tags[k], pad, false));
        }
        let mut cuts: Vec<usize> = Vec::new();
        match r.below(4) {
            0 => {}                                                        // everything in one unit
            1 => cuts = crate::realwire::delimiter_ends(&stream),          // one reply per unit
            _ => {
                for _ in 0..r.range(1, 5) {
                    cuts.push(r.below(stream.len()));
                }
            }
        }
        // every other batch: one more cut strictly inside one of the delimiters
        if r.chance(1, 2) {
            let ends = crate::realwire::delimiter_ends(&stream);
            let e = ends[r.below(ends.len())];
            cuts.push(e - r.range(1, 5));
        }
        cuts.retain(|c| *c > 0 && *c < stream.len());
        cuts.sort_unstable();
        cuts.dedup();
        let mut prev = 0;
        for c in cuts.iter().chain(std::iter::once(&stream.len())) {
            let _ = conn.send_unit(&stream[prev..*c]).await;
            prev = *c;
            if r.chance(1, 2) {
                tokio::time::sleep(Duration::from_millis(r.below(4) as u64)).await;
            }
        }
        script.push(json!({"round": round, "request_ids": ids, "reply_order": order, "cuts": cuts, "stream_len": stream.len()}));
        seen_ids.extend(ids);
        expected.push(tags);
        // the next batch is issued only after this one has been resolved
        let t0 = std::time::Instant::now();
        while trace::snapshot().iter().filter(|e| e.target == "vh::client" && e.msg.starts_with("round-done")).count() <= round && t0.elapsed() < Duration::from_secs(10) {
            tokio::time::sleep(Duration::from_millis(2)).await;
        }
    }
    let out = tokio::time::timeout(Duration::from_secs(15), cl).await.ok().and_then(Result::ok).unwrap_or(json!({"establish": "client task lost"}));
    conn.close(CloseManner::Clean).await;
    if out["establish"] != "ok" {
        return json!({"verdict": "not-exercised", "why": format!("setup: {out} {setup_problem:?}")});
    }
    let mut symptoms: Vec<String> = Vec::new();
    let mut uniq = seen_ids.clone();
    uniq.sort();
    uniq.dedup();
    if uniq.len() != seen_ids.len() {
        symptoms.push("message-id-reused".into());
    }
    let mut checked = 0;
    for (round, tags) in expected.iter().enumerate() {
        for (k, tag) in tags.iter().enumerate() {
            checked += 1;
            let got = out["rounds"][round][k].as_str().unwrap_or("missing");
            if got.starts_with(&format!("ok:{tag}")) {
            } else if got.starts_with("ok:") {
                symptoms.push("someone-elses-reply".into());
            } else if got == "timeout" {
                symptoms.push("left-waiting".into());
            } else {
                symptoms.push("error-instead-of-reply".into());
            }
        }
    }
    symptoms.sort();
    symptoms.dedup();
    if let (Some(p), true) = (&setup_problem, symptoms.is_empty()) {
        return json!({"verdict": "not-exercised", "why": p});
    }
    json!({"verdict": if symptoms.is_empty() { "held" } else { "violated" }, "symptoms": symptoms, "client": out, "script": script, "replies_checked": checked})
}

trait SplitMarker {
    fn split_inclusive_marker(&self) -> Vec<&[u8]>;
}

impl SplitMarker for Vec<u8> {
    fn split_inclusive_marker(&self) -> Vec<&[u8]> {
        let mut v = Vec::new();
        let mut prev = 0;
        for e in crate::realwire::delimiter_ends(self) {
            v.push(&self[prev..e]);
            prev = e;
        }
        v
    }
}


/// C18: the abandoned reply future is the one returned by `Session::close()` (it owns the session
/// object). An earlier request is still outstanding; its reply arrives only after the drop.
async fn run_drop_close(case: &Value) -> Value {
    let tr = Tr::parse(case["tr"].as_str().unwrap_or("tls")).unwrap();
    let polled = case["polled"].as_bool().unwrap_or(false);
    let hello = hello_bytes(&["urn:ietf:params:netconf:base:1.0"]);
    let mut lis = match Listener::bind(tr).await {
        Ok(l) => l,
        Err(e) => return json!({"verdict": "harness-error", "why": format!("bind: {e}")}),
    };
    let ep = lis.endpoint.clone();
    let pw = lis.ssh_password.clone();
    let cl = tokio::spawn(async move {
        async fn go<T: netconf::transport::Transport + 'static>(s: Result<Session<T>, netconf::Error>, polled: bool) -> Value {
            let mut s = match s {
                Ok(s) => s,
                Err(e) => return json!({"establish": format!("{e:?}")}),
            };
            let Ok(f1) = s.rpc::<Get, _>(|b| b.finish()).await else { return json!({"establish": "rpc failed"}) };
            let fclose = match s.close().await {
                Ok(f) => f,
                Err(e) => return json!({"establish": format!("close(): {e:?}")}),
            };
            tracing::info!(target: "vh::client", "requests-sent");
            let state = if polled {
                // it becomes the reader, then is abandoned
                let r = tokio::time::timeout(Duration::from_millis(150), fclose).await;
                if r.is_err() { "dropped-while-reading" } else { "resolved-before-drop" }
            } else {
                drop(fclose);
                "dropped-unpolled"
            };
            tracing::info!(target: "vh::client", "close-dropped");
            let surv = match tokio::time::timeout(Duration::from_secs(3), f1).await {
                Ok(Ok(v)) => format!("ok:{v}"),
                Ok(Err(e)) => format!("err:{e:?}"),
                Err(_) => "timeout".into(),
            };
            json!({"establish": "ok", "close_future": state, "survivor": surv})
        }
        let to = Duration::from_secs(6);
        match (tr, ep) {
            (Tr::Tls, Endpoint::Tcp(p)) => match tokio::time::timeout(to, connect_tls(p)).await {
                Ok(s) => go(s, polled).await,
                Err(_) => json!({"establish": "TIMEOUT"}),
            },
            (Tr::Ssh, Endpoint::Tcp(p)) => match tokio::time::timeout(to, Session::ssh(("127.0.0.1", p), "vh".to_string(), pw.parse().unwrap())).await {
                Ok(s) => go(s, polled).await,
                Err(_) => json!({"establish": "TIMEOUT"}),
            },
            (Tr::Cli, Endpoint::Unix(path)) => {
                let exe = std::env::current_exe().unwrap().to_string_lossy().into_owned();
                let p = path.to_string_lossy().into_owned();
                match tokio::time::timeout(to, Session::verif_junos_local(&exe, &["fake-cli", &p])).await {
                    Ok(s) => go(s, polled).await,
                    Err(_) => json!({"establish": "TIMEOUT"}),
                }
            }
            _ => json!({"establish": "harness"}),
        }
    });
    let mut conn = match tokio::time::timeout(Duration::from_secs(8), lis.accept()).await {
        Ok(Ok(c)) => c,
        other => return json!({"verdict": "harness-error", "why": format!("accept: {:?}", other.map(|r| r.map(|_| ())))}),
    };
    let _ = conn.send_unit(&hello).await;
    let mut from_client = Vec::new();
    // client hello, <get>, <close-session>
    let got = conn.read_messages(&mut from_client, 3, Duration::from_secs(4)).await;
    // the router is slow: nothing is answered until the close future has been abandoned
    let t0 = std::time::Instant::now();
    while !trace::snapshot().iter().any(|e| e.target == "vh::client" && e.msg.starts_with("close-dropped")) && t0.elapsed() < Duration::from_secs(3) {
        tokio::time::sleep(Duration::from_millis(5)).await;
    }
    tokio::time::sleep(Duration::from_millis(60)).await;
    let sent = conn.send_unit(&reply_bytes(1, "tag-1", 0, false)).await.is_ok();
    let out = tokio::time::timeout(Duration::from_secs(8), cl).await.ok().and_then(Result::ok).unwrap_or(json!({"establish": "client task lost"}));
    conn.close(CloseManner::Clean).await;
    if out["establish"] != "ok" || !got {
        return json!({"verdict": "not-exercised", "why": format!("setup: {out}")});
    }
    if out["close_future"] == "resolved-before-drop" {
        return json!({"verdict": "not-exercised", "why": "the close future resolved before it could be dropped", "client": out});
    }
    let mut symptoms = Vec::new();
    if !out["survivor"].as_str().map_or(false, |s| s.starts_with("ok:tag-1")) {
        symptoms.push("survivor-did-not-get-its-reply-after-the-close-future-was-dropped");
    }
    json!({"verdict": if symptoms.is_empty() { "held" } else { "violated" }, "symptoms": symptoms, "client": out, "reply_could_be_sent": sent})
}


/// C10 over the real transports: a request far larger than any pipe or socket buffer, then a small
/// one; the peer must receive each as one well-formed document followed by one delimiter, with the
/// payload unchanged.
async fn run_big_request(case: &Value) -> Value {
    use netconf::message::rpc::operation::junos::load_configuration::{Config, Merge, Text};
    use netconf::message::rpc::operation::junos::LoadConfiguration;
    let tr = Tr::parse(case["tr"].as_str().unwrap_or("tls")).unwrap();
    let size = case["size"].as_u64().unwrap_or(100_000) as usize;
    let hello = hello_bytes(&["urn:ietf:params:netconf:base:1.0", "http://xml.juniper.net/netconf/junos/1.0"]);
    let mut payload = String::with_capacity(size + 64);
    let unit = case["unit"].as_str().unwrap_or("set policy-options <&> \"q\" \u{e9}\u{65e5} ]]> ;\n");
    while payload.len() < size {
        payload.push_str(unit);
    }
    let mut lis = match Listener::bind(tr).await {
        Ok(l) => l,
        Err(e) => return json!({"verdict": "harness-error", "why": format!("bind: {e}")}),
    };
    let ep = lis.endpoint.clone();
    let pw = lis.ssh_password.clone();
    let p2 = payload.clone();
    let pipelined = case["pipelined"].as_bool().unwrap_or(false);
    let cl = tokio::spawn(async move {
        async fn go<T: netconf::transport::Transport + 'static>(s: Result<Session<T>, netconf::Error>, payload: String, pipelined: bool) -> Value {
            let mut s = match s {
                Ok(s) => s,
                Err(e) => return json!({"establish": format!("{e:?}")}),
            };
            let to = Duration::from_secs(8);
            if pipelined {
                // the small request is handed over directly behind the large one, before the
                // large one has been answered (and, on a transport that queues, before it has
                // been written out)
                let fb = tokio::time::timeout(to, s.rpc::<LoadConfiguration<Config<String, Text, Merge>>, _>(|b| b.source(Config::new(payload, Text, Merge)).finish())).await;
                let fs = tokio::time::timeout(to, s.rpc::<Get, _>(|b| b.finish())).await;
                let big = match fb {
                    Ok(Ok(f)) => match tokio::time::timeout(to, f).await {
                        Ok(Ok(())) => "ok".to_string(),
                        Ok(Err(e)) => format!("err:{e:?}"),
                        Err(_) => "reply-timeout".into(),
                    },
                    Ok(Err(e)) => format!("send-err:{e:?}"),
                    Err(_) => "send-timeout".into(),
                };
                let small = match fs {
                    Ok(Ok(f)) => match tokio::time::timeout(to, f).await {
                        Ok(Ok(v)) => format!("ok:{v}"),
                        Ok(Err(e)) => format!("err:{e:?}"),
                        Err(_) => "timeout".into(),
                    },
                    Ok(Err(e)) => format!("send-err:{e:?}"),
                    Err(_) => "send-timeout".into(),
                };
                return json!({"establish": "ok", "big": big, "small": small});
            }
            let big = match tokio::time::timeout(to, s.rpc::<LoadConfiguration<Config<String, Text, Merge>>, _>(|b| b.source(Config::new(payload, Text, Merge)).finish())).await {
                Ok(Ok(f)) => match tokio::time::timeout(to, f).await {
                    Ok(Ok(())) => "ok".to_string(),
                    Ok(Err(e)) => format!("err:{e:?}"),
                    Err(_) => "reply-timeout".into(),
                },
                Ok(Err(e)) => format!("send-err:{e:?}"),
                Err(_) => "send-timeout".into(),
            };
            let small = match tokio::time::timeout(to, async {
                let f = s.rpc::<Get, _>(|b| b.finish()).await?;
                f.await
            })
            .await
            {
                Ok(Ok(v)) => format!("ok:{v}"),
                Ok(Err(e)) => format!("err:{e:?}"),
                Err(_) => "timeout".into(),
            };
            json!({"establish": "ok", "big": big, "small": small})
        }
        let to = Duration::from_secs(6);
        match (tr, ep) {
            (Tr::Tls, Endpoint::Tcp(p)) => match tokio::time::timeout(to, connect_tls(p)).await {
                Ok(s) => go(s, p2, pipelined).await,
                Err(_) => json!({"establish": "TIMEOUT"}),
            },
            (Tr::Ssh, Endpoint::Tcp(p)) => match tokio::time::timeout(to, Session::ssh(("127.0.0.1", p), "vh".to_string(), pw.parse().unwrap())).await {
                Ok(s) => go(s, p2, pipelined).await,
                Err(_) => json!({"establish": "TIMEOUT"}),
            },
            (Tr::Cli, Endpoint::Unix(path)) => {
                let exe = std::env::current_exe().unwrap().to_string_lossy().into_owned();
                let p = path.to_string_lossy().into_owned();
                match tokio::time::timeout(to, Session::verif_junos_local(&exe, &["fake-cli", &p])).await {
                    Ok(s) => go(s, p2, pipelined).await,
                    Err(_) => json!({"establish": "TIMEOUT"}),
                }
            }
            _ => json!({"establish": "harness"}),
        }
    });
    let mut conn = match tokio::time::timeout(Duration::from_secs(8), lis.accept()).await {
        Ok(Ok(c)) => c,
        other => return json!({"verdict": "harness-error", "why": format!("accept: {:?}", other.map(|r| r.map(|_| ())))}),
    };
    let _ = conn.send_unit(&hello).await;
    let mut from_client = Vec::new();
    // client hello + the large request
    let got_big = conn.read_messages(&mut from_client, 2, Duration::from_secs(6)).await;
    let have = crate::realwire::delimiter_ends(&from_client).len();
    let mut symptoms: Vec<String> = Vec::new();
    if have >= 2 {
        if pipelined {
            // both requests are on their way: take them in before answering either
            let _ = conn.read_messages(&mut from_client, 3, Duration::from_secs(6)).await;
        }
        let _ = conn.send_unit(format!("<rpc-reply xmlns=\"{}\" message-id=\"1\"><load-configuration-results><ok/></load-configuration-results></rpc-reply>{MARKER}", crate::memwire::BASE_NS).as_bytes()).await;
        let _ = conn.read_messages(&mut from_client, 3, Duration::from_secs(6)).await;
        let _ = conn.send_unit(&reply_bytes(2, "tag-2", 0, false)).await;
    }
    let out = tokio::time::timeout(Duration::from_secs(30), cl).await.ok().and_then(Result::ok).unwrap_or(json!({"establish": "client task lost"}));
    conn.close(CloseManner::Clean).await;
    if out["establish"] != "ok" {
        return json!({"verdict": "not-exercised", "why": format!("setup: {out}")});
    }
    let ends = crate::realwire::delimiter_ends(&from_client);
    let trailing = from_client.len() - ends.last().copied().unwrap_or(0);
    if ends.len() < 3 || trailing != 0 || !got_big {
        symptoms.push(format!("peer-received-{}-delimited-messages-and-{}-undelimited-bytes-instead-of-3-messages", ends.len().min(3), if trailing == 0 { "0" } else { "some" }));
    }
    if ends.len() >= 2 {
        let msg = &from_client[ends[0]..ends[1] - MARKER.len()];
        match crate::xmlstrict::parse(msg) {
            Err(e) => symptoms.push(format!("large-request-not-well-formed({})", crate::util::clip(&e.msg, 60))),
            Ok(doc) => match doc.root.path(&["load-configuration", "configuration-text"]) {
                Some(el) if el.text() == payload => {}
                Some(el) => symptoms.push(format!("large-payload-changed(received {} of {} bytes)", el.text().len(), payload.len())),
                None => symptoms.push("large-request-without-payload-element".into()),
            },
        }
    }
    if ends.len() >= 3 {
        let msg = &from_client[ends[1]..ends[2] - MARKER.len()];
        if crate::xmlstrict::parse(msg).is_err() {
            symptoms.push("request-after-the-large-one-not-well-formed".into());
        }
    }
    json!({"verdict": if symptoms.is_empty() { "held" } else { "violated" }, "symptoms": symptoms, "client": out, "bytes_received": from_client.len(), "payload_bytes": payload.len()})
}


/// C18 / C05 over the real transports with a backlog: `n` requests are pipelined, the futures of all
/// but `keep` of them are dropped without ever being polled, and the server answers all `n` in one
/// go while nobody is reading - whatever queue sits between the transport's receive side and the
/// session fills up. Then the survivors are awaited, and after a pause a fresh request is made.
async fn run_backlog(case: &Value) -> Value {
    let tr = Tr::parse(case["tr"].as_str().unwrap_or("ssh")).unwrap();
    let n = case["n"].as_u64().unwrap_or(40) as usize;
    let keep = case["keep"].as_u64().unwrap_or(2) as usize;
    let hello = hello_bytes(&["urn:ietf:params:netconf:base:1.0"]);
    let mut lis = match Listener::bind(tr).await {
        Ok(l) => l,
        Err(e) => return json!({"verdict": "harness-error", "why": format!("bind: {e}")}),
    };
    let ep = lis.endpoint.clone();
    let pw = lis.ssh_password.clone();
    let cl = tokio::spawn(async move {
        async fn go<T: netconf::transport::Transport + 'static>(s: Result<Session<T>, netconf::Error>, n: usize, keep: usize) -> Value {
            let mut s = match s {
                Ok(s) => s,
                Err(e) => return json!({"establish": format!("{e:?}")}),
            };
            let mut futs = Vec::new();
            for _ in 0..n {
                match tokio::time::timeout(Duration::from_secs(5), s.rpc::<Get, _>(|b| b.finish())).await {
                    Ok(Ok(f)) => futs.push(f),
                    other => return json!({"establish": "ok", "send": format!("rpc() #{} failed: {:?}", futs.len() + 1, other.map(|r| r.map(|_| ()).map_err(|e| format!("{e:?}"))))}),
                }
            }
            tracing::info!(target: "vh::client", "requests-sent");
            // the last `keep` survive, the others are abandoned unpolled
            let survivors: Vec<_> = futs.drain(n - keep..).collect();
            drop(futs);
            // the server answers everything now; nobody reads for a while
            let t0 = std::time::Instant::now();
            while !crate::trace::snapshot().iter().any(|e| e.target == "vh::peer" && e.msg.starts_with("all-replies-sent")) && t0.elapsed() < Duration::from_secs(6) {
                tokio::time::sleep(Duration::from_millis(5)).await;
            }
            tokio::time::sleep(Duration::from_millis(300)).await;
            let mut surv = Vec::new();
            for (k, f) in survivors.into_iter().enumerate() {
                surv.push(match tokio::time::timeout(Duration::from_secs(4), f).await {
                    Ok(Ok(v)) => format!("ok:{v}"),
                    Ok(Err(e)) => format!("err:{e:?}"),
                    Err(_) => format!("timeout(survivor {k})"),
                });
            }
            // a fresh request, awaited only after its reply has had time to arrive
            let fresh = match tokio::time::timeout(Duration::from_secs(4), s.rpc::<Get, _>(|b| b.finish())).await {
                Ok(Ok(f)) => {
                    tokio::time::sleep(Duration::from_millis(400)).await;
                    match tokio::time::timeout(Duration::from_secs(4), f).await {
                        Ok(Ok(v)) => format!("ok:{v}"),
                        Ok(Err(e)) => format!("err:{e:?}"),
                        Err(_) => "timeout".into(),
                    }
                }
                other => format!("send: {:?}", other.map(|r| r.map(|_| ()).map_err(|e| format!("{e:?}")))),
            };
            json!({"establish": "ok", "survivors": surv, "fresh": fresh})
        }
        let to = Duration::from_secs(6);
        match (tr, ep) {
            (Tr::Tls, Endpoint::Tcp(p)) => match tokio::time::timeout(to, connect_tls(p)).await {
                Ok(s) => go(s, n, keep).await,
                Err(_) => json!({"establish": "TIMEOUT"}),
            },
            (Tr::Ssh, Endpoint::Tcp(p)) => match tokio::time::timeout(to, Session::ssh(("127.0.0.1", p), "vh".to_string(), pw.parse().unwrap())).await {
                Ok(s) => go(s, n, keep).await,
                Err(_) => json!({"establish": "TIMEOUT"}),
            },
            (Tr::Cli, Endpoint::Unix(path)) => {
                let exe = std::env::current_exe().unwrap().to_string_lossy().into_owned();
                let p = path.to_string_lossy().into_owned();
                match tokio::time::timeout(to, Session::verif_junos_local(&exe, &["fake-cli", &p])).await {
                    Ok(s) => go(s, n, keep).await,
                    Err(_) => json!({"establish": "TIMEOUT"}),
                }
            }
            _ => json!({"establish": "harness"}),
        }
    });
    let mut conn = match tokio::time::timeout(Duration::from_secs(8), lis.accept()).await {
        Ok(Ok(c)) => c,
        other => return json!({"verdict": "harness-error", "why": format!("accept: {:?}", other.map(|r| r.map(|_| ())))}),
    };
    let _ = conn.send_unit(&hello).await;
    let mut from_client = Vec::new();
    let got_all = conn.read_messages(&mut from_client, 1 + n, Duration::from_secs(10)).await;
    // every reply, one unit each, back to back
    for k in 0..n {
        let _ = conn.send_unit(&reply_bytes(k + 1, &format!("tag-{}", k + 1), 0, false)).await;
    }
    tracing::info!(target: "vh::peer", "all-replies-sent");
    // the fresh request
    let got_fresh = conn.read_messages(&mut from_client, 2 + n, Duration::from_secs(12)).await;
    if got_fresh {
        let _ = conn.send_unit(&reply_bytes(n + 1, &format!("tag-{}", n + 1), 0, false)).await;
    }
    let out = tokio::time::timeout(Duration::from_secs(30), cl).await.ok().and_then(Result::ok).unwrap_or(json!({"establish": "client task lost"}));
    conn.close(CloseManner::Clean).await;
    if out["establish"] != "ok" || !got_all {
        return json!({"verdict": "not-exercised", "why": format!("setup: {out} (all requests received: {got_all})")});
    }
    let mut symptoms: Vec<String> = Vec::new();
    if let Some(sv) = out["survivors"].as_array() {
        for (k, v) in sv.iter().enumerate() {
            let want = format!("ok:tag-{}", n - keep + k + 1);
            if !v.as_str().map_or(false, |s| s.starts_with(&want)) {
                symptoms.push("survivor-did-not-get-its-reply".into());
            }
        }
    } else {
        symptoms.push("requests-could-not-be-sent".into());
    }
    if !out["fresh"].as_str().map_or(false, |s| s.starts_with(&format!("ok:tag-{}", n + 1))) {
        symptoms.push("fresh-request-after-the-backlog-failed".into());
    }
    symptoms.sort();
    symptoms.dedup();
    json!({"verdict": if symptoms.is_empty() { "held" } else { "violated" }, "symptoms": symptoms, "client": out})
}


/// C14 over the real transports: a reply of absurd size that is also damaged (its <data> is never
/// closed) is followed, in the same write, by the valid reply to the next request. The first
/// request gets an error; the second one's reply is still delivered.
async fn run_oversized(case: &Value) -> Value {
    let tr = Tr::parse(case["tr"].as_str().unwrap_or("tls")).unwrap();
    let size = case["size"].as_u64().unwrap_or(100_000) as usize;
    let hello = hello_bytes(&["urn:ietf:params:netconf:base:1.0"]);
    let mut lis = match Listener::bind(tr).await {
        Ok(l) => l,
        Err(e) => return json!({"verdict": "harness-error", "why": format!("bind: {e}")}),
    };
    let ep = lis.endpoint.clone();
    let pw = lis.ssh_password.clone();
    let cl = tokio::spawn(async move {
        async fn go<T: netconf::transport::Transport + 'static>(s: Result<Session<T>, netconf::Error>) -> Value {
            let mut s = match s {
                Ok(s) => s,
                Err(e) => return json!({"establish": format!("{e:?}")}),
            };
            let (Ok(f1), Ok(f2)) = (s.rpc::<Get, _>(|b| b.finish()).await, s.rpc::<Get, _>(|b| b.finish()).await) else { return json!({"establish": "rpc failed"}) };
            let r1 = match tokio::time::timeout(Duration::from_secs(6), f1).await {
                Ok(Ok(v)) => format!("ok:{}", crate::util::clip(&v.to_string(), 40)),
                Ok(Err(e)) => format!("err:{}", crate::util::clip(&format!("{e:?}"), 120)),
                Err(_) => "timeout".into(),
            };
            let r2 = match tokio::time::timeout(Duration::from_secs(6), f2).await {
                Ok(Ok(v)) => format!("ok:{v}"),
                Ok(Err(e)) => format!("err:{}", crate::util::clip(&format!("{e:?}"), 120)),
                Err(_) => "timeout".into(),
            };
            json!({"establish": "ok", "first": r1, "second": r2})
        }
        let to = Duration::from_secs(6);
        match (tr, ep) {
            (Tr::Tls, Endpoint::Tcp(p)) => match tokio::time::timeout(to, connect_tls(p)).await {
                Ok(s) => go(s).await,
                Err(_) => json!({"establish": "TIMEOUT"}),
            },
            (Tr::Ssh, Endpoint::Tcp(p)) => match tokio::time::timeout(to, Session::ssh(("127.0.0.1", p), "vh".to_string(), pw.parse().unwrap())).await {
                Ok(s) => go(s).await,
                Err(_) => json!({"establish": "TIMEOUT"}),
            },
            (Tr::Cli, Endpoint::Unix(path)) => {
                let exe = std::env::current_exe().unwrap().to_string_lossy().into_owned();
                let p = path.to_string_lossy().into_owned();
                match tokio::time::timeout(to, Session::verif_junos_local(&exe, &["fake-cli", &p])).await {
                    Ok(s) => go(s).await,
                    Err(_) => json!({"establish": "TIMEOUT"}),
                }
            }
            _ => json!({"establish": "harness"}),
        }
    });
    let mut conn = match tokio::time::timeout(Duration::from_secs(8), lis.accept()).await {
        Ok(Ok(c)) => c,
        other => return json!({"verdict": "harness-error", "why": format!("accept: {:?}", other.map(|r| r.map(|_| ())))}),
    };
    let _ = conn.send_unit(&hello).await;
    let mut from_client = Vec::new();
    let got = conn.read_messages(&mut from_client, 3, Duration::from_secs(5)).await;
    // reply 1: <data> and `size` bytes of text, never closed; all but its last kilobyte first ...
    let mut r1 = format!("<rpc-reply xmlns=\"{}\" message-id=\"1\"><data>", crate::memwire::BASE_NS).into_bytes();
    r1.extend(std::iter::repeat(b"junk ".iter().copied()).flatten().take(size));
    r1.extend_from_slice(MARKER.as_bytes());
    let cut = r1.len().saturating_sub(1000);
    let _ = conn.send_unit(&r1[..cut]).await;
    tokio::time::sleep(Duration::from_millis(80)).await;
    // ... then its end, its delimiter and the complete reply 2 in ONE unit
    let mut last = r1[cut..].to_vec();
    last.extend(reply_bytes(2, "tag-2", 0, false));
    let _ = conn.send_unit(&last).await;
    let out = tokio::time::timeout(Duration::from_secs(20), cl).await.ok().and_then(Result::ok).unwrap_or(json!({"establish": "client task lost"}));
    conn.close(CloseManner::Clean).await;
    if out["establish"] != "ok" || !got {
        return json!({"verdict": "not-exercised", "why": format!("setup: {out}")});
    }
    let mut symptoms: Vec<String> = Vec::new();
    match out["first"].as_str().unwrap_or("") {
        s if s.starts_with("err:") => {}
        s if s.starts_with("timeout") => symptoms.push("damaged-oversized-reply:its-request-never-resolved".into()),
        _ => symptoms.push("damaged-oversized-reply:accepted".into()),
    }
    if !out["second"].as_str().map_or(false, |s| s.starts_with("ok:tag-2")) {
        symptoms.push("reply-behind-the-oversized-one-not-delivered".into());
    }
    json!({"verdict": if symptoms.is_empty() { "held" } else { "violated" }, "symptoms": symptoms, "client": out, "size": size})
}
