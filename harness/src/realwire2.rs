//! Further real-transport case kinds (framing after the hello, drop with a partial message,
//! credentials in logs).
use serde_json::{json, Value};

pub async fn run_other(kind: &str, _case: &Value) -> Value {
    json!({"verdict": "harness-error", "why": format!("unknown case kind {kind}")})
}
