//! C04 — commit only after every load succeeded; any failed step aborts the run.  Offline check of
//! a trace specification over the fake Junos' request log, for every fault position x fault kind.

use crate::e2e::{self, FakeJunos, FaultKind, Script};
use crate::junos::Config;
use crate::util::{clip, Cfg, Report};
use irrfake::db::{AsRoutes, Db};
use irrfake::server::{Faults, Server};
use serde_json::{json, Value};
use std::sync::Arc;
use std::time::Duration;

pub fn simple_db(n: usize) -> Db {
    let mut db = Db::default();
    for k in 0..n.max(1) {
        let base: u32 = 0x0A00_0000 + ((k as u32) << 16);
        db.ases.insert(65000 + k as u32, AsRoutes { v4: vec![(base, 16), (base + 0x100, 24)], v6: vec![(0x2001_0db8_0000_0000_0000_0000_0000_0000u128 + ((k as u128) << 80), 48)] });
    }
    db
}

#[derive(Clone, Debug)]
struct Case {
    n: usize,
    op: String,
    occ: usize,
    kind: FaultKind,
}

async fn run_case(c: Case, irr_port: u16) -> Value {
    let managed: Vec<(String, String)> = (0..c.n).map(|k| (format!("fltr-{k}"), format!("AS{}", 65000 + k))).collect();
    let mut faults = vec![];
    if c.op != "none" {
        faults.push((c.op.clone(), c.occ, c.kind.clone()));
    }
    let mut faults = faults;
    let mut late_ms = 0;
    if c.kind == FaultKind::ErrorReplyThenSecondPositiveReply && c.occ >= 1 {
        // ... and both overtake the reply to the load before, whose future is the one reading
        faults.push((c.op.clone(), c.occ - 1, FaultKind::HoldOk));
        late_ms = 30;
    }
    let script = Script { running: e2e::running_config(&managed), faults, fail_connections: vec![], ephemeral_name: "bgpfu".into(), chunk: 0, slow_commit: vec![], faults_only_session: None, late_ms, no_match_is_empty_data: false };
    let junos = match FakeJunos::start(script, Config::default()).await {
        Ok(j) => j,
        Err(e) => return json!({"harness_error": format!("fake junos: {e}")}),
    };
    let run = e2e::run_agent(junos.port, irr_port, 0, &["-vv"], &[], Duration::from_secs(25)).await;
    tokio::time::sleep(Duration::from_millis(30)).await;
    let (log, unmodelled, committed) = {
        let g = junos.shared.lock().unwrap();
        (g.log.clone(), g.unmodelled.clone(), g.committed.is_some())
    };
    junos.stop();
    json!({
        "n": c.n, "fault_op": c.op, "fault_occ": c.occ, "fault_kind": c.kind.name(),
        "exit": run.exit, "timed_out": run.timed_out, "cpu_s": run.cpu_s, "wall_s": run.wall_s,
        "stderr_tail": clip(&run.stderr.lines().rev().take(6).collect::<Vec<_>>().join(" | "), 900),
        "stderr_errors": run.stderr.lines().filter(|l| l.contains("panicked") || l.contains("ERROR")).take(4).collect::<Vec<_>>().join(" | "),
        "log": e2e::log_json(&log), "unmodelled": unmodelled, "committed": committed,
    })
}

/// the trace specification; returns (signature suffix, detail) per violated clause
fn check_trace(r: &Value) -> Vec<(String, String)> {
    let mut v = Vec::new();
    let log = r["log"].as_array().cloned().unwrap_or_default();
    let failure = |e: &Value| -> bool {
        let k = e["reply"].as_str().unwrap_or("");
        !(k == "ok" || k == "warning-then-ok" || k == "close-after-reply")
    };
    let mut sessions: std::collections::BTreeMap<u64, Vec<&Value>> = std::collections::BTreeMap::new();
    for e in &log {
        sessions.entry(e["session"].as_u64().unwrap_or(0)).or_default().push(e);
    }
    let mut commit_ok = false;
    let mut closedb_ok = false;
    let mut closesess_ok = false;
    for (sid, evs) in &sessions {
        let mut opened = false;
        let mut failed_at: Option<String> = None;
        for e in evs {
            let op = e["op"].as_str().unwrap_or("");
            if op == "commit-configuration" {
                if !opened {
                    v.push(("commit-without-open".into(), format!("session {sid}: commit-configuration before a positively answered open-configuration")));
                }
                if let Some(f) = &failed_at {
                    v.push(("commit-after-failed-step".into(), format!("session {sid}: commit-configuration requested although {f} had failed")));
                }
            }
            if failure(e) {
                failed_at.get_or_insert(format!("{op} ({})", e["reply"].as_str().unwrap_or("")));
            } else {
                match op {
                    "open-configuration" => opened = true,
                    "commit-configuration" => commit_ok = true,
                    "close-configuration" => closedb_ok = true,
                    "close-session" => closesess_ok = true,
                    _ => {}
                }
            }
        }
    }
    let exit0 = r["exit"].as_i64() == Some(0);
    if exit0 && !(commit_ok && closedb_ok && closesess_ok) {
        v.push((
            "success-without-acknowledged-commit-and-close".into(),
            format!("exit status 0 but commit acknowledged={commit_ok}, close-configuration acknowledged={closedb_ok}, close-session acknowledged={closesess_ok}"),
        ));
    }
    // a step failed (failure reply was sent) yet the run reports success
    let any_failure = log.iter().any(|e| failure(e));
    if exit0 && any_failure {
        v.push(("success-although-a-step-failed".into(), "exit status 0 although a step of the run failed".into()));
    }
    v
}

pub fn run(cfg: &Cfg) -> i32 {
    run_as(cfg, false)
}

/// the same matrix restricted to faults that are error *replies* (rpc-error of severity error in
/// any of the forms, at every position, with 2 and with 40 loads), judged for C08: the agent run
/// must not report success
pub fn run_for_c08(cfg: &Cfg) -> i32 {
    run_as(cfg, true)
}

fn run_as(cfg: &Cfg, c08: bool) -> i32 {
    let mut rep = Report::new(
        if c08 { "C08" } else { "C04" },
        cfg,
        "one evaluation = one run of the real agent binary (TLS remote target) against the fake Junos with one fault injected at one position of the request sequence open -> get-config x2 -> load x N -> commit -> close-configuration -> close-session; \
         the fake Junos' request log and the exit status are checked against the trace specification; distinct = distinct (N, position, fault kind); non-trivial = a fault is injected",
    );
    rep.assumptions.push("exit status of the agent binary = what the run reports".into());
    if !std::path::Path::new(&e2e::agent_bin()).exists() {
        eprintln!("agent binary not built");
        return 2;
    }
    let thorough = cfg.thorough();
    let ns: Vec<usize> = if thorough { vec![0, 1, 2, 3, 5] } else { vec![0, 2] };
    let kinds: Vec<FaultKind> = if thorough {
        vec![FaultKind::RpcError, FaultKind::WarningThenOk, FaultKind::NoPositive, FaultKind::NotXml, FaultKind::Truncated, FaultKind::WrongMessageId, FaultKind::CloseBefore, FaultKind::CloseAfter, FaultKind::StallThenClose, FaultKind::DelayedRpcError, FaultKind::ErrorThenOk, FaultKind::ErrorWarningThenOk, FaultKind::ForeignError, FaultKind::ErrorReplyThenSecondPositiveReply, FaultKind::ErrorRootThenPositiveRootSameId, FaultKind::ErrorRootThenPositiveRootOtherId, FaultKind::NotUtf8InComment, FaultKind::NotUtf8InWarningText, FaultKind::PositiveThenRpcError, FaultKind::NoDelimiterThenClose]
    } else {
        vec![FaultKind::RpcError, FaultKind::NoPositive, FaultKind::WrongMessageId, FaultKind::CloseBefore, FaultKind::DelayedRpcError, FaultKind::ErrorThenOk, FaultKind::ErrorWarningThenOk, FaultKind::ForeignError, FaultKind::ErrorReplyThenSecondPositiveReply, FaultKind::ErrorRootThenPositiveRootSameId, FaultKind::ErrorRootThenPositiveRootOtherId, FaultKind::NotUtf8InComment, FaultKind::NotUtf8InWarningText, FaultKind::PositiveThenRpcError, FaultKind::NoDelimiterThenClose]
    };
    let mut cases: Vec<Case> = Vec::new();
    for &n in &ns {
        cases.push(Case { n, op: "none".into(), occ: 0, kind: FaultKind::RpcError });
        let mut positions: Vec<(String, usize)> = vec![("hello".into(), 0), ("open-configuration".into(), 0), ("get-config".into(), 0), ("get-config".into(), 1)];
        for k in 0..n {
            positions.push(("load-configuration".into(), k));
        }
        positions.extend([("commit-configuration".into(), 0), ("close-configuration".into(), 0), ("close-session".into(), 0)]);
        for (op, occ) in positions {
            for kind in &kinds {
                let applicable = match kind {
                    FaultKind::ErrorThenOk | FaultKind::ErrorWarningThenOk | FaultKind::DelayedRpcError | FaultKind::ErrorRootThenPositiveRootSameId | FaultKind::ErrorRootThenPositiveRootOtherId | FaultKind::NotUtf8InWarningText => op == "load-configuration",
                    FaultKind::ErrorReplyThenSecondPositiveReply => op == "load-configuration" && occ >= 1,
                    FaultKind::HoldOk => false,
                    FaultKind::RpcError | FaultKind::WarningThenOk | FaultKind::NoPositive | FaultKind::WrongMessageId | FaultKind::CloseAfter | FaultKind::ForeignError | FaultKind::NotUtf8InComment | FaultKind::PositiveThenRpcError => op != "hello" && op != "open-configuration" && op != "close-configuration",
                    _ => true,
                };
                if applicable {
                    cases.push(Case { n, op: op.clone(), occ, kind: kind.clone() });
                }
            }
        }
    }
    // a run with many loads (one per policy): an error reply to an early, a middle and a late one
    for (n, occs) in [(40usize, vec![4usize, 30, 31, 32, 36, 39])] {
        for occ in occs {
            cases.push(Case { n, op: "load-configuration".into(), occ, kind: FaultKind::RpcError });
        }
    }
    if c08 {
        cases.retain(|c| c.op != "none" && matches!(c.kind, FaultKind::RpcError | FaultKind::DelayedRpcError | FaultKind::ErrorThenOk | FaultKind::ErrorWarningThenOk | FaultKind::PositiveThenRpcError) && (c.n == 2 || c.n == 40 || c.n == 5));
    }
    let cases: Vec<Case> = cases.into_iter().enumerate().filter(|(i, _)| (*i as u64) % cfg.shards == cfg.shard).map(|(_, c)| c).collect();
    let irr = match Server::start(simple_db(41), Faults::default()) {
        Ok(s) => s,
        Err(e) => {
            eprintln!("fake irrd: {e}");
            return 2;
        }
    };
    let irr_port = irr.port();
    let rt = tokio::runtime::Builder::new_multi_thread().worker_threads(8).enable_all().build().expect("runtime");
    let results: Vec<(Case, Value)> = rt.block_on(async {
        let sem = Arc::new(tokio::sync::Semaphore::new(12));
        let mut set = tokio::task::JoinSet::new();
        for c in cases {
            let sem = sem.clone();
            set.spawn(async move {
                let _p = sem.acquire_owned().await;
                let r = run_case(c.clone(), irr_port).await;
                (c, r)
            });
        }
        let mut out = Vec::new();
        while let Some(r) = set.join_next().await {
            if let Ok(x) = r {
                out.push(x);
            }
        }
        out
    });
    irr.stop();
    for (c, r) in &results {
        let key = format!("{}|{}|{}|{}", c.n, c.op, c.occ, c.kind.name());
        rep.case(if c.op == "none" { None } else { Some(key.as_bytes()) });
        if let Some(h) = r["harness_error"].as_str() {
            rep.inconclusive(&key, h);
            continue;
        }
        let log = r["log"].as_array().cloned().unwrap_or_default();
        rep.count_n("requests_logged", log.len() as u64);
        rep.count_n("loads_logged", log.iter().filter(|e| e["op"] == "load-configuration").count() as u64);
        rep.count_n("commits_logged", log.iter().filter(|e| e["op"] == "commit-configuration").count() as u64);
        rep.count(if r["exit"].as_i64() == Some(0) { "runs_reporting_success" } else { "runs_reporting_failure" });
        let wit = || json!({"case": {"loads": c.n, "fault_at": format!("{}#{}", c.op, c.occ), "fault": c.kind.name()}, "run": r, "seed": cfg.seed});
        if r["timed_out"].as_bool().unwrap_or(false) {
            // the run neither succeeded nor failed within the watchdog: clause (3) cannot be decided
            // here; the ordering clauses are still checked on the log (hang/spin itself is C07's)
            rep.inconclusive(&key, &format!("agent did not exit within the watchdog (cpu {:.1}s): clause (3) undecided, see C07", r["cpu_s"].as_f64().unwrap_or(0.0)));
        }
        if !r["unmodelled"].as_array().map_or(true, Vec::is_empty) {
            rep.observe(json!({"case": key, "unmodelled": r["unmodelled"]}));
        }
        // sanity: without a fault the run must go all the way (otherwise the workload is vacuous)
        if c.op == "none" {
            let ops: Vec<&str> = log.iter().filter_map(|e| e["op"].as_str()).collect();
            let want_loads = c.n;
            let loads = ops.iter().filter(|o| **o == "load-configuration").count();
            if r["exit"].as_i64() != Some(0) || loads != want_loads || !ops.contains(&"commit-configuration") {
                rep.violation("harness:fault-free-run-does-not-complete", &format!("exit {:?}, ops {ops:?}", r["exit"]), wit());
            }
            if rep.samples.len() < rep.max_samples {
                rep.sample(json!({"fault": "none", "loads": c.n, "ops": ops, "exit": r["exit"]}));
            }
            continue;
        }
        for (sig, detail) in check_trace(r) {
            rep.violation(&format!("{sig}:{}:{}", c.op, c.kind.name()), &detail, wit());
        }
        if rep.samples.len() < rep.max_samples && c.op == "load-configuration" {
            rep.sample(json!({"fault": format!("{} at {}#{}", c.kind.name(), c.op, c.occ), "loads": c.n, "exit": r["exit"],
                "ops": log.iter().map(|e| format!("{}:{}", e["op"].as_str().unwrap_or(""), e["reply"].as_str().unwrap_or(""))).collect::<Vec<_>>()}));
        }
    }
    rep.exhaustive = Some(true);
    rep.extra.insert("matrix".into(), json!({"loads": ns, "kinds": kinds.iter().map(FaultKind::name).collect::<Vec<_>>()}));
    rep.finish()
}


/// C07, agent level: the peer closes (or stalls, then closes) at every request index; the agent
/// must come back with an error, neither hang nor spin.
pub fn run_c07_agent(cfg: &Cfg) -> i32 {
    let mut rep = Report::new(
        "C07",
        cfg,
        "one evaluation = one run of the real agent binary against a fake Junos that closes the TLS connection before the hello, inside a truncated reply, or instead of replying, at every position of the request sequence; the agent must exit with an error within the watchdog;          distinct = distinct (loads, position, close kind); non-trivial = all",
    );
    if !std::path::Path::new(&e2e::agent_bin()).exists() {
        eprintln!("agent binary not built");
        return 2;
    }
    let ns: Vec<usize> = if cfg.thorough() { vec![0, 1, 3] } else { vec![2] };
    let kinds = [FaultKind::CloseBefore, FaultKind::Truncated, FaultKind::StallThenClose];
    let mut cases = Vec::new();
    for &n in &ns {
        let mut positions: Vec<(String, usize)> = vec![("hello".into(), 0), ("open-configuration".into(), 0), ("get-config".into(), 0), ("get-config".into(), 1)];
        for k in 0..n {
            positions.push(("load-configuration".into(), k));
        }
        positions.extend([("commit-configuration".into(), 0), ("close-configuration".into(), 0), ("close-session".into(), 0)]);
        for (op, occ) in positions {
            for kind in &kinds {
                cases.push(Case { n, op: op.clone(), occ, kind: kind.clone() });
            }
        }
    }
    let irr = match Server::start(simple_db(6), Faults::default()) {
        Ok(s) => s,
        Err(e) => {
            eprintln!("fake irrd: {e}");
            return 2;
        }
    };
    let irr_port = irr.port();
    let rt = tokio::runtime::Builder::new_multi_thread().worker_threads(8).enable_all().build().expect("runtime");
    let results: Vec<(Case, Value)> = rt.block_on(async {
        let sem = Arc::new(tokio::sync::Semaphore::new(12));
        let mut set = tokio::task::JoinSet::new();
        for c in cases {
            let sem = sem.clone();
            set.spawn(async move {
                let _p = sem.acquire_owned().await;
                let r = run_case(c.clone(), irr_port).await;
                (c, r)
            });
        }
        let mut out = Vec::new();
        while let Some(r) = set.join_next().await {
            if let Ok(x) = r {
                out.push(x);
            }
        }
        out
    });
    irr.stop();
    for (c, r) in &results {
        let key = format!("{}|{}|{}|{}", c.n, c.op, c.occ, c.kind.name());
        rep.case(Some(key.as_bytes()));
        let wit = || json!({"case": {"loads": c.n, "close_at": format!("{}#{}", c.op, c.occ), "how": c.kind.name()}, "run": r, "seed": cfg.seed});
        if r["timed_out"].as_bool().unwrap_or(false) {
            let cpu = r["cpu_s"].as_f64().unwrap_or(0.0);
            let wall = r["wall_s"].as_f64().unwrap_or(1.0);
            let what = if cpu > 0.8 * wall { "spin" } else { "hang" };
            rep.violation(&format!("agent:{}:{}:{what}", c.op, c.kind.name()), &format!("the agent did not exit within {wall:.0}s after the peer closed (cpu {cpu:.1}s)"), wit());
        } else if r["exit"].as_i64() == Some(0) {
            rep.violation(&format!("agent:{}:{}:reported-success", c.op, c.kind.name()), "the agent reported success although the peer disconnected", wit());
        } else {
            rep.count("agent_exited_with_error");
            rep.count_n("wall_ms_total", (r["wall_s"].as_f64().unwrap_or(0.0) * 1000.0) as u64);
        }
        if rep.samples.len() < rep.max_samples {
            rep.sample(json!({"close_at": format!("{}#{}", c.op, c.occ), "how": c.kind.name(), "exit": r["exit"], "wall_s": r["wall_s"], "stderr_tail": r["stderr_tail"]}));
        }
    }
    rep.finish()
}
