//! Real-transport cases (TLS, SSH, child process): C06 segmentation, C07 peer disconnect.
//! Cases run in worker sub-processes (`vh worker`), because a client that spins inside `poll`
//! can neither be cancelled nor timed out from inside its own runtime.

use crate::memwire::{BASE_NS, MARKER};
use crate::peers::{CloseManner, Conn, Endpoint, Listener, Tr};
use crate::trace;
use crate::util::{clip, Cfg, Prng, Report};
use netconf::message::rpc::operation::{Builder, Get};
use netconf::transport::Transport;
use netconf::Session;
use serde_json::{json, Value};
use std::io::{BufRead, BufReader, Write};
use std::process::{Command, Stdio};
use std::time::{Duration, Instant};

// ------------------------------------------------------------------------------------------
// stream construction
// ------------------------------------------------------------------------------------------

pub fn hello_bytes(caps: &[&str]) -> Vec<u8> {
    crate::memwire::server_hello(caps, "77")
}

pub fn reply_bytes(id: usize, tag: &str, pad: usize, lookalike: bool) -> Vec<u8> {
    let mut body = String::from(tag);
    if pad > 0 {
        body.push(' ');
        // look-alikes of the delimiter that are legal character data
        let unit = if lookalike { "]] >]] ]]&gt;]]&gt; " } else { "abcdefghij" };
        while body.len() < pad {
            body.push_str(unit);
        }
    }
    let comment = if lookalike { "<!-- ]]>]] and ]]>]]x -->" } else { "" };
    format!("<rpc-reply xmlns=\"{BASE_NS}\" message-id=\"{id}\"><data>{body}</data>{comment}</rpc-reply>{MARKER}").into_bytes()
}

/// offsets (exclusive end) of every complete delimiter in `stream`
pub fn delimiter_ends(stream: &[u8]) -> Vec<usize> {
    let m = MARKER.as_bytes();
    let mut v = Vec::new();
    let mut i = 0;
    while i + m.len() <= stream.len() {
        if &stream[i..i + m.len()] == m {
            v.push(i + m.len());
            i += m.len();
        } else {
            i += 1;
        }
    }
    v
}

// ------------------------------------------------------------------------------------------
// client side (generic over the transport)
// ------------------------------------------------------------------------------------------

#[derive(Clone, Debug)]
enum Res {
    Ok(String),
    Err(String),
    Timeout,
    SendErr(String),
    SendTimeout,
}

impl Res {
    fn j(&self) -> Value {
        match self {
            Res::Ok(s) => json!({"ok": clip(s, 80)}),
            Res::Err(e) => json!({"err": clip(e, 300)}),
            Res::Timeout => json!("timeout"),
            Res::SendErr(e) => json!({"send_err": clip(e, 300)}),
            Res::SendTimeout => json!("send_timeout"),
        }
    }
}

struct ClientPlan {
    n: usize,
    pipelined: bool,
    /// wait for the peer's "peer-closed" event before the subsequent rpc
    then_subsequent: bool,
    wait_closed_before_rpcs: bool,
    op_timeout: Duration,
    /// after the requests: `Session::close()`; its outcome is reported as `subsequent`
    close_session: bool,
}

struct ClientLog {
    establish: Result<String, String>,
    results: Vec<Res>,
    subsequent: Option<Res>,
}

fn peer_closed() -> bool {
    trace::snapshot().iter().any(|e| e.target == "vh::peer" && e.msg.starts_with("peer-closed"))
}

async fn wait_peer_closed(max: Duration) {
    let t0 = Instant::now();
    while !peer_closed() && t0.elapsed() < max {
        tokio::time::sleep(Duration::from_millis(3)).await;
    }
    tokio::time::sleep(Duration::from_millis(40)).await;
}

async fn drive_client<T: Transport + 'static>(session: Result<Session<T>, netconf::Error>, plan: ClientPlan) -> ClientLog
where
    T::SendHandle: 'static,
    T::RecvHandle: 'static,
{
    let mut session = match session {
        Ok(s) => {
            tracing::info!(target: "vh::client", "established");
            s
        }
        Err(e) => return ClientLog { establish: Err(format!("{e:?}")), results: vec![], subsequent: None },
    };
    let ctx = crate::sched::context_info(&session);
    let mut session = Some(session);
    if plan.wait_closed_before_rpcs {
        wait_peer_closed(Duration::from_secs(3)).await;
    }
    let mut results = Vec::new();
    let to = plan.op_timeout;
    if plan.pipelined {
        let mut futs = Vec::new();
        for _ in 0..plan.n {
            match tokio::time::timeout(to, session.as_mut().unwrap().rpc::<Get, _>(|b| b.finish())).await {
                Ok(Ok(f)) => futs.push(Some(f)),
                Ok(Err(e)) => {
                    futs.push(None);
                    results.push(Res::SendErr(format!("{e:?}")));
                }
                Err(_) => {
                    futs.push(None);
                    results.push(Res::SendTimeout);
                }
            }
        }
        // <close-session> goes out behind the requests; the session object is consumed by it
        let mut closing = None;
        if plan.close_session {
            match tokio::time::timeout(to, session.take().unwrap().close()).await {
                Ok(Ok(f)) => closing = Some(Ok(f)),
                Ok(Err(e)) => closing = Some(Err(Res::SendErr(format!("{e:?}")))),
                Err(_) => closing = Some(Err(Res::SendTimeout)),
            }
        }
        tracing::info!(target: "vh::client", "requests-sent");
        for (k, f) in futs.into_iter().enumerate() {
            let Some(f) = f else { continue };
            let r = match tokio::time::timeout(to, f).await {
                Ok(Ok(v)) => Res::Ok(v.to_string()),
                Ok(Err(e)) => Res::Err(format!("{e:?}")),
                Err(_) => Res::Timeout,
            };
            tracing::info!(target: "vh::client", "resolved {k}");
            results.push(r);
        }
        if let Some(c) = closing {
            let r = match c {
                Ok(f) => match tokio::time::timeout(to, f).await {
                    Ok(Ok(())) => Res::Ok("session closed".into()),
                    Ok(Err(e)) => Res::Err(format!("{e:?}")),
                    Err(_) => Res::Timeout,
                },
                Err(r) => r,
            };
            tracing::info!(target: "vh::client", "client-done");
            return ClientLog { establish: Ok(ctx), results, subsequent: Some(r) };
        }
    } else {
        for k in 0..plan.n {
            let r = match tokio::time::timeout(to, session.as_mut().unwrap().rpc::<Get, _>(|b| b.finish())).await {
                Ok(Ok(f)) => match tokio::time::timeout(to, f).await {
                    Ok(Ok(v)) => Res::Ok(v.to_string()),
                    Ok(Err(e)) => Res::Err(format!("{e:?}")),
                    Err(_) => Res::Timeout,
                },
                Ok(Err(e)) => Res::SendErr(format!("{e:?}")),
                Err(_) => Res::SendTimeout,
            };
            tracing::info!(target: "vh::client", "resolved {k}");
            results.push(r);
        }
    }
    let mut subsequent = None;
    if plan.then_subsequent {
        wait_peer_closed(Duration::from_secs(3)).await;
        subsequent = Some(match tokio::time::timeout(to, session.as_mut().unwrap().rpc::<Get, _>(|b| b.finish())).await {
            Ok(Ok(f)) => match tokio::time::timeout(to, f).await {
                Ok(Ok(v)) => Res::Ok(v.to_string()),
                Ok(Err(e)) => Res::Err(format!("{e:?}")),
                Err(_) => Res::Timeout,
            },
            Ok(Err(e)) => Res::SendErr(format!("{e:?}")),
            Err(_) => Res::SendTimeout,
        });
        tracing::info!(target: "vh::client", "subsequent-done");
    }
    tracing::info!(target: "vh::client", "client-done");
    ClientLog { establish: Ok(ctx), results, subsequent }
}

async fn client(tr: Tr, ep: Endpoint, plan: ClientPlan, ssh_password: String) -> ClientLog {
    let to = Duration::from_secs(6);
    match (tr, ep) {
        (Tr::Tls, Endpoint::Tcp(port)) => {
            let s = tokio::time::timeout(
                to,
                Session::tls(("127.0.0.1", port), "localhost", crate::peers::read_pem_cert("ca.crt"), crate::peers::read_pem_cert("client.crt"), crate::peers::read_pem_key("client.key")),
            )
            .await;
            match s {
                Ok(s) => drive_client(s, plan).await,
                Err(_) => ClientLog { establish: Err("TIMEOUT".into()), results: vec![], subsequent: None },
            }
        }
        (Tr::Ssh, Endpoint::Tcp(port)) => {
            let s = tokio::time::timeout(to, Session::ssh(("127.0.0.1", port), "vh".to_string(), ssh_password.parse().unwrap())).await;
            match s {
                Ok(s) => drive_client(s, plan).await,
                Err(_) => ClientLog { establish: Err("TIMEOUT".into()), results: vec![], subsequent: None },
            }
        }
        (Tr::Cli, Endpoint::Unix(path)) => {
            let exe = std::env::current_exe().expect("current_exe");
            let exe = exe.to_string_lossy().into_owned();
            let p = path.to_string_lossy().into_owned();
            let s = tokio::time::timeout(to, Session::verif_junos_local(&exe, &["fake-cli", &p])).await;
            match s {
                Ok(s) => drive_client(s, plan).await,
                Err(_) => ClientLog { establish: Err("TIMEOUT".into()), results: vec![], subsequent: None },
            }
        }
        _ => ClientLog { establish: Err("harness: endpoint/transport mismatch".into()), results: vec![], subsequent: None },
    }
}

fn client_events(prefix: &str) -> usize {
    trace::snapshot().iter().filter(|e| e.target == "vh::client" && e.msg.starts_with(prefix)).count()
}

fn proc_cpu_ticks() -> u64 {
    let s = std::fs::read_to_string("/proc/self/stat").unwrap_or_default();
    let after = s.rsplit(')').next().unwrap_or("");
    let f: Vec<&str> = after.split_whitespace().collect();
    // after the ')' : state(0) ppid(1) ... utime is field 14 overall => index 11 here, stime 12
    f.get(11).and_then(|x| x.parse::<u64>().ok()).unwrap_or(0) + f.get(12).and_then(|x| x.parse::<u64>().ok()).unwrap_or(0)
}

// ------------------------------------------------------------------------------------------
// worker: one case
// ------------------------------------------------------------------------------------------

async fn consumed(tr: Tr, sent: usize, packets: usize, max: Duration) -> bool {
    let t0 = Instant::now();
    loop {
        let v = trace::rx_view(0);
        let ok = match tr {
            Tr::Ssh => v.ssh_packets >= packets,
            _ => v.read_sum >= sent,
        };
        if ok {
            return true;
        }
        if t0.elapsed() > max {
            return false;
        }
        tokio::time::sleep(Duration::from_millis(1)).await;
    }
}

/// C06: send the scripted units, observing after each whether every complete message has been
/// delivered to its caller without further traffic.
async fn run_seg(case: &Value) -> Value {
    let tr = Tr::parse(case["tr"].as_str().unwrap_or("tls")).unwrap();
    let n = case["n"].as_u64().unwrap_or(1) as usize;
    let pipelined = case["pipelined"].as_bool().unwrap_or(false);
    let hello = hello_bytes(&["urn:ietf:params:netconf:base:1.0"]);
    let mut stream = hello.clone();
    let mut tags = Vec::new();
    for k in 0..n {
        let tag = format!("tag-{}-{k}", case["id"].as_u64().unwrap_or(0));
        let pad = case["pads"][k].as_u64().unwrap_or(0) as usize;
        let mut r = reply_bytes(k + 1, &tag, pad, case["lookalike"].as_bool().unwrap_or(false));
        // "end_at": the last message ends exactly at this offset of the peer's byte stream
        if let (Some(t), true) = (case["end_at"].as_u64(), k + 1 == n) {
            let want = (t as usize).saturating_sub(stream.len());
            if want > r.len() {
                let filler = "x".repeat(want - r.len());
                r = reply_bytes(k + 1, &format!("{tag} {filler}"), 0, false);
            }
        }
        stream.extend(r);
        tags.push(tag);
    }
    let mut cuts: Vec<usize> = case["cuts"].as_array().map(|a| a.iter().filter_map(|x| x.as_u64()).map(|x| x as usize).collect()).unwrap_or_default();
    cuts.retain(|c| *c > 0 && *c < stream.len());
    cuts.sort_unstable();
    cuts.dedup();
    let mut units: Vec<Vec<u8>> = Vec::new();
    let mut prev = 0;
    for c in cuts.iter().chain(std::iter::once(&stream.len())) {
        units.push(stream[prev..*c].to_vec());
        prev = *c;
    }
    let delim_ends = delimiter_ends(&stream);
    let mut lis = match Listener::bind(tr).await {
        Ok(l) => l,
        Err(e) => return json!({"verdict": "harness-error", "why": format!("bind: {e}")}),
    };
    // SSH: the confirmation of the subsystem request arrives after unit `confirm_after` instead of
    // before the first data packet
    let confirm_after = case["confirm_after_unit"].as_u64().map(|x| x as usize);
    lis.ssh_defer_success = confirm_after.is_some() && tr == Tr::Ssh;
    let ep = lis.endpoint.clone();
    let pw = lis.ssh_password.clone();
    let plan = ClientPlan { n, pipelined, then_subsequent: false, wait_closed_before_rpcs: false, op_timeout: Duration::from_millis(2500), close_session: false };
    let cl = tokio::spawn(client(tr, ep, plan, pw));
    let mut conn = match tokio::time::timeout(Duration::from_secs(8), lis.accept()).await {
        Ok(Ok(c)) => c,
        other => return json!({"verdict": "harness-error", "why": format!("accept: {:?}", other.map(|r| r.map(|_| ())))}),
    };
    let mut sent = 0usize;
    let mut non_delivery: Vec<Value> = Vec::new();
    let mut not_exercised: Option<String> = None;
    // "the peer hangs up right after its last message": the replies are held back until all
    // requests are out, then sent without waiting in between, and the peer stops sending at once
    let close_after = case["close_after"].as_bool().unwrap_or(false);
    for (j, u) in units.iter().enumerate() {
        if close_after && sent >= hello.len() {
            let t0 = Instant::now();
            while client_events("requests-sent") == 0 && t0.elapsed() < Duration::from_secs(4) {
                tokio::time::sleep(Duration::from_millis(2)).await;
            }
            if client_events("requests-sent") == 0 {
                not_exercised = Some("the client did not get its requests out".into());
                break;
            }
            if conn.send_unit(u).await.is_err() {
                not_exercised = Some(format!("could not send unit {j}"));
                break;
            }
            sent += u.len();
            if j + 1 == units.len() {
                conn.finish_sending().await;
            }
            continue;
        }
        if conn.send_unit(u).await.is_err() {
            not_exercised = Some(format!("could not send unit {j}"));
            break;
        }
        sent += u.len();
        if confirm_after == Some(j) {
            conn.confirm_subsystem().await;
        }
        if !consumed(tr, sent, j + 1, Duration::from_secs(3)).await {
            not_exercised = Some(format!("client did not consume unit {j} within 3 s"));
            break;
        }
        let complete = delim_ends.iter().filter(|e| **e <= sent).count();
        let need = complete.saturating_sub(1).min(n);
        // wait until `need` RPCs are resolved, or the non-delivery witness is stable
        let t0 = Instant::now();
        let mut stable_since: Option<Instant> = None;
        loop {
            let established = client_events("established") > 0;
            let resolved = client_events("resolved");
            if (complete == 0 || established) && resolved >= need {
                break;
            }
            let v = trace::rx_view(0);
            let witness = match tr {
                Tr::Ssh => v.ssh_packets >= j + 1,
                _ => v.waiting_again && v.read_sum >= sent,
            };
            if witness {
                let s = *stable_since.get_or_insert_with(Instant::now);
                if s.elapsed() > Duration::from_millis(120) {
                    non_delivery.push(json!({"after_unit": j, "bytes_sent": sent, "complete_messages_sent": complete, "rpcs_that_should_have_resolved": need, "resolved": resolved, "established": established}));
                    break;
                }
            } else {
                stable_since = None;
            }
            if t0.elapsed() > Duration::from_secs(3) {
                not_exercised = Some(format!("no delivery and no witness after unit {j}"));
                break;
            }
            tokio::time::sleep(Duration::from_millis(2)).await;
        }
        if not_exercised.is_some() {
            break;
        }
    }
    let log = match tokio::time::timeout(Duration::from_secs(25), cl).await {
        Ok(Ok(l)) => l,
        _ => return json!({"verdict": "inconclusive", "why": "client task did not finish"}),
    };
    let view = trace::rx_view(0);
    conn.close(CloseManner::Clean).await;
    let results: Vec<Value> = log.results.iter().map(Res::j).collect();
    let mut symptoms: Vec<String> = Vec::new();
    if let Err(e) = &log.establish {
        symptoms.push(format!("establish-failed({})", clip(e, 100)));
    }
    if !non_delivery.is_empty() {
        symptoms.push("needs-further-traffic".into());
    }
    for (k, r) in log.results.iter().enumerate() {
        match r {
            Res::Ok(v) if v.starts_with(&tags[k]) => {}
            Res::Ok(_) => symptoms.push("wrong-message".into()),
            Res::Timeout => symptoms.push("never-delivered".into()),
            _ => symptoms.push("error".into()),
        }
    }
    symptoms.sort();
    symptoms.dedup();
    let scripted: Vec<usize> = units.iter().map(Vec::len).collect();
    json!({
        "verdict": if not_exercised.is_some() && symptoms.is_empty() { "not-exercised" } else if symptoms.is_empty() { "held" } else { "violated" },
        "symptoms": symptoms, "non_delivery": non_delivery, "not_exercised": not_exercised,
        "results": results, "expected_tags": tags, "scripted_units": scripted,
        "observed_reads": view.reads.iter().take(64).collect::<Vec<_>>(), "observed_read_count": view.read_count,
        "ssh_packets": view.ssh_packets, "ssh_split": view.ssh_split, "stream_len": stream.len(),
    })
}

/// C07: the peer closes at a scripted point; every pending and subsequent operation must fail.
async fn run_close(case: &Value) -> Value {
    let tr = Tr::parse(case["tr"].as_str().unwrap_or("tls")).unwrap();
    let point = case["point"].as_str().unwrap_or("after-hello-idle").to_string();
    let manner = match case["manner"].as_str().unwrap_or("clean") {
        "abrupt" => CloseManner::Abrupt,
        "fin-only" => CloseManner::FinOnly,
        "exit-leaving-a-helper-that-holds-stderr" => CloseManner::ExitLeavingHelper,
        "stdout-closed-while-the-process-stays" => CloseManner::StdoutClosedProcessStays,
        "channel-close" => CloseManner::ChannelClose,
        _ => CloseManner::Clean,
    };
    let outstanding = case["outstanding"].as_u64().unwrap_or(0) as usize;
    let hello = hello_bytes(&["urn:ietf:params:netconf:base:1.0"]);
    let mut lis = match Listener::bind(tr).await {
        Ok(l) => l,
        Err(e) => return json!({"verdict": "harness-error", "why": format!("bind: {e}")}),
    };
    let ep = lis.endpoint.clone();
    let pw = lis.ssh_password.clone();
    let plan = ClientPlan {
        n: outstanding,
        pipelined: true,
        then_subsequent: point != "pending-close-session",
        wait_closed_before_rpcs: point == "after-hello-idle",
        op_timeout: Duration::from_secs(4),
        close_session: point == "pending-close-session",
    };
    let cpu0 = proc_cpu_ticks();
    let t_start = Instant::now();
    let cl = tokio::spawn(client(tr, ep, plan, pw));
    let mut conn = match tokio::time::timeout(Duration::from_secs(8), lis.accept()).await {
        Ok(Ok(c)) => c,
        other => return json!({"verdict": "harness-error", "why": format!("accept: {:?}", other.map(|r| r.map(|_| ())))}),
    };
    let mut from_client = Vec::new();
    let mut arrived_before_close = 0usize; // replies fully delivered before the close
    let mut script_ok = true;
    match point.as_str() {
        "before-hello" => {}
        "inside-hello" => {
            let part = case["fraction"].as_u64().unwrap_or(2) as usize;
            let cut = (hello.len() * part / 4).clamp(1, hello.len() - 1);
            script_ok &= conn.send_unit(&hello[..cut]).await.is_ok();
            script_ok &= consumed(tr, cut, 1, Duration::from_secs(2)).await;
        }
        "hello-without-delimiter" => {
            // the complete <hello>...</hello>, but the stream ends where the delimiter should begin
            let cut = hello.len() - MARKER.len();
            script_ok &= conn.send_unit(&hello[..cut]).await.is_ok();
            script_ok &= consumed(tr, cut, 1, Duration::from_secs(2)).await;
        }
        _ => {
            script_ok &= conn.send_unit(&hello).await.is_ok();
            // client hello, then the pipelined requests
            let expect_msgs = 1 + outstanding + usize::from(point == "pending-close-session");
            script_ok &= conn.read_messages(&mut from_client, expect_msgs, Duration::from_secs(4)).await;
            match point.as_str() {
                "inside-reply" => {
                    let r = reply_bytes(1, "tag-0", 64, false);
                    let part = case["fraction"].as_u64().unwrap_or(2) as usize;
                    let cut = (r.len() * part / 4).clamp(1, r.len() - 1);
                    script_ok &= conn.send_unit(&r[..cut]).await.is_ok();
                    script_ok &= consumed(tr, hello.len() + cut, 2, Duration::from_secs(2)).await;
                }
                "reply-without-delimiter" => {
                    let r = reply_bytes(1, "tag-0", 0, false);
                    let cut = r.len() - MARKER.len();
                    script_ok &= conn.send_unit(&r[..cut]).await.is_ok();
                    script_ok &= consumed(tr, hello.len() + cut, 2, Duration::from_secs(2)).await;
                }
                "after-reply" => {
                    for k in 0..outstanding {
                        let r = reply_bytes(k + 1, &format!("tag-{k}"), 0, false);
                        script_ok &= conn.send_unit(&r).await.is_ok();
                    }
                    arrived_before_close = outstanding;
                    // let the client consume them
                    let t0 = Instant::now();
                    while client_events("resolved") < outstanding && t0.elapsed() < Duration::from_secs(3) {
                        tokio::time::sleep(Duration::from_millis(2)).await;
                    }
                    script_ok &= client_events("resolved") >= outstanding;
                }
                _ => {} // after-hello-idle, between-request-and-reply
            }
        }
    }
    // how long the peer lingers between its last action and the close: the client may still be
    // busy with what it received, be parked already, or have been idle for a while
    tokio::time::sleep(Duration::from_millis(case["delay_ms"].as_u64().unwrap_or(20))).await;
    conn.close(manner).await;
    tracing::info!(target: "vh::peer", "peer-closed");
    let closed_at = Instant::now();
    let cpu_at_close = proc_cpu_ticks();
    // wait for the client, observing spin witnesses
    let mut verdict_extra: Option<Value> = None;
    let mut cl = cl;
    let log = loop {
        match tokio::time::timeout(Duration::from_millis(500), &mut cl).await {
            Ok(Ok(l)) => break Some(l),
            Ok(Err(e)) => {
                verdict_extra = Some(json!({"client_task": format!("{e:?}")}));
                break None;
            }
            Err(_) => {
                let v = trace::rx_view(0);
                if v.zero_reads >= 1000 {
                    verdict_extra = Some(json!({"spin_witness": "zero-length reads", "zero_length_reads": v.zero_reads}));
                    break None;
                }
                if closed_at.elapsed() > Duration::from_secs(14) {
                    break None;
                }
            }
        }
    };
    let wall = t_start.elapsed().as_secs_f64();
    let cpu = (proc_cpu_ticks() - cpu0) as f64 / 100.0;
    let after_close_wall = closed_at.elapsed().as_secs_f64();
    let cpu_after_close = (proc_cpu_ticks() - cpu_at_close) as f64 / 100.0;
    // CPU witness of a busy loop somewhere in the client (e.g. its SSH pump task): at least one
    // core fully busy for the whole wait after the close, and the wait was long enough to tell
    let busy = after_close_wall >= 1.5 && cpu_after_close >= 0.8 * after_close_wall;
    let Some(log) = log else {
        // the client never came back: spin (CPU) or hang
        let spin = verdict_extra.as_ref().map_or(false, |v| v.get("spin_witness").is_some()) || busy;
        return json!({"verdict": "violated", "symptoms": [if spin { "spin" } else { "hang" }], "cpu_s": cpu, "wall_s": wall, "after_close_s": after_close_wall, "cpu_after_close_s": cpu_after_close,
            "zero_length_reads": trace::rx_view(0).zero_reads, "extra": verdict_extra, "must_exit": true, "script_ok": script_ok});
    };
    let mut symptoms: Vec<String> = Vec::new();
    let mut outcomes = json!({"establish": log.establish.as_ref().map(|c| clip(c, 80)).map_err(|e| clip(e, 200))});
    match &log.establish {
        Err(e) if e == "TIMEOUT" => symptoms.push("establish-hang".into()),
        Err(_) => {}
        Ok(_) => {
            if point == "before-hello" || point == "inside-hello" || point == "hello-without-delimiter" {
                symptoms.push("established-without-hello".into());
            }
        }
    }
    for (k, r) in log.results.iter().enumerate() {
        match r {
            Res::Ok(_) if k < arrived_before_close => {}
            Res::Ok(_) => symptoms.push("pending-op-succeeded-after-close".into()),
            Res::Timeout | Res::SendTimeout => symptoms.push("pending-op-hang".into()),
            Res::Err(_) | Res::SendErr(_) => {
                if k < arrived_before_close {
                    // the reply had fully arrived before the close: an error is still acceptable
                }
            }
        }
    }
    match &log.subsequent {
        Some(Res::Ok(_)) if point == "pending-close-session" => symptoms.push("close-session-succeeded-although-the-peer-hung-up-without-answering".into()),
        Some(Res::Ok(_)) => symptoms.push("subsequent-op-succeeded-after-close".into()),
        Some(Res::Timeout | Res::SendTimeout) => symptoms.push("subsequent-op-hang".into()),
        _ => {}
    }
    if busy {
        symptoms.push("spin".into());
    }
    outcomes["results"] = json!(log.results.iter().map(Res::j).collect::<Vec<_>>());
    outcomes["subsequent"] = json!(log.subsequent.as_ref().map(Res::j));
    symptoms.sort();
    symptoms.dedup();
    let v = trace::rx_view(0);
    json!({
        "verdict": if !script_ok && symptoms.is_empty() { "not-exercised" } else if symptoms.is_empty() { "held" } else { "violated" },
        "symptoms": symptoms, "outcomes": outcomes, "cpu_s": cpu, "wall_s": wall, "after_close_s": after_close_wall, "cpu_after_close_s": cpu_after_close,
        "zero_length_reads": v.zero_reads, "script_ok": script_ok, "must_exit": busy,
    })
}

pub fn worker_main(args: &[String]) -> i32 {
    let cfg = Cfg::from_args(args);
    let file = cfg.extra.get("cases").cloned().unwrap_or_default();
    let from: usize = cfg.extra.get("from").and_then(|s| s.parse().ok()).unwrap_or(0);
    let text = match std::fs::read_to_string(&file) {
        Ok(t) => t,
        Err(e) => {
            eprintln!("worker: cannot read {file}: {e}");
            return 2;
        }
    };
    let cases: Vec<Value> = text.lines().filter(|l| !l.trim().is_empty()).filter_map(|l| serde_json::from_str(l).ok()).collect();
    let directives = cfg.extra.get("trace").cloned().unwrap_or_else(|| "netconf=trace,vh=trace,russh=warn".into());
    trace::init(&directives, cfg.extra.contains_key("full-text"));
    let rt = tokio::runtime::Builder::new_multi_thread().worker_threads(4).enable_all().build().expect("runtime");
    let out = std::io::stdout();
    for (i, case) in cases.iter().enumerate().skip(from) {
        {
            let mut o = out.lock();
            let _ = writeln!(o, "BEGIN {i}");
            let _ = o.flush();
        }
        trace::clear();
        let res = rt.block_on(async {
            match case["kind"].as_str() {
                Some("seg") => run_seg(case).await,
                Some("close") => run_close(case).await,
                Some(k) => crate::realwire2::run_other(k, case).await,
                None => json!({"verdict": "harness-error", "why": "case without kind"}),
            }
        });
        let must_exit = res["must_exit"].as_bool().unwrap_or(false);
        {
            let mut o = out.lock();
            let _ = writeln!(o, "END {i} {res}");
            let _ = o.flush();
        }
        if must_exit {
            // a spinning client task cannot be cancelled: leave, the parent starts a new worker
            std::process::exit(0);
        }
    }
    // do not wait for runtime shutdown (blocked tasks)
    std::process::exit(0);
}

// ------------------------------------------------------------------------------------------
// parent side: run a list of cases through workers, with a kill watchdog
// ------------------------------------------------------------------------------------------

pub struct CaseResult {
    pub case: Value,
    pub result: Value,
}

fn child_cpu_ticks(pid: u32) -> u64 {
    let s = std::fs::read_to_string(format!("/proc/{pid}/stat")).unwrap_or_default();
    let after = s.rsplit(')').next().unwrap_or("");
    let f: Vec<&str> = after.split_whitespace().collect();
    f.get(11).and_then(|x| x.parse::<u64>().ok()).unwrap_or(0) + f.get(12).and_then(|x| x.parse::<u64>().ok()).unwrap_or(0)
}

/// Run `cases` in up to `parallel` worker processes. Every case gets a result (possibly
/// `{"verdict":"violated","symptoms":["spin"|"hang"],"killed":true}` from the watchdog).
pub fn run_cases(cases: Vec<Value>, parallel: usize, extra_args: &[String], watchdog: Duration) -> Vec<CaseResult> {
    let dir = std::env::temp_dir().join(format!("vh-cases-{}-{}", std::process::id(), crate::util::fnv(format!("{:?}", Instant::now()).as_bytes())));
    let _ = std::fs::create_dir_all(&dir);
    let chunks: Vec<Vec<Value>> = {
        let mut v: Vec<Vec<Value>> = (0..parallel.max(1)).map(|_| Vec::new()).collect();
        for (i, c) in cases.into_iter().enumerate() {
            v[i % parallel.max(1)].push(c);
        }
        v.into_iter().filter(|c| !c.is_empty()).collect()
    };
    let exe = std::env::current_exe().expect("current_exe");
    let mut handles = Vec::new();
    for (w, chunk) in chunks.into_iter().enumerate() {
        let file = dir.join(format!("cases-{w}.jsonl"));
        let text: String = chunk.iter().map(|c| format!("{c}\n")).collect();
        let _ = std::fs::write(&file, text);
        let exe = exe.clone();
        let extra: Vec<String> = extra_args.to_vec();
        handles.push(std::thread::spawn(move || {
            let mut results: Vec<CaseResult> = Vec::new();
            let mut from = 0usize;
            while from < chunk.len() {
                let mut child = match Command::new(&exe)
                    .arg("worker")
                    .arg("--cases")
                    .arg(&file)
                    .arg("--from")
                    .arg(from.to_string())
                    .args(&extra)
                    .stdout(Stdio::piped())
                    .stderr(Stdio::null())
                    .spawn()
                {
                    Ok(c) => c,
                    Err(e) => {
                        results.push(CaseResult { case: chunk[from].clone(), result: json!({"verdict": "harness-error", "why": format!("spawn: {e}")}) });
                        from += 1;
                        continue;
                    }
                };
                let pid = child.id();
                let stdout = child.stdout.take().expect("stdout");
                let (tx, rx) = std::sync::mpsc::channel::<String>();
                std::thread::spawn(move || {
                    for line in BufReader::new(stdout).lines().map_while(Result::ok) {
                        if tx.send(line).is_err() {
                            break;
                        }
                    }
                });
                let mut current: Option<usize> = None;
                loop {
                    match rx.recv_timeout(watchdog) {
                        Ok(line) => {
                            if let Some(r) = line.strip_prefix("BEGIN ") {
                                current = r.trim().parse().ok();
                            } else if let Some(r) = line.strip_prefix("END ") {
                                let (i, body) = r.split_once(' ').unwrap_or((r, "{}"));
                                let i: usize = i.parse().unwrap_or(from);
                                let v: Value = serde_json::from_str(body).unwrap_or_else(|_| json!({"verdict": "harness-error", "why": "bad worker line"}));
                                results.push(CaseResult { case: chunk[i].clone(), result: v });
                                from = i + 1;
                                current = None;
                            }
                        }
                        Err(std::sync::mpsc::RecvTimeoutError::Timeout) => {
                            // classify: spin (CPU grows with wall time) or hang
                            let c0 = child_cpu_ticks(pid);
                            std::thread::sleep(Duration::from_millis(500));
                            let c1 = child_cpu_ticks(pid);
                            std::thread::sleep(Duration::from_millis(500));
                            let c2 = child_cpu_ticks(pid);
                            let spin = (c1 - c0) >= 40 && (c2 - c1) >= 40; // >= 80 % of a core in both windows
                            let _ = child.kill();
                            let _ = child.wait();
                            let i = current.unwrap_or(from);
                            if i < chunk.len() {
                                results.push(CaseResult {
                                    case: chunk[i].clone(),
                                    result: json!({"verdict": "violated", "symptoms": [if spin { "spin" } else { "hang" }], "killed": true,
                                        "cpu_ticks_per_500ms": [c1 - c0, c2 - c1], "watchdog_s": watchdog.as_secs_f64()}),
                                });
                            }
                            from = i + 1;
                            break;
                        }
                        Err(std::sync::mpsc::RecvTimeoutError::Disconnected) => {
                            let _ = child.wait();
                            if let Some(i) = current {
                                // worker died in the middle of a case without a result
                                results.push(CaseResult { case: chunk[i].clone(), result: json!({"verdict": "inconclusive", "why": "worker exited during the case"}) });
                                from = i + 1;
                            } else if from < chunk.len() && results.last().map_or(true, |_| true) {
                                // worker exited between cases (e.g. after must_exit): restart at `from`
                            }
                            break;
                        }
                    }
                }
                let _ = child.kill();
                let _ = child.wait();
            }
            results
        }));
    }
    let mut all = Vec::new();
    for h in handles {
        if let Ok(mut r) = h.join() {
            all.append(&mut r);
        }
    }
    let _ = std::fs::remove_dir_all(&dir);
    all
}

// ------------------------------------------------------------------------------------------
// C06 orchestration
// ------------------------------------------------------------------------------------------

fn seg_stream_layout(n: usize, pads: &[usize], id: u64, lookalike: bool) -> (usize, Vec<usize>) {
    // (total length, delimiter end offsets) of hello + n replies, as the worker will build them
    let mut stream = hello_bytes(&["urn:ietf:params:netconf:base:1.0"]);
    for k in 0..n {
        stream.extend(reply_bytes(k + 1, &format!("tag-{id}-{k}"), pads[k], lookalike));
    }
    (stream.len(), delimiter_ends(&stream))
}

pub fn run_c06(cfg: &Cfg) -> i32 {
    let mut rep = Report::new(
        "C06",
        cfg,
        "one evaluation = one real session over loopback TLS / SSH / a child process whose peer cuts the byte stream (hello + 1-6 replies) into scripted units (TLS records, channel-data packets, pipe writes), \
         waiting after every unit until the client's own trace shows it consumed the unit; distinct = distinct (transport, message sizes, cut set); non-trivial = at least one cut or grouping",
    );
    rep.assumptions.push("the client's trace events (read sizes, 'trying to read from transport', SSH pump events) faithfully report what it read; a case whose observed segmentation could not be produced is counted not_exercised, never a verdict".into());
    let trs: Vec<Tr> = match cfg.extra.get("transport").and_then(|t| Tr::parse(t)) {
        Some(t) => vec![t],
        None => vec![Tr::Tls, Tr::Ssh, Tr::Cli],
    };
    let mut cases: Vec<Value> = Vec::new();
    let mut id = 0u64;
    let mut push = |cases: &mut Vec<Value>, tr: Tr, n: usize, pads: Vec<usize>, cuts: Vec<usize>, pipelined: bool, lookalike: bool, class: &str| {
        id += 1;
        cases.push(json!({"kind": "seg", "id": id, "tr": tr.name(), "n": n, "pads": pads, "cuts": cuts, "pipelined": pipelined, "lookalike": lookalike, "class": class, "close_after": class.starts_with("peer-stops-sending")}));
    };
    let thorough = cfg.thorough();
    for &tr in &trs {
        // (1) every cut position inside every delimiter (two replies; also the hello's delimiter)
        let n = 2;
        let pads = vec![0, 24];
        let (_len, ends) = seg_stream_layout(n, &pads, 0, false);
        for (m, e) in ends.iter().enumerate() {
            for inside in 1..=5usize {
                for pipelined in [false, true] {
                    if !thorough && pipelined && m == 0 {
                        continue;
                    }
                    // tags have a fixed width per case id only up to digit count; recompute layout per id below
                    push(&mut cases, tr, n, pads.clone(), vec![e - 6 + inside], pipelined, false, &format!("cut-inside-delimiter:{inside}/6:message-{m}"));
                }
            }
        }
        // (2) cuts exactly at / just around delimiters, pairs
        for (m, e) in ends.iter().enumerate() {
            push(&mut cases, tr, n, pads.clone(), vec![*e], true, false, &format!("cut-after-delimiter:message-{m}"));
            push(&mut cases, tr, n, pads.clone(), vec![e - 6], true, false, &format!("cut-before-delimiter:message-{m}"));
            push(&mut cases, tr, n, pads.clone(), vec![e - 6, *e], true, false, &format!("cut-around-delimiter:message-{m}"));
            push(&mut cases, tr, n, pads.clone(), vec![e - 4, e - 2], true, false, &format!("two-cuts-inside-delimiter:message-{m}"));
        }
        // (3) several whole messages in one unit
        for k in 2..=4usize {
            let pads = vec![8; k];
            let (len, ends) = seg_stream_layout(k, &pads, 0, false);
            // hello alone, then k replies in one unit
            push(&mut cases, tr, k, pads.clone(), vec![ends[0]], true, false, &format!("multi-message-unit:{k}-replies-in-one-unit"));
            push(&mut cases, tr, k, pads.clone(), vec![ends[0]], false, false, &format!("multi-message-unit:{k}-replies-in-one-unit:sequential"));
            // hello and first reply in one unit
            push(&mut cases, tr, k, pads.clone(), vec![ends[1]], true, false, "multi-message-unit:hello-and-first-reply");
            // everything in one unit
            push(&mut cases, tr, k, pads.clone(), vec![], true, false, "multi-message-unit:everything-in-one-unit");
            let _ = len;
        }
        // (3b) the peer stops sending right after its last message (a server that answers
        // <close-session> and hangs up, a CLI process that exits): what it sent before is delivered
        for k in 1..=3usize {
            let pads = vec![8; k];
            let (_len, ends) = seg_stream_layout(k, &pads, 0, false);
            push(&mut cases, tr, k, pads.clone(), vec![ends[0]], true, false, &format!("peer-stops-sending-after-last-message:{k}-replies-in-one-unit"));
            push(&mut cases, tr, k, pads.clone(), ends.clone(), true, false, &format!("peer-stops-sending-after-last-message:{k}-replies-one-per-unit"));
        }
        // (3c) the peer's stream pauses exactly where a buffer of a typical capacity is full
        // (powers of two and their sums), one byte before and one byte after
        for t in [1024usize, 2048, 4096, 5120, 8192, 9216, 10240, 16384, 17408, 32768, 65536] {
            for d in [-1i64, 0, 1] {
                let end = (t as i64 + d) as usize;
                cases.push(json!({"kind": "seg", "id": 900_000 + cases.len() as u64, "tr": tr.name(), "n": 1, "pads": [0], "cuts": [], "pipelined": true, "lookalike": false,
                    "class": format!("stream-pauses-at-buffer-size:{}{}", t, match d { -1 => "-1", 0 => "", _ => "+1" }), "close_after": false, "end_at": end, "no_remap": true}));
            }
        }
        // (3d) SSH: the confirmation of the subsystem request (SSH_MSG_CHANNEL_SUCCESS) arrives
        // between two channel-data packets of the hello - RFC 4254 does not order it relative to data
        if tr == Tr::Ssh {
            let pads = vec![8];
            let (_len, ends) = seg_stream_layout(1, &pads, 0, false);
            let h = ends[0];
            for (c, what) in [(1usize, "after-the-first-byte"), (h / 2, "in-the-middle-of-the-hello"), (h - 3, "inside-the-hello's-delimiter"), (h, "after-the-complete-hello")] {
                cases.push(json!({"kind": "seg", "id": 950_000 + cases.len() as u64, "tr": tr.name(), "n": 1, "pads": pads, "cuts": if c == h { vec![h] } else { vec![c, h] }, "pipelined": true, "lookalike": false,
                    "class": format!("subsystem-confirmation-between-data-packets:{what}"), "close_after": false, "confirm_after_unit": 0, "no_remap": true}));
            }
        }
        // (4) 1-byte dribble of a short stream
        {
            let pads = vec![0];
            let (len, _) = seg_stream_layout(1, &pads, 0, false);
            push(&mut cases, tr, 1, pads, (1..len).collect(), false, false, "dribble");
        }
        // (5) look-alike content and large bodies
        push(&mut cases, tr, 2, vec![200, 300], vec![], true, true, "lookalike:whole");
        {
            let pads = vec![200, 300];
            let (len, _) = seg_stream_layout(2, &pads, 0, true);
            push(&mut cases, tr, 2, pads, (1..len).step_by(7).collect(), true, true, "lookalike:every-7-bytes");
        }
        push(&mut cases, tr, 2, vec![65536, 10], vec![], true, false, "large-body");
        // (6) random multi-cuts
        let nrand = cfg.count(if thorough { 0 } else { 40 }, 3000);
        for i in 0..nrand {
            let mut r = cfg.prng(&format!("C06-{}", tr.name()), cfg.case_index(i));
            let n = r.range(1, 6);
            let pads: Vec<usize> = (0..n).map(|_| *r.pick(&[0usize, 5, 40, 300, 2000])).collect();
            let (len, ends) = seg_stream_layout(n, &pads, 0, false);
            let mut cuts = Vec::new();
            for _ in 0..r.range(0, 6) {
                if r.chance(1, 2) {
                    let e = *r.pick(&ends);
                    cuts.push(e - r.below(7));
                } else {
                    cuts.push(r.below(len));
                }
            }
            push(&mut cases, tr, n, pads, cuts, r.chance(1, 2), r.chance(1, 4), "random");
        }
        // (7) exhaustive single cuts (thorough): every position of a short stream
        if thorough {
            let pads = vec![0, 0];
            let (len, _) = seg_stream_layout(2, &pads, 0, false);
            for c in 1..len {
                if (c as u64) % cfg.shards == cfg.shard {
                    push(&mut cases, tr, 2, pads.clone(), vec![c], true, false, "exhaustive-single-cut");
                }
            }
        }
    }
    // the tag embeds the case id, whose width shifts offsets: recompute cut offsets relative to
    // delimiter ends for the actual id
    for c in cases.iter_mut() {
        let id = c["id"].as_u64().unwrap();
        let n = c["n"].as_u64().unwrap() as usize;
        let pads: Vec<usize> = c["pads"].as_array().unwrap().iter().map(|x| x.as_u64().unwrap() as usize).collect();
        let look = c["lookalike"].as_bool().unwrap();
        let (_, e0) = seg_stream_layout(n, &pads, 0, look);
        let (len, e1) = seg_stream_layout(n, &pads, id, look);
        let cuts: Vec<usize> = c["cuts"].as_array().unwrap().iter().map(|x| x.as_u64().unwrap() as usize).collect();
        let mapped: Vec<usize> = cuts
            .iter()
            .map(|cut| {
                // keep the distance to the next delimiter end
                match e0.iter().position(|e| *e >= *cut) {
                    Some(m) => e1[m] - (e0[m] - cut),
                    None => (*cut).min(len - 1),
                }
            })
            .collect();
        c["cuts"] = json!(mapped);
        // features for the signature
        let mut feats: Vec<&str> = Vec::new();
        if mapped.iter().any(|cut| e1.iter().any(|e| *cut > e - 6 && *cut < *e)) {
            feats.push("cut-inside-delimiter");
        }
        let mut bounds = mapped.clone();
        bounds.sort_unstable();
        bounds.push(len);
        let mut prev = 0;
        let mut multi = false;
        for b in bounds {
            if e1.iter().filter(|e| **e > prev && **e <= b).count() >= 2 {
                multi = true;
            }
            prev = b;
        }
        if multi {
            feats.push("multiple-messages-per-unit");
        }
        // the most specific feature names the class (a cut inside a delimiter usually also leaves several messages in the following unit)
        c["features"] = json!(if feats.is_empty() { "plain".to_string() } else { feats.join("+") });
    }
    let total = cases.len();
    let results = run_cases(cases, 16, &[], Duration::from_secs(40));
    let mut not_ex = 0;
    for cr in &results {
        let c = &cr.case;
        let r = &cr.result;
        let key = format!("{}|{}|{}|{}", c["tr"], c["pads"], c["cuts"], c["pipelined"]);
        let nontrivial = c["cuts"].as_array().map_or(false, |a| !a.is_empty()) || c["n"].as_u64().unwrap_or(0) >= 2;
        rep.case(if nontrivial { Some(key.as_bytes()) } else { None });
        rep.count(&format!("cases:{}", c["tr"].as_str().unwrap_or("?")));
        rep.count(&format!("class:{}", c["class"].as_str().unwrap_or("?").split(':').next().unwrap_or("?")));
        rep.count_n("client_reads_observed", r["observed_read_count"].as_u64().unwrap_or(0) + r["ssh_packets"].as_u64().unwrap_or(0));
        match r["verdict"].as_str().unwrap_or("") {
            "held" => rep.count("held"),
            "violated" => {
                let symptoms: Vec<String> = r["symptoms"].as_array().map(|a| a.iter().filter_map(|s| s.as_str().map(ToString::to_string)).collect()).unwrap_or_default();
                let primary = if symptoms.iter().any(|s| s == "needs-further-traffic") { "not-delivered-without-further-traffic" } else if symptoms.iter().any(|s| s == "never-delivered") { "never-delivered" } else if symptoms.iter().any(|s| s == "wrong-message") { "wrong-message" } else { symptoms.first().map_or("other", String::as_str) };
                rep.violation(
                    &format!("{}:{}:{}", c["tr"].as_str().unwrap_or("?"), c["features"].as_str().unwrap_or("?"), primary),
                    &format!("symptoms {symptoms:?} for case class {}", c["class"]),
                    json!({"case": c, "result": r, "seed": cfg.seed}),
                );
            }
            "not-exercised" => {
                not_ex += 1;
                rep.inconclusive(&format!("case {} ({})", c["id"], c["class"]), r["not_exercised"].as_str().unwrap_or("not exercised"));
            }
            other => rep.inconclusive(&format!("case {} ({})", c["id"], c["class"]), &format!("{other}: {}", r["why"].as_str().unwrap_or(""))),
        }
        if rep.samples.len() < rep.max_samples && r["verdict"] == "held" && c["cuts"].as_array().map_or(false, |a| !a.is_empty()) {
            rep.sample(json!({"case": c, "scripted_units": r["scripted_units"], "observed_reads": r["observed_reads"], "ssh_packets": r["ssh_packets"], "results": r["results"]}));
        }
    }
    // a read that is abandoned half-way (the reply future that was reading is dropped after part
    // of a message has arrived) is one more way the stream gets split between reads: what the
    // next reader is handed must still be the peer's messages, complete and in order
    if cfg.shard == 0 {
        let mut extra = Vec::new();
        let mut id = 1_000_000;
        for &tr in &trs {
            for which in [0, 1] {
                for f in [1, 2, 3] {
                    id += 1;
                    extra.push(json!({"kind": "drop-partial", "id": id, "tr": tr.name(), "drop": which, "fraction": f}));
                }
            }
        }
        for cr in &run_cases(extra, 12, &[], Duration::from_secs(40)) {
            let (c, r) = (&cr.case, &cr.result);
            let key = format!("abandoned|{}|{}|{}", c["tr"], c["drop"], c["fraction"]);
            rep.case(Some(key.as_bytes()));
            rep.count("class:reader-abandoned-mid-message");
            match r["verdict"].as_str().unwrap_or("") {
                "held" => rep.count("held"),
                "violated" => {
                    let symptoms: Vec<String> = r["symptoms"].as_array().map(|a| a.iter().filter_map(|s| s.as_str().map(ToString::to_string)).collect()).unwrap_or_default();
                    rep.violation(&format!("{}:reader-abandoned-mid-message:{}", c["tr"].as_str().unwrap_or("?"), symptoms.first().cloned().unwrap_or_default()), &format!("{symptoms:?}"), json!({"case": c, "result": r}));
                }
                other => rep.inconclusive(&key, &format!("{other}: {}", r["why"].as_str().unwrap_or(""))),
            }
        }
    }
    rep.extra.insert("cases_generated".into(), json!(total));
    rep.extra.insert("cases_with_result".into(), json!(results.len()));
    rep.extra.insert("not_exercised".into(), json!(not_ex));
    if results.len() < total {
        rep.inconclusive("workers", &format!("{} cases produced no result", total - results.len()));
    }
    rep.finish()
}

// ------------------------------------------------------------------------------------------
// C07 orchestration
// ------------------------------------------------------------------------------------------

pub fn run_c07(cfg: &Cfg) -> i32 {
    let mut rep = Report::new(
        "C07",
        cfg,
        "one evaluation = one real session over loopback TLS / SSH / a child process whose peer closes at a scripted point (before / inside the hello, idle after the hello, inside a reply, between request and reply, after the reply) in a scripted manner (clean, SSH channel close, abrupt = RST, fin-only = TCP FIN without TLS close_notify / SSH goodbye) with 0, 1, 3 or 8 requests outstanding, the peer lingering 0 / 20 / 150 ms before the close; \
         distinct = distinct (transport, point, manner, outstanding, fraction, linger); all are non-trivial",
    );
    rep.assumptions.push("spin = >= 1000 zero-length reads in the client's trace after the close, or >= 80 % CPU over the wait; hang = no completion within the watchdog with an idle CPU, confirmed by repeating the case twice (3/3), else inconclusive".into());
    let trs: Vec<Tr> = match cfg.extra.get("transport").and_then(|t| Tr::parse(t)) {
        Some(t) => vec![t],
        None => vec![Tr::Tls, Tr::Ssh, Tr::Cli],
    };
    let thorough = cfg.thorough();
    let mut cases = Vec::new();
    let mut id = 0;
    for &tr in &trs {
        let manners: Vec<&str> = match tr {
            Tr::Ssh => vec!["clean", "channel-close", "abrupt", "fin-only"],
            Tr::Tls => vec!["clean", "abrupt", "fin-only"],
            _ => vec!["clean", "abrupt", "exit-leaving-a-helper-that-holds-stderr", "stdout-closed-while-the-process-stays"],
        };
        for point in ["before-hello", "inside-hello", "hello-without-delimiter", "after-hello-idle", "inside-reply", "reply-without-delimiter", "between-request-and-reply", "after-reply", "pending-close-session"] {
            for manner in &manners {
                let outs: Vec<usize> = match point {
                    "before-hello" | "inside-hello" | "hello-without-delimiter" | "after-hello-idle" => vec![0],
                    "pending-close-session" if thorough => vec![0, 1],
                    "pending-close-session" => vec![0],
                    _ if thorough => vec![1, 3, 8],
                    "between-request-and-reply" | "inside-reply" => vec![1, 3],
                    _ => vec![1],
                };
                for o in outs {
                    let fractions: Vec<u64> = if (point == "inside-reply" || point == "inside-hello") && thorough { vec![1, 2, 3] } else { vec![2] };
                    for f in fractions {
                        // linger before the close: thorough = each of 0 / 20 / 150 ms, quick = one of
                        // them, chosen by the seed
                        let delays: Vec<u64> = if thorough { vec![0, 20, 150] } else { vec![[0, 20, 20, 150][((cfg.seed as usize) + id as usize) % 4]] };
                        for d in delays {
                            id += 1;
                            cases.push(json!({"kind": "close", "id": id, "tr": tr.name(), "point": point, "manner": manner, "outstanding": o, "fraction": f, "delay_ms": d}));
                        }
                    }
                }
            }
        }
    }
    if cfg.shards > 1 {
        cases = cases.into_iter().enumerate().filter(|(i, _)| (*i as u64) % cfg.shards == cfg.shard).map(|(_, c)| c).collect();
    }
    let total = cases.len();
    let mut results = run_cases(cases, 16, &[], Duration::from_secs(30));
    // hang verdicts rest on the watchdog alone: confirm by re-running the same case twice
    let hangs: Vec<Value> = results
        .iter()
        .filter(|r| r.result["verdict"] == "violated" && r.result["symptoms"].as_array().map_or(false, |a| a.iter().all(|s| s.as_str().map_or(false, |s| s.contains("hang")))))
        .map(|r| r.case.clone())
        .collect();
    if !hangs.is_empty() {
        let mut again = Vec::new();
        for h in &hangs {
            again.push(h.clone());
            again.push(h.clone());
        }
        let re = run_cases(again, 16, &[], Duration::from_secs(30));
        for h in &hangs {
            let confirmed = re.iter().filter(|r| r.case["id"] == h["id"] && r.result["verdict"] == "violated").count();
            if confirmed < 2 {
                for r in results.iter_mut() {
                    if r.case["id"] == h["id"] {
                        r.result = json!({"verdict": "inconclusive", "why": format!("hang seen once but only confirmed {confirmed}/2 times on repetition")});
                    }
                }
            } else {
                rep.count("hangs_confirmed_3_of_3");
            }
        }
    }
    for cr in &results {
        let c = &cr.case;
        let r = &cr.result;
        let key = format!("{}|{}|{}|{}|{}|{}", c["tr"], c["point"], c["manner"], c["outstanding"], c["fraction"], c["delay_ms"]);
        rep.case(Some(key.as_bytes()));
        rep.count(&format!("cases:{}", c["tr"].as_str().unwrap_or("?")));
        rep.count(&format!("linger_before_close_ms:{}", c["delay_ms"]));
        rep.count_n("zero_length_reads_observed", r["zero_length_reads"].as_u64().unwrap_or(0));
        match r["verdict"].as_str().unwrap_or("") {
            "held" => rep.count("held"),
            "violated" => {
                let symptoms: Vec<String> = r["symptoms"].as_array().map(|a| a.iter().filter_map(|s| s.as_str().map(ToString::to_string)).collect()).unwrap_or_default();
                let primary = if symptoms.iter().any(|s| s == "spin") { "spin" } else if symptoms.iter().any(|s| s.contains("hang")) { "hang" } else { symptoms.first().map_or("other", String::as_str) };
                rep.violation(
                    &format!("{}:{}:{}:{}", c["tr"].as_str().unwrap_or("?"), c["manner"].as_str().unwrap_or("?"), c["point"].as_str().unwrap_or("?"), primary),
                    &format!("peer closed ({} / {}), client: {symptoms:?}", c["point"], c["manner"]),
                    json!({"case": c, "result": r, "seed": cfg.seed}),
                );
            }
            "not-exercised" => rep.inconclusive(&format!("case {}", c["id"]), "the scripted close point could not be produced"),
            other => rep.inconclusive(&format!("case {}", c["id"]), &format!("{other}: {}", r["why"].as_str().unwrap_or(""))),
        }
        if rep.samples.len() < rep.max_samples && r["verdict"] == "held" {
            rep.sample(json!({"case": c, "outcomes": r["outcomes"], "cpu_s": r["cpu_s"], "after_close_s": r["after_close_s"]}));
        }
    }
    rep.extra.insert("cases_generated".into(), json!(total));
    rep.extra.insert("cases_with_result".into(), json!(results.len()));
    let _ = Prng::new(0);
    rep.finish()
}

// ------------------------------------------------------------------------------------------
// C12b: framing after the hello, over the real transports
// ------------------------------------------------------------------------------------------

pub fn run_c12b(cfg: &Cfg) -> i32 {
    let mut rep = Report::new(
        "C12",
        cfg,
        "one evaluation = one real session (TLS / SSH / child process) against a server that advertises a subset of {:base:1.0, :base:1.1} and, as RFC 6242 4.1 requires, switches to chunked framing after the hello exchange iff both peers advertised :base:1.1; \
         distinct = distinct (transport, advertised versions); non-trivial = all",
    );
    let mut cases = Vec::new();
    let mut id = 0;
    for tr in [Tr::Tls, Tr::Ssh, Tr::Cli] {
        for versions in [vec!["1.0"], vec!["1.1"], vec!["1.0", "1.1"], vec![]] {
            id += 1;
            cases.push(json!({"kind": "framing", "id": id, "tr": tr.name(), "server_versions": versions}));
            if versions == vec!["1.0"] {
                // hellos whose delimiter lies across the 32 KiB / 64 KiB marks (SSH channel packet
                // size, pipe and TLS record sizes), every position of the delimiter
                let lens: Vec<u64> = if cfg.thorough() { (32_766..=32_776).chain(16_384..=16_391).chain(65_534..=65_543).collect() } else { vec![32_769, 32_771, 32_773, 32_774, 65_539] };
                for l in lens {
                    id += 1;
                    cases.push(json!({"kind": "framing", "id": id, "tr": tr.name(), "server_versions": ["1.0"], "hello_len": l, "manner": format!("hello-of-{l}-bytes")}));
                }
            }
        }
    }
    // "well-formed hello": a hello whose end-of-message delimiter never comes (the stream ends
    // right where it should begin) is not a complete message, whatever its XML looks like
    for tr in [Tr::Tls, Tr::Ssh, Tr::Cli] {
        for manner in ["clean", "abrupt"] {
            id += 1;
            cases.push(json!({"kind": "close", "id": id, "tr": tr.name(), "point": "hello-without-delimiter", "manner": manner, "outstanding": 0, "fraction": 2, "server_versions": "hello without delimiter, then close"}));
        }
    }
    let results = run_cases(cases, 12, &[], Duration::from_secs(40));
    for cr in &results {
        let (c, r) = (&cr.case, &cr.result);
        let key = format!("{}|{}|{}", c["tr"], c["server_versions"], c["manner"]);
        rep.case(Some(key.as_bytes()));
        if c["kind"] == "close" {
            let symptoms: Vec<String> = r["symptoms"].as_array().map(|a| a.iter().filter_map(|s| s.as_str().map(ToString::to_string)).collect()).unwrap_or_default();
            if symptoms.iter().any(|s| s == "established-without-hello") {
                rep.violation(&format!("establish:accepted:hello-without-delimiter:{}", c["tr"].as_str().unwrap_or("?")), "a session was reported as established although the server's hello was never terminated by the end-of-message delimiter", json!({"case": c, "result": r}));
            } else if r["verdict"] == "held" || r["verdict"] == "violated" {
                // (hangs and spins at this point are C07's business)
                rep.count("unterminated_hello_not_accepted");
            } else {
                rep.inconclusive(&key, &format!("{}: {}", r["verdict"].as_str().unwrap_or(""), r["why"].as_str().unwrap_or("")));
            }
            continue;
        }
        match r["verdict"].as_str().unwrap_or("") {
            "held" => rep.count("held"),
            "violated" => {
                let symptoms: Vec<String> = r["symptoms"].as_array().map(|a| a.iter().filter_map(|s| s.as_str().map(ToString::to_string)).collect()).unwrap_or_default();
                let primary = symptoms.first().cloned().unwrap_or_default();
                rep.violation(&format!("framing:{}:{primary}", c["tr"].as_str().unwrap_or("?")), &format!("server advertises {}: {symptoms:?}", c["server_versions"]), json!({"case": c, "result": r}));
            }
            other => rep.inconclusive(&key, &format!("{other}: {}", r["why"].as_str().unwrap_or(""))),
        }
        rep.count(&format!("request_framing:{}", r["request_framing_seen_by_server"].as_str().unwrap_or("?")));
        if rep.samples.len() < rep.max_samples {
            rep.sample(json!({"case": c, "establish": r["establish"], "request_framing_seen_by_server": r["request_framing_seen_by_server"], "first_rpc": r["first_rpc"]}));
        }
    }
    rep.finish()
}

// ------------------------------------------------------------------------------------------
// C18b: drop the reader while a message has partly arrived
// ------------------------------------------------------------------------------------------

pub fn run_c18b(cfg: &Cfg) -> i32 {
    let mut rep = Report::new(
        "C18",
        cfg,
        "one evaluation = one real session with two outstanding requests in which the future that is reading from the transport is dropped (timeout) after part of another request's reply has arrived; the survivor and a fresh request must complete; \
         distinct = distinct (transport, which future reads, cut fraction); non-trivial = all",
    );
    let mut cases = Vec::new();
    let mut id = 0;
    for tr in [Tr::Tls, Tr::Ssh, Tr::Cli] {
        for which in [0, 1] {
            for f in [1, 2, 3] {
                id += 1;
                cases.push(json!({"kind": "drop-partial", "id": id, "tr": tr.name(), "drop": which, "fraction": f}));
            }
        }
    }
    // a backlog of replies nobody reads: n requests, all but two abandoned unpolled, every reply
    // sent at once (queue capacities between transport and session: 32 on SSH)
    for tr in [Tr::Tls, Tr::Ssh, Tr::Cli] {
        let ns: Vec<usize> = if cfg.thorough() { vec![8, 31, 32, 33, 34, 40, 64, 65, 66, 100, 200] } else { vec![32, 34, 40, 70] };
        for n in ns {
            id += 1;
            cases.push(json!({"kind": "backlog", "id": id, "tr": tr.name(), "n": n, "keep": 2, "drop": format!("backlog-of-{n}"), "fraction": "all-but-two-abandoned-unpolled"}));
        }
    }
    for tr in [Tr::Tls, Tr::Ssh, Tr::Cli] {
        for polled in [false, true] {
            id += 1;
            cases.push(json!({"kind": "drop-close", "id": id, "tr": tr.name(), "polled": polled, "drop": "close-session-future", "fraction": if polled { "polled" } else { "unpolled" }}));
        }
    }
    let results = run_cases(cases, 12, &[], Duration::from_secs(40));
    for cr in &results {
        let (c, r) = (&cr.case, &cr.result);
        let key = format!("{}|{}|{}", c["tr"], c["drop"], c["fraction"]);
        rep.case(Some(key.as_bytes()));
        if c["kind"] == "drop-close" {
            // abandoning the future returned by Session::close() gives up the session object
            // itself; C18 speaks of a session that remains: recorded, not judged (the SSH transport
            // hangs up when the session's send half goes away, TLS and the child process do not)
            rep.count(&format!("observed_not_judged:session-dropped-with-a-request-outstanding:{}:survivor-{}", c["tr"].as_str().unwrap_or("?"),
                if r["verdict"] == "held" { "got-its-reply" } else if r["verdict"] == "violated" { "failed" } else { "not-exercised" }));
            continue;
        }
        match r["verdict"].as_str().unwrap_or("") {
            "held" => rep.count("held"),
            "violated" => {
                let symptoms: Vec<String> = r["symptoms"].as_array().map(|a| a.iter().filter_map(|s| s.as_str().map(ToString::to_string)).collect()).unwrap_or_default();
                rep.violation(&format!("{}:{}:{}", c["kind"].as_str().unwrap_or("drop-partial"), c["tr"].as_str().unwrap_or("?"), symptoms.first().cloned().unwrap_or_default()), &format!("{symptoms:?}"), json!({"case": c, "result": r}));
            }
            other => rep.inconclusive(&key, &format!("{other}: {}", r["why"].as_str().unwrap_or(""))),
        }
        if rep.samples.len() < rep.max_samples {
            rep.sample(json!({"case": c, "client": r["client"], "cut_at": r["cut_at"], "reply_len": r["reply_len"]}));
        }
    }
    rep.finish()
}

/// C05 over the real transports (the in-memory scheduler stage explores interleavings; this one
/// exercises the same demultiplexing with the transports' own buffering underneath it).
pub fn run_c05_real(cfg: &Cfg) -> i32 {
    let mut rep = Report::new(
        "C05",
        cfg,
        "one evaluation = one real session over loopback TLS / SSH / a child process with 1-3 batches of 2-6 pipelined requests, each batch answered in a random permutation whose byte stream is cut into random units \
         (several replies, or parts of replies, per TLS record / channel-data packet / pipe write); reply futures awaited in issue order, reverse order or as concurrently spawned tasks on a 4-thread runtime; \
         distinct = distinct (transport, batch size, rounds, await mode, script seed); non-trivial = all",
    );
    let n = cfg.count(600, 30_000);
    let mut cases = Vec::new();
    for i in 0..n {
        let idx = cfg.case_index(i);
        let mut r = cfg.prng("C05-real", idx);
        let tr = [Tr::Tls, Tr::Ssh, Tr::Cli][(idx % 3) as usize];
        let mode = ["in-order", "reverse", "spawned"][((idx / 3) % 3) as usize];
        cases.push(json!({"kind": "demux", "id": idx + 1, "tr": tr.name(), "n": r.range(2, 6), "rounds": r.range(1, 3), "await": mode, "seed": cfg.seed}));
    }
    let results = run_cases(cases, 16, &[], Duration::from_secs(60));
    for cr in &results {
        let (c, r) = (&cr.case, &cr.result);
        let key = format!("{}|{}|{}|{}|{}", c["tr"], c["n"], c["rounds"], c["await"], c["id"]);
        rep.case(Some(key.as_bytes()));
        rep.count(&format!("await:{}", c["await"].as_str().unwrap_or("?")));
        rep.count(&format!("transport:{}", c["tr"].as_str().unwrap_or("?")));
        match r["verdict"].as_str().unwrap_or("") {
            "held" => {
                rep.count("held");
                rep.count_n("replies_matched_to_their_request", r["replies_checked"].as_u64().unwrap_or(0));
            }
            "violated" => {
                let symptoms: Vec<String> = r["symptoms"].as_array().map(|a| a.iter().filter_map(|s| s.as_str().map(ToString::to_string)).collect()).unwrap_or_default();
                for sy in &symptoms {
                    rep.violation(&format!("real:{}:{sy}", c["tr"].as_str().unwrap_or("?")), &format!("{symptoms:?}"), json!({"case": c, "result": r}));
                }
            }
            other => rep.inconclusive(&key, &format!("{other}: {}", r["why"].as_str().unwrap_or(""))),
        }
        if rep.samples.len() < rep.max_samples {
            rep.sample(json!({"case": c, "script": r["script"], "client": r["client"]}));
        }
    }
    rep.finish()
}

/// C10 over the real transports: large requests.
pub fn run_c10_real(cfg: &Cfg) -> i32 {
    let mut rep = Report::new(
        "C10",
        cfg,
        "one evaluation = one real session (TLS / SSH / child process) over which a load-configuration request with a text payload of 100 B - 1.2 MB (metacharacters, quotes, non-ASCII, ]]>) and then a small request are sent (the small one after the large one was answered, or directly behind it); the peer checks that it received each as one well-formed document followed by one delimiter and recovers the payload; \
         distinct = distinct (transport, size); non-trivial = payload larger than a pipe buffer (64 KiB)",
    );
    let sizes: Vec<usize> = if cfg.thorough() { vec![100, 4_000, 65_000, 65_536, 66_000, 131_072, 300_000, 1_200_000, 5_000_000] } else { vec![100, 65_000, 70_000, 300_000, 1_200_000] };
    let mut cases = Vec::new();
    let mut id = 0;
    for tr in [Tr::Tls, Tr::Ssh, Tr::Cli] {
        for &size in &sizes {
            id += 1;
            cases.push(json!({"kind": "big-request", "id": id, "tr": tr.name(), "size": size}));
            if size >= 65_000 {
                id += 1;
                cases.push(json!({"kind": "big-request", "id": id, "tr": tr.name(), "size": size, "pipelined": true}));
            }
        }
    }
    let results = run_cases(cases, 8, &[], Duration::from_secs(90));
    for cr in &results {
        let (c, r) = (&cr.case, &cr.result);
        let key = format!("{}|{}|{}", c["tr"], c["size"], c["pipelined"]);
        rep.case(if c["size"].as_u64().unwrap_or(0) > 65_536 { Some(key.as_bytes()) } else { None });
        if c["pipelined"] == true {
            rep.count("cases_with_the_next_request_handed_over_directly_behind_the_large_one");
        }
        rep.count_n("payload_bytes_sent", r["payload_bytes"].as_u64().unwrap_or(0));
        match r["verdict"].as_str().unwrap_or("") {
            "held" => rep.count("held"),
            "violated" => {
                let symptoms: Vec<String> = r["symptoms"].as_array().map(|a| a.iter().filter_map(|s| s.as_str().map(ToString::to_string)).collect()).unwrap_or_default();
                let primary = symptoms.first().map(|s| s.split('(').next().unwrap_or("").to_string()).unwrap_or_default();
                rep.violation(&format!("real:{}:{primary}", c["tr"].as_str().unwrap_or("?")), &format!("{symptoms:?}"), json!({"case": c, "result": r}));
            }
            other => rep.inconclusive(&key, &format!("{other}: {}", r["why"].as_str().unwrap_or(""))),
        }
    }
    rep.finish()
}

// ------------------------------------------------------------------------------------------
// C20 (library part): credentials in the TRACE output of the three transports
// ------------------------------------------------------------------------------------------

const PW_ATOMS: &[&str] = &["correct", "horse", "Tr0ub4dor&3", "\"quoted\"", "back\\slash", " space ", "tab\t", "pässwörd", "日本語", "'single'", "{brace}", "%25", "$HOME", "a=b;c", "ünï"];

pub fn gen_password(r: &mut Prng) -> String {
    let mut s = String::new();
    while s.len() < 14 {
        s.push_str(*r.pick(PW_ATOMS));
        s.push_str(&format!("{}", r.below(1000)));
    }
    // what a secrets file, a here-document or `echo` without -n leave at the end (or a pasted
    // value at the start)
    match r.below(8) {
        0 => s.push('\n'),
        1 => s.push_str("\r\n"),
        2 => s.insert(0, ' '),
        3 => s.push_str("\n\n"),
        _ => {}
    }
    // first characters to which command-line tools give a meaning of their own (curl's `@file`,
    // openssl's `file:` / `env:` / `pass:`, an option dash, a home directory): here they are
    // simply part of the password
    match r.below(10) {
        0 | 1 => s.insert(0, '@'),
        2 => s.insert_str(0, "file:"),
        3 => s.insert_str(0, "env:"),
        4 => s.insert_str(0, "pass:"),
        5 => s.insert(0, '-'),
        6 => s.insert_str(0, "~/"),
        _ => {}
    }
    s
}

pub fn run_c20_lib(cfg: &Cfg) -> i32 {
    let mut rep = Report::new(
        "C20",
        cfg,
        "one evaluation = one connection attempt (successful or failing) over SSH / TLS / child process with a fresh secret, while a capturing subscriber records the complete TRACE-level output (span fields and bridged `log` records included), which is then searched for every >= 12-byte window of the secret in clear, Debug-escaped, hex (6 separator styles), base64 (3 alignments, 2 alphabets) and byte-list form; \
         distinct = distinct (transport, outcome, secret); non-trivial = all",
    );
    rep.assumptions.push("trivially encoded = the encodings enumerated in harness/src/secrets.rs".into());
    let mut cases = Vec::new();
    let n = cfg.count(36, 900);
    for i in 0..n {
        let idx = cfg.case_index(i);
        let mut r = cfg.prng("C20", idx);
        let unusual = crate::peers::UNUSUAL_KEYS[(idx as usize) % crate::peers::UNUSUAL_KEYS.len()];
        // every unusual key once, then at random
        let pick = if (idx as usize) < crate::peers::UNUSUAL_KEYS.len() { 10 } else { r.below(13) };
        let (tr, outcome, key, cert) = match pick {
            12 => ("ssh", "server-hangs-up-on-the-password-request", "", ""),
            10 | 11 => ("tls", "unusable-key", unusual.0, unusual.1),
            0 => ("tls", "success", "client.key", "client.crt"),
            1 => ("tls", "success", "client.sec1.key", "client.crt"),
            2 => ("tls", "success", "client-rsa.key", "client-rsa.crt"),
            3 => ("tls", "success", "client-rsa.pkcs1.key", "client-rsa.crt"),
            4 => ("tls", "untrusted-ca", "client.key", "client.crt"),
            5 => ("tls", "peer-closes-during-hello", "client-rsa.key", "client-rsa.crt"),
            6 => ("ssh", "wrong-password", "", ""),
            7 => ("ssh", "peer-closes-during-hello", "", ""),
            8 => ("cli", "success", "", ""),
            _ => ("ssh", "success", "", ""),
        };
        cases.push(json!({"kind": "creds", "id": idx, "tr": tr, "outcome": outcome, "password": gen_password(&mut r), "key": key, "cert": cert}));
    }
    let results = run_cases(cases, 12, &["--trace".into(), "vh=trace".into(), "--full-text".into(), "1".into()], Duration::from_secs(40));
    for cr in &results {
        let (c, r) = (&cr.case, &cr.result);
        let key = format!("{}|{}|{}|{}", c["tr"], c["outcome"], c["password"], c["key"]);
        rep.case(Some(key.as_bytes()));
        rep.count(&format!("attempts:{}:{}", c["tr"].as_str().unwrap_or("?"), c["outcome"].as_str().unwrap_or("?")));
        rep.count_n("log_bytes_searched", r["log_bytes"].as_u64().unwrap_or(0));
        rep.count_n("log_lines_searched", r["log_lines"].as_u64().unwrap_or(0));
        match r["verdict"].as_str().unwrap_or("") {
            "held" => rep.count("held"),
            "violated" => {
                for h in r["hits"].as_array().cloned().unwrap_or_default() {
                    let secret = h["secret"].as_str().unwrap_or("?").split(':').next().unwrap_or("?").to_string();
                    rep.violation(
                        &format!("{}:{}:{}:{}", c["tr"].as_str().unwrap_or("?"), secret, h["encoding"].as_str().unwrap_or("?").split('(').next().unwrap_or("?"), h["target"].as_str().unwrap_or("?")),
                        &format!("{} appears in the log ({}), emitted by {}", h["secret"], h["encoding"], h["target"]),
                        json!({"case": {"tr": c["tr"], "outcome": c["outcome"]}, "hit": h, "client": r["client"]}),
                    );
                }
            }
            other => rep.inconclusive(&key, &format!("{other}: {}", r["why"].as_str().unwrap_or(""))),
        }
        if rep.samples.len() < rep.max_samples {
            rep.sample(json!({"tr": c["tr"], "outcome": c["outcome"], "client": r["client"], "log_lines": r["log_lines"], "secrets_checked": r["secrets_checked"]}));
        }
    }
    rep.finish()
}


/// C14 over the real transports: absurd sizes with traffic behind them.
pub fn run_c14_real(cfg: &Cfg) -> i32 {
    let mut rep = Report::new(
        "C14",
        cfg,
        "one evaluation = one real session (TLS / SSH / child process) with two requests outstanding: the reply to the first is 20 kB - 1 MB of text inside a <data> that is never closed, and its last kilobyte, its delimiter and the complete valid reply to the second request arrive in one unit; \
         the first request must fail, the second must get its reply; distinct = distinct (transport, size)",
    );
    let sizes: Vec<usize> = if cfg.thorough() { vec![2_000, 20_000, 65_000, 65_537, 70_000, 100_000, 131_073, 300_000, 1_000_000] } else { vec![20_000, 70_000, 100_000, 300_000] };
    let mut cases = Vec::new();
    let mut id = 0;
    for tr in [Tr::Tls, Tr::Ssh, Tr::Cli] {
        for &size in &sizes {
            id += 1;
            cases.push(json!({"kind": "oversized", "id": id, "tr": tr.name(), "size": size}));
        }
    }
    let results = run_cases(cases, 8, &[], Duration::from_secs(60));
    for cr in &results {
        let (c, r) = (&cr.case, &cr.result);
        let key = format!("oversized|{}|{}", c["tr"], c["size"]);
        rep.case(Some(key.as_bytes()));
        match r["verdict"].as_str().unwrap_or("") {
            "held" => rep.count("held"),
            "violated" => {
                let symptoms: Vec<String> = r["symptoms"].as_array().map(|a| a.iter().filter_map(|s| s.as_str().map(ToString::to_string)).collect()).unwrap_or_default();
                rep.violation(&format!("real:{}:{}", c["tr"].as_str().unwrap_or("?"), symptoms.first().cloned().unwrap_or_default()), &format!("{symptoms:?}"), json!({"case": c, "result": r}));
            }
            other => rep.inconclusive(&key, &format!("{other}: {}", r["why"].as_str().unwrap_or(""))),
        }
    }
    rep.finish()
}
