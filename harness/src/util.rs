//! Shared plumbing: splittable PRNG, run configuration, result report.

use serde_json::{json, Map, Value};
use std::collections::{BTreeMap, BTreeSet};
use std::time::Instant;

/// splitmix64-seeded xoshiro256** — deterministic, no dependency, works under Miri.
#[derive(Clone, Debug)]
pub struct Prng {
    s: [u64; 4],
}

fn splitmix(x: &mut u64) -> u64 {
    *x = x.wrapping_add(0x9E37_79B9_7F4A_7C15);
    let mut z = *x;
    z = (z ^ (z >> 30)).wrapping_mul(0xBF58_476D_1CE4_E5B9);
    z = (z ^ (z >> 27)).wrapping_mul(0x94D0_49BB_1331_11EB);
    z ^ (z >> 31)
}

impl Prng {
    pub fn new(seed: u64) -> Self {
        let mut x = seed ^ 0x5DEE_CE66_D1CE_4E5B;
        let s = [splitmix(&mut x), splitmix(&mut x), splitmix(&mut x), splitmix(&mut x)];
        Self { s }
    }
    /// derive an independent stream: seed -> property -> case index
    pub fn derive(seed: u64, label: &str, index: u64) -> Self {
        let mut h: u64 = 0xcbf2_9ce4_8422_2325;
        for b in label.bytes() {
            h ^= u64::from(b);
            h = h.wrapping_mul(0x1000_0000_01b3);
        }
        Self::new(seed.wrapping_mul(0x9E37_79B9_7F4A_7C15) ^ h ^ index.wrapping_mul(0xD6E8_FEB8_6659_FD93))
    }
    pub fn next_u64(&mut self) -> u64 {
        let r = self.s[1].wrapping_mul(5).rotate_left(7).wrapping_mul(9);
        let t = self.s[1] << 17;
        self.s[2] ^= self.s[0];
        self.s[3] ^= self.s[1];
        self.s[1] ^= self.s[2];
        self.s[0] ^= self.s[3];
        self.s[2] ^= t;
        self.s[3] = self.s[3].rotate_left(45);
        r
    }
    /// uniform in 0..n (n > 0)
    pub fn below(&mut self, n: usize) -> usize {
        debug_assert!(n > 0);
        (self.next_u64() % (n as u64)) as usize
    }
    pub fn range(&mut self, lo: usize, hi_incl: usize) -> usize {
        lo + self.below(hi_incl - lo + 1)
    }
    pub fn chance(&mut self, num: u32, den: u32) -> bool {
        (self.next_u64() % u64::from(den)) < u64::from(num)
    }
    pub fn pick<'a, T>(&mut self, xs: &'a [T]) -> &'a T {
        &xs[self.below(xs.len())]
    }
    pub fn pick_str(&mut self, xs: &[&'static str]) -> &'static str {
        xs[self.below(xs.len())]
    }
    pub fn shuffle<T>(&mut self, xs: &mut [T]) {
        for i in (1..xs.len()).rev() {
            let j = self.below(i + 1);
            xs.swap(i, j);
        }
    }
    pub fn bytes(&mut self, n: usize) -> Vec<u8> {
        (0..n).map(|_| self.next_u64() as u8).collect()
    }
}

pub fn fnv(data: &[u8]) -> u64 {
    let mut h: u64 = 0xcbf2_9ce4_8422_2325;
    for b in data {
        h ^= u64::from(*b);
        h = h.wrapping_mul(0x1000_0000_01b3);
    }
    h
}

#[derive(Clone, Debug, PartialEq, Eq)]
pub enum Tier {
    Quick,
    Thorough,
}

#[derive(Clone, Debug)]
pub struct Cfg {
    pub tier: Tier,
    pub seed: u64,
    pub out: Option<String>,
    /// shard i of n (thorough tier runs several processes)
    pub shard: u64,
    pub shards: u64,
    /// scale factor on the number of cases (miri/asan stages use < 1)
    pub scale: f64,
    /// free-form stage name (main, dev, miri, asan)
    pub stage: String,
    /// replay a single case
    pub replay: Option<String>,
    pub extra: BTreeMap<String, String>,
}

impl Cfg {
    pub fn from_args(args: &[String]) -> Self {
        let mut cfg = Self {
            tier: Tier::Quick,
            seed: 1,
            out: None,
            shard: 0,
            shards: 1,
            scale: 1.0,
            stage: "main".into(),
            replay: None,
            extra: BTreeMap::new(),
        };
        let mut i = 0;
        while i < args.len() {
            let a = args[i].as_str();
            let v = args.get(i + 1).cloned().unwrap_or_default();
            match a {
                "--tier" => cfg.tier = if v == "thorough" { Tier::Thorough } else { Tier::Quick },
                "--seed" => cfg.seed = v.parse().unwrap_or(1),
                "--out" => cfg.out = Some(v),
                "--shard" => cfg.shard = v.parse().unwrap_or(0),
                "--shards" => cfg.shards = v.parse().unwrap_or(1),
                "--scale" => cfg.scale = v.parse().unwrap_or(1.0),
                "--stage" => cfg.stage = v,
                "--replay" => cfg.replay = Some(v),
                _ if a.starts_with("--") => {
                    cfg.extra.insert(a[2..].to_string(), v);
                }
                _ => {
                    i += 1;
                    continue;
                }
            }
            i += 2;
        }
        cfg
    }
    pub fn thorough(&self) -> bool {
        self.tier == Tier::Thorough
    }
    /// number of cases for this process: `quick` or `thorough` base, scaled and sharded
    pub fn count(&self, quick: u64, thorough: u64) -> u64 {
        let base = if self.thorough() { thorough } else { quick };
        let scaled = ((base as f64) * self.scale).ceil() as u64;
        (scaled / self.shards.max(1)).max(1)
    }
    /// global case index of the i-th local case (distinct across shards)
    pub fn case_index(&self, i: u64) -> u64 {
        i * self.shards.max(1) + self.shard
    }
    pub fn prng(&self, label: &str, i: u64) -> Prng {
        Prng::derive(self.seed, label, i)
    }
}

#[derive(Clone, Debug)]
pub struct Violation {
    /// narrow signature naming the input class (matched against known_findings.json)
    pub signature: String,
    pub detail: String,
    pub witness: Value,
}

/// What one `vh <property>` process observed.
pub struct Report {
    pub property: String,
    pub cfg: Cfg,
    pub started: Instant,
    pub evaluations: u64,
    /// hashes of distinct non-trivial cases
    pub distinct: BTreeSet<u64>,
    pub rule: String,
    pub samples: Vec<Value>,
    pub max_samples: usize,
    pub observed: BTreeMap<String, u64>,
    pub violations: Vec<Violation>,
    pub inconclusive: Vec<Value>,
    pub observations: Vec<Value>,
    pub exhaustive: Option<bool>,
    pub assumptions: Vec<String>,
    pub extra: Map<String, Value>,
    /// cap on stored violations per signature (counts are still exact)
    pub violation_counts: BTreeMap<String, u64>,
}

impl Report {
    pub fn new(property: &str, cfg: &Cfg, rule: &str) -> Self {
        Self {
            property: property.into(),
            cfg: cfg.clone(),
            started: Instant::now(),
            evaluations: 0,
            distinct: BTreeSet::new(),
            rule: rule.into(),
            samples: Vec::new(),
            max_samples: 6,
            observed: BTreeMap::new(),
            violations: Vec::new(),
            inconclusive: Vec::new(),
            observations: Vec::new(),
            exhaustive: None,
            assumptions: Vec::new(),
            extra: Map::new(),
            violation_counts: BTreeMap::new(),
        }
    }
    pub fn count(&mut self, key: &str) {
        *self.observed.entry(key.into()).or_insert(0) += 1;
    }
    pub fn count_n(&mut self, key: &str, n: u64) {
        *self.observed.entry(key.into()).or_insert(0) += n;
    }
    /// one evaluated case; `nontrivial_key` is Some(bytes identifying the case) if it is non-trivial
    pub fn case(&mut self, nontrivial_key: Option<&[u8]>) {
        self.evaluations += 1;
        if let Some(k) = nontrivial_key {
            self.distinct.insert(fnv(k));
        }
    }
    pub fn sample(&mut self, v: Value) {
        if self.samples.len() < self.max_samples {
            self.samples.push(v);
        }
    }
    pub fn violation(&mut self, signature: &str, detail: &str, witness: Value) {
        let n = self.violation_counts.entry(signature.into()).or_insert(0);
        *n += 1;
        if *n <= 3 {
            self.violations.push(Violation {
                signature: signature.into(),
                detail: detail.into(),
                witness,
            });
        }
    }
    pub fn inconclusive(&mut self, what: &str, why: &str) {
        if self.inconclusive.len() < 50 {
            self.inconclusive.push(json!({"what": what, "why": why}));
        }
        self.count("inconclusive");
    }
    pub fn observe(&mut self, v: Value) {
        if self.observations.len() < 40 {
            self.observations.push(v);
        }
    }
    pub fn to_json(&self) -> Value {
        json!({
            "property": self.property,
            "stage": self.cfg.stage,
            "tier": if self.cfg.thorough() { "thorough" } else { "quick" },
            "seed": self.cfg.seed,
            "shard": self.cfg.shard,
            "shards": self.cfg.shards,
            "evaluations": self.evaluations,
            "distinct_nontrivial": self.distinct.len(),
            "distinct_hashes": self.distinct.iter().take(200_000).collect::<Vec<_>>(),
            "rule": self.rule,
            "samples": self.samples,
            "observed": self.observed,
            "violations": self.violations.iter().map(|v| json!({
                "signature": v.signature, "detail": v.detail, "witness": v.witness,
            })).collect::<Vec<_>>(),
            "violation_counts": self.violation_counts,
            "inconclusive": self.inconclusive,
            "observations": self.observations,
            "exhaustive": self.exhaustive,
            "assumptions": self.assumptions,
            "extra": self.extra,
            "wall_s": self.started.elapsed().as_secs_f64(),
        })
    }
    /// write the report (to --out, else stdout); returns the process exit code:
    /// 0 nothing violated, 1 violations present (driver decides known vs new), 2 harness error
    pub fn finish(self) -> i32 {
        let v = self.to_json();
        let text = serde_json::to_string(&v).unwrap();
        match &self.cfg.out {
            Some(path) => {
                if let Err(e) = std::fs::write(path, &text) {
                    eprintln!("vh: cannot write {path}: {e}");
                    return 2;
                }
            }
            None => println!("{text}"),
        }
        eprintln!(
            "vh {} [{}] evaluations={} distinct={} violations={:?} inconclusive={} wall={:.1}s",
            self.property,
            self.cfg.stage,
            self.evaluations,
            self.distinct.len(),
            self.violation_counts,
            self.inconclusive.len(),
            self.started.elapsed().as_secs_f64()
        );
        if self.violation_counts.is_empty() {
            0
        } else {
            1
        }
    }
}

/// truncate long strings for witnesses / samples
pub fn clip(s: &str, n: usize) -> String {
    if s.len() <= n {
        s.to_string()
    } else {
        let mut end = n;
        while !s.is_char_boundary(end) {
            end -= 1;
        }
        format!("{}…[{} bytes]", &s[..end], s.len())
    }
}

pub fn clip_bytes(b: &[u8], n: usize) -> String {
    clip(&String::from_utf8_lossy(b), n)
}
