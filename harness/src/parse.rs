//! C13 (parsing is invariant under XML-equivalent serialisations) and C14 (arbitrary bytes give an
//! error, never a panic or hang, and do not disturb other outstanding requests).

use crate::bases::{self, Base, Kind};
use crate::dom::{self, Style, N, BASE, JCMD, XNM};
use crate::memwire::MARKER;
use crate::sess::{self, panic_message, Established, Exchange, Sess};
use crate::util::{clip, clip_bytes, Cfg, Prng, Report};
use netconf::message::rpc::operation::junos::load_configuration::{Config, Merge, Text};
use netconf::message::rpc::operation::junos::{CloseConfiguration, LoadConfiguration};
use netconf::message::rpc::operation::{Builder, Datastore, Get, Lock};
use serde_json::json;
use std::panic::{catch_unwind, AssertUnwindSafe};
use std::sync::atomic::{AtomicU64, Ordering};
use std::sync::Arc;

/// Parse outcome, comparable across variants of the same message.
#[derive(Clone, Debug, PartialEq, Eq)]
pub enum Outcome {
    /// accepted; the parsed value (Debug / canonical rendering)
    Value(String),
    /// the server's errors were reported (accepted as an error reply); rendering of the list
    RpcErrors(String),
    /// rejected with a local parse / protocol error (class only)
    Rejected(String),
    Panic(String),
    Stuck,
}

impl Outcome {
    pub fn accepted(&self) -> bool {
        matches!(self, Outcome::Value(_) | Outcome::RpcErrors(_))
    }
    pub fn short(&self) -> String {
        match self {
            Outcome::Value(v) => format!("Value({})", clip(v, 160)),
            Outcome::RpcErrors(v) => format!("RpcErrors({})", clip(v, 160)),
            Outcome::Rejected(v) => format!("Rejected({})", clip(v, 200)),
            Outcome::Panic(v) => format!("Panic({})", clip(v, 200)),
            Outcome::Stuck => "Stuck".into(),
        }
    }
}

fn from_exchange<T: std::fmt::Debug>(e: Exchange<T>) -> Outcome {
    match e {
        Exchange::Reply { result: Ok(v), .. } => Outcome::Value(format!("{v:?}")),
        Exchange::Reply { result: Err(netconf::Error::RpcError(errs)), .. } => {
            Outcome::RpcErrors(errs.iter().map(|e| format!("{e:?}")).collect::<Vec<_>>().join("\n"))
        }
        Exchange::Reply { result: Err(e), .. } => Outcome::Rejected(format!("{e:?}")),
        Exchange::BuildErr { err, .. } => Outcome::Rejected(format!("harness: request refused: {err}")),
        Exchange::Stuck { .. } => Outcome::Stuck,
        Exchange::Panic { msg } => Outcome::Panic(msg),
    }
}

/// Feed `bytes` (a complete message; for replies "@ID@" is replaced by the request's message-id)
/// to the real parser for `kind`.
pub fn eval(kind: Kind, s: &mut Sess, bytes: &[u8]) -> Outcome {
    let with_id = |id: Option<&str>| -> Option<Vec<u8>> {
        let id = id.unwrap_or("0").as_bytes();
        let mut out = Vec::with_capacity(bytes.len() + 8);
        let mut i = 0;
        while i < bytes.len() {
            if bytes[i..].starts_with(b"@ID@") {
                out.extend_from_slice(id);
                i += 4;
            } else if bytes[i..].starts_with(b"&#64;ID@") {
                // the placeholder with its first character written as a character reference:
                // the id with its first digit written as one
                out.extend_from_slice(format!("&#x{:x};", id[0]).as_bytes());
                out.extend_from_slice(&id[1..]);
                i += 8;
            } else {
                out.push(bytes[i]);
                i += 1;
            }
        }
        Some(out)
    };
    match kind {
        Kind::Hello => match sess::establish(bytes) {
            Established::Ok(s) => Outcome::Value(crate::sched::context_info(&s.session)),
            Established::Err(e) => Outcome::Rejected(e),
            Established::Stuck => Outcome::Stuck,
            Established::Panic(m) => Outcome::Panic(m),
        },
        Kind::ReplyEmpty => from_exchange(s.exchange::<Lock, _, _>(|b| b.target(Datastore::Running)?.finish(), with_id)),
        Kind::ReplyData => from_exchange(s.exchange::<Get, _, _>(|b| b.finish(), with_id)),
        Kind::ReplyBare => from_exchange(s.exchange::<CloseConfiguration, _, _>(|b| b.finish(), with_id)),
        Kind::ReplyLoad => from_exchange(s.exchange::<LoadConfiguration<Config<String, Text, Merge>>, _, _>(
            |b| b.source(Config::new("x".to_string(), Text, Merge)).finish(),
            with_id,
        )),
        #[cfg(feature = "full")]
        Kind::Candidates => {
            let text = String::from_utf8_lossy(bytes).into_owned();
            match catch_unwind(AssertUnwindSafe(|| agent::verif::read_candidates(&text))) {
                Ok(Ok(v)) => Outcome::Value(format!("{v:?}")),
                Ok(Err(e)) => Outcome::Rejected(e),
                Err(p) => Outcome::Panic(panic_message(p)),
            }
        }
        #[cfg(feature = "full")]
        Kind::Installed => {
            let text = String::from_utf8_lossy(bytes).into_owned();
            match catch_unwind(AssertUnwindSafe(|| agent::verif::read_installed(&text))) {
                Ok(Ok(v)) => Outcome::Value(format!("{v:?}")),
                Ok(Err(e)) => Outcome::Rejected(e),
                Err(p) => Outcome::Panic(panic_message(p)),
            }
        }
        #[cfg(not(feature = "full"))]
        _ => Outcome::Rejected("agent readers not built in this configuration".into()),
    }
}

fn is_message(kind: Kind) -> bool {
    !matches!(kind, Kind::Candidates | Kind::Installed)
}

// =============================================================================== C13

#[derive(Clone, Debug, PartialEq, Eq, PartialOrd, Ord)]
pub enum Atom {
    Prefix(&'static str),
    Indent,
    Decl,
    DeclForm(usize),
    DefaultStartEnd,
    Pad(usize),
    Comment(usize, usize),
    RevAttrs(usize),
    SingleQuote(usize),
    FlipEmpty(usize),
    LocalPrefix(usize),
    RedeclareNs(usize),
    CommentInText(usize),
    UnusedDecl(usize),
    PadCr(usize),
    CharRefAttrs(usize),
}

fn style_of(atoms: &[Atom], kind: Kind) -> Style {
    let mut st = Style::default();
    for a in atoms {
        match a {
            Atom::Prefix(ns) => {
                let p = match *ns {
                    BASE => "nc",
                    XNM => "x",
                    JCMD => "j",
                    _ => "q",
                };
                st.prefix.push((*ns, p.to_string()));
            }
            Atom::Indent => st.indent = true,
            Atom::Decl => st.decl = true,
            Atom::DeclForm(f) => {
                st.decl = true;
                st.decl_form = *f;
            }
            Atom::DefaultStartEnd => st.default_start_end = true,
            Atom::Pad(s) => st.pad_token.push(*s),
            Atom::Comment(s, p) => st.comments.push((*s, *p)),
            Atom::RevAttrs(s) => st.reverse_attrs.push(*s),
            Atom::SingleQuote(s) => st.single_quote.push(*s),
            Atom::FlipEmpty(s) => st.flip_empty.push(*s),
            Atom::LocalPrefix(s) => st.local_prefix.push(*s),
            Atom::RedeclareNs(s) => st.redeclare_ns.push(*s),
            Atom::CommentInText(s) => st.comment_in_text.push(*s),
            Atom::UnusedDecl(s) => st.unused_decl.push(*s),
            Atom::PadCr(s) => st.pad_token_cr.push(*s),
            Atom::CharRefAttrs(s) => st.charref_attrs.push(*s),
        }
    }
    if is_message(kind) {
        st.trailer = MARKER.to_string();
    }
    st
}

/// every single rewrite applicable to `tree`
fn atoms_for(tree: &N) -> Vec<Atom> {
    let mut v = vec![Atom::Indent, Atom::Decl, Atom::DeclForm(1), Atom::DeclForm(2), Atom::DeclForm(3), Atom::DeclForm(4)];
    let sites = dom::sites(tree);
    let mut nss: Vec<&'static str> = Vec::new();
    for (_, n, _) in &sites {
        if !nss.contains(&n.ns) && !n.ns.is_empty() {
            nss.push(n.ns);
        }
        for (ans, _, _) in &n.attrs {
            if *ans == JCMD && !nss.contains(&JCMD) {
                nss.push(JCMD);
            }
        }
    }
    for ns in nss {
        v.push(Atom::Prefix(ns));
    }
    for (site, n, _) in &sites {
        if n.token && n.text.is_some() {
            v.push(Atom::Pad(*site));
            v.push(Atom::PadCr(*site));
        }
        if !n.attrs.is_empty() {
            v.push(Atom::CharRefAttrs(*site));
        }
        if !n.kids.is_empty() {
            for p in 0..=n.kids.len() {
                v.push(Atom::Comment(*site, p));
            }
        } else if n.text.as_deref().map_or(true, str::is_empty) && n.name != "data" {
            // a comment as the only content of an empty element: <ok><!-- note --></ok>
            // (not inside <data>: its content is the caller's payload, handed over verbatim)
            v.push(Atom::Comment(*site, 0));
        }
        let nattrs = n.attrs.len() + usize::from(*site == 0);
        if nattrs >= 2 {
            v.push(Atom::RevAttrs(*site));
        }
        if nattrs >= 1 {
            v.push(Atom::SingleQuote(*site));
        }
        if n.kids.is_empty() && n.text.as_deref().map_or(true, str::is_empty) {
            v.push(Atom::FlipEmpty(*site));
        }
        if n.kids.is_empty() && n.text.as_deref().map_or(false, |t| !t.is_empty()) && n.name != "data" {
            v.push(Atom::CommentInText(*site));
        }
        if !n.ns.is_empty() && n.kids.is_empty() && n.attrs.iter().all(|(ns, _, _)| ns.is_empty()) && *site != 0 {
            v.push(Atom::UnusedDecl(*site));
        }
        if !n.ns.is_empty() {
            v.push(Atom::LocalPrefix(*site));
            if *site != 0 {
                v.push(Atom::RedeclareNs(*site));
            }
        }
    }
    v
}

fn atom_label(a: &Atom, tree: &N) -> String {
    let sites = dom::sites(tree);
    let name = |s: usize| sites.get(s).map_or("?".to_string(), |(_, n, _)| n.name.clone());
    let parent_child = |s: usize, p: usize| {
        let n = sites[s].1;
        if n.kids.is_empty() {
            return format!("{}:as-only-content", n.name);
        }
        let before = if p < n.kids.len() { n.kids[p].name.as_str() } else { "(end)" };
        format!("{}:before-{}", n.name, before)
    };
    match a {
        Atom::Prefix(ns) => format!("prefix-for-{}", match *ns { BASE => "base", XNM => "xnm", JCMD => "jcmd", _ => "other" }),
        Atom::Indent => "inter-element-whitespace".into(),
        Atom::Decl => "xml-declaration".into(),
        Atom::DeclForm(f) => format!("xml-declaration:{}", ["upper-case-encoding", "lower-case-encoding", "single-quotes-mixed-case-standalone", "version-only", "extra-white-space"][f % 5]),
        Atom::DefaultStartEnd => "all-empty-elements-as-start-end".into(),
        Atom::Pad(s) => format!("{}:whitespace-around-token", name(*s)),
        Atom::Comment(s, p) => format!("{}:comment", parent_child(*s, *p)),
        Atom::RevAttrs(s) => format!("{}:attribute-order", name(*s)),
        Atom::SingleQuote(s) => format!("{}:single-quoted-attributes", name(*s)),
        Atom::FlipEmpty(s) => format!("{}:empty->start-end", name(*s)),
        Atom::LocalPrefix(s) => format!("{}:prefix-declared-on-the-element-itself", name(*s)),
        Atom::RedeclareNs(s) => format!("{}:namespace-redeclared", name(*s)),
        Atom::CommentInText(s) => format!("{}:comment-inside-text", name(*s)),
        Atom::UnusedDecl(s) => format!("{}:unused-declaration-on-a-leaf-rebinding-what-its-siblings-use", name(*s)),
        Atom::PadCr(s) => format!("{}:whitespace-with-cr-and-tab-around-token", name(*s)),
        Atom::CharRefAttrs(s) => format!("{}:attribute-value-with-character-reference", name(*s)),
    }
}

fn atom_label_rel(a: &Atom, tree: &N, base_atoms: &[Atom]) -> String {
    match a {
        Atom::FlipEmpty(s) if base_atoms.contains(a) => {
            let sites = dom::sites(tree);
            format!("{}:start-end->empty", sites.get(*s).map_or("?".to_string(), |(_, n, _)| n.name.clone()))
        }
        _ => atom_label(a, tree),
    }
}

fn eval_style(base: &Base, atoms: &[Atom], s: &mut Sess) -> (Outcome, String) {
    let text = dom::serialise(&base.tree, &style_of(atoms, base.kind));
    (eval(base.kind, s, text.as_bytes()), text)
}

/// symmetric difference: the variant style = base style with `atoms` toggled
fn toggle(base_atoms: &[Atom], atoms: &[Atom]) -> Vec<Atom> {
    let mut v: Vec<Atom> = base_atoms.iter().filter(|a| !atoms.contains(a)).cloned().collect();
    v.extend(atoms.iter().filter(|a| !base_atoms.contains(a)).cloned());
    v
}

/// The accepted form of a base: the default serialisation, or, if the reader rejects a childless
/// element written as <x/>, the form with that element written <x></x>.
fn accepted_form(base: &Base, s: &mut Sess) -> Option<(Vec<Atom>, Outcome, String)> {
    let (o, t) = eval_style(base, &[], s);
    if o.accepted() {
        return Some((vec![], o, t));
    }
    for a in atoms_for(&base.tree) {
        if let Atom::FlipEmpty(_) = a {
            let (o, t) = eval_style(base, std::slice::from_ref(&a), s);
            if o.accepted() {
                return Some((vec![a], o, t));
            }
        }
    }
    None
}

/// Canonical rendering of the XML information content of a serialised message, computed with the
/// harness' own strict parser: namespace-resolved element and attribute names, attributes sorted,
/// comments / the XML declaration / namespace declarations dropped, white space between elements
/// dropped, leaf text trimmed if `trim_leaves`. Two serialisations the harness claims to be
/// equivalent must have the same rendering: this guards the rewrites themselves.
fn infoset(text: &str) -> Result<String, String> {
    use crate::xmlstrict::{Elem, Node};
    let body = text.strip_suffix(MARKER).unwrap_or(text);
    let doc = crate::xmlstrict::parse(body.as_bytes()).map_err(|e| format!("not well-formed at {}: {}", e.pos, e.msg))?;
    fn go(e: &Elem, scope: &[(String, String)], out: &mut String) -> Result<(), String> {
        let mut sc: Vec<(String, String)> = scope.to_vec();
        for (k, v) in &e.attrs {
            if k == "xmlns" {
                sc.push((String::new(), v.clone()));
            } else if let Some(p) = k.strip_prefix("xmlns:") {
                sc.push((p.to_string(), v.clone()));
            }
        }
        let resolve = |q: &str, is_attr: bool| -> Result<String, String> {
            match q.split_once(':') {
                Some((p, l)) => sc.iter().rev().find(|(k, _)| k == p).map(|(_, ns)| format!("{{{ns}}}{l}")).ok_or_else(|| format!("unbound prefix {p}")),
                None if is_attr => Ok(q.to_string()),
                None => Ok(format!("{{{}}}{q}", sc.iter().rev().find(|(k, _)| k.is_empty()).map_or("", |(_, ns)| ns.as_str()))),
            }
        };
        out.push('<');
        out.push_str(&resolve(&e.name, false)?);
        let mut attrs: Vec<(String, String)> = Vec::new();
        for (k, v) in &e.attrs {
            if k == "xmlns" || k.starts_with("xmlns:") {
                continue;
            }
            attrs.push((resolve(k, true)?, v.clone()));
        }
        attrs.sort();
        for (k, v) in attrs {
            out.push_str(&format!(" {k}={v:?}"));
        }
        out.push('>');
        let has_elems = e.elems().next().is_some();
        for n in &e.children {
            match n {
                Node::Elem(c) => go(c, &sc, out)?,
                Node::Text(t) => {
                    if has_elems {
                        if !t.trim().is_empty() {
                            out.push_str(&format!("[mixed:{t:?}]"));
                        }
                    } else {
                        out.push_str(&format!("[{:?}]", t.trim()));
                    }
                }
                _ => {}
            }
        }
        out.push_str("</>");
        Ok(())
    }
    let mut out = String::new();
    go(&doc.root, &[], &mut out)?;
    // an element without content and one with empty text are the same
    Ok(out.replace("[\"\"]", ""))
}

pub fn run_c13(cfg: &Cfg) -> i32 {
    let mut rep = Report::new(
        "C13",
        cfg,
        "one evaluation = one XML-equivalent re-serialisation (one rewrite at one site, or a random composition) of an accepted base message, parsed by the real reader for that message kind and compared with the base's parse result; \
         distinct = distinct serialised variants; every variant differs from its base and is non-trivial",
    );
    rep.assumptions.push("rewrites are information-preserving for these grammars: prefix vs default namespace, inter-element whitespace, whitespace around token-valued leaves only, comments between elements and after a leaf's text, attribute order and quoting, XML declaration (five spellings), <x/> vs <x></x>, a prefix declared on the element itself, a redundant re-declaration, an unused declaration on a leaf; the characters of free-text leaves are never touched".into());
    // the base family is fixed (independent of VERIF_SEED) so that signatures are stable
    let bases = bases::bases(0);
    let caps: Vec<&str> = crate::memwire::ALL_CAPS.to_vec();
    let mut s = sess::establish_ok(&caps);
    let miri = cfg.stage == "miri";
    let mut check = |rep: &mut Report, base: &Base, base_atoms: &[Atom], atoms: &[Atom], base_out: &Outcome, s: &mut Sess, how: &str| {
        let (out, text) = eval_style(base, &toggle(base_atoms, atoms), s);
        rep.case(Some(text.as_bytes()));
        rep.count(&format!("variants:{}", base.kind.name()));
        // the harness' own claim first: the variant has the information content of the base
        if !miri {
            let base_text = dom::serialise(&base.tree, &style_of(base_atoms, base.kind));
            match (infoset(&base_text), infoset(&text)) {
                (Ok(a), Ok(b)) if a == b => rep.count("variants_whose_infoset_equals_the_base_per_the_strict_parser"),
                (a, b) => {
                    rep.violation("harness:rewrite-not-equivalent", &format!("the harness' rewrite does not preserve the information content: {:?} vs {:?}", a.map(|x| clip(&x, 300)), b.map(|x| clip(&x, 300))),
                        json!({"base": base.label, "atoms": format!("{atoms:?}"), "variant": clip(&text, 800)}));
                    return;
                }
            }
        }
        if out == *base_out {
            return;
        }
        // delta-debug the composition to a minimal failing set of rewrites
        let mut min: Vec<Atom> = atoms.to_vec();
        let mut changed = true;
        while changed && min.len() > 1 {
            changed = false;
            for k in 0..min.len() {
                let mut t = min.clone();
                t.remove(k);
                if eval_style(base, &toggle(base_atoms, &t), s).0 != *base_out {
                    min = t;
                    changed = true;
                    break;
                }
            }
        }
        let mut labels: Vec<String> = min.iter().map(|a| atom_label_rel(a, &base.tree, base_atoms)).collect();
        labels.sort();
        labels.dedup();
        let (mout, mtext) = eval_style(base, &toggle(base_atoms, &min), s);
        // the two rewrites behind the recorded reader limitations (text taken as the raw span up to
        // the end tag; a declaration on a skipped or text-only element staying in scope) carry the
        // kind of wrong outcome in their signature, so that a different failure at the same site
        // is a different signature
        let class = if min.len() == 1 && matches!(min[0], Atom::CommentInText(_) | Atom::UnusedDecl(_)) {
            match &mout {
                Outcome::Rejected(_) => ":rejected",
                Outcome::Panic(_) => ":panic",
                _ => ":different-result",
            }
        } else {
            ""
        };
        rep.violation(
            &format!("{}/{}{class}", base.kind.name(), labels.join("+")),
            &format!("base parses to {}, the equivalent variant to {}", base_out.short(), mout.short()),
            json!({"base": base.label, "rewrites": labels, "variant": clip(&mtext, 1200), "how": how, "seed": cfg.seed,
                   "original_composition": format!("{atoms:?}"), "original_outcome": out.short(), "original_variant": clip(&text, 400)}),
        );
    };
    let mut ncomp = if miri { cfg.count(6, 60) } else { cfg.count(5_000, 1_000_000) };
    let mut forms: Vec<Option<(Vec<Atom>, Outcome)>> = Vec::new();
    for (bi, base) in bases.iter().enumerate() {
        if !cfg!(feature = "full") && matches!(base.kind, Kind::Candidates | Kind::Installed) {
            // the agent's readers are not part of the interpreter build
            forms.push(None);
            continue;
        }
        let Some((base_atoms, base_out, base_text)) = accepted_form(base, &mut s) else {
            rep.violation("harness:base-not-accepted", &base.label, json!({"base": clip(&dom::serialise(&base.tree, &style_of(&[], base.kind)), 800)}));
            forms.push(None);
            continue;
        };
        forms.push(Some((base_atoms.clone(), base_out.clone())));
        if miri && bi % 3 != (cfg.shard % 3) as usize {
            continue;
        }
        rep.count("bases");
        if rep.samples.len() < 3 {
            rep.sample(json!({"base": base.label, "kind": base.kind.name(), "text": clip(&base_text, 500), "parsed": base_out.short()}));
        }
        let atoms = atoms_for(&base.tree);
        // every single rewrite at every applicable site (shard 0 only: it is a fixed finite set)
        if cfg.shard == 0 || miri {
            for (k, a) in atoms.iter().enumerate() {
                if miri && k % 7 != 0 {
                    continue;
                }
                check(&mut rep, base, &base_atoms, std::slice::from_ref(a), &base_out, &mut s, "single");
            }
        }
    }
    // random compositions
    let mut i = 0u64;
    while ncomp > 0 {
        let idx = cfg.case_index(i);
        i += 1;
        ncomp -= 1;
        let mut r = cfg.prng("C13", idx);
        let bi = r.below(bases.len());
        let base = &bases[bi];
        let Some((base_atoms, base_out)) = forms[bi].clone() else { continue };
        // (the two rewrites with recorded findings are exercised singly only: in a composition the
        // minimisation could settle on them and hide another rewrite that fails too)
        let atoms: Vec<Atom> = atoms_for(&base.tree).into_iter().filter(|a| !matches!(a, Atom::CommentInText(_) | Atom::UnusedDecl(_))).collect();
        let k = r.range(2, 6.min(atoms.len()));
        let mut pick: Vec<Atom> = (0..k).map(|_| atoms[r.below(atoms.len())].clone()).collect();
        pick.sort();
        pick.dedup();
        if i % 1500 == 0 {
            s = sess::establish_ok(&caps);
        }
        check(&mut rep, base, &base_atoms, &pick, &base_out, &mut s, &format!("composition case_index={idx}"));
        if rep.samples.len() < rep.max_samples && i % 701 == 0 {
            rep.sample(json!({"base": base.label, "composition": pick.iter().map(|a| atom_label(a, &base.tree)).collect::<Vec<_>>(),
                "variant": clip(&dom::serialise(&base.tree, &style_of(&toggle(&base_atoms, &pick), base.kind)), 500)}));
        }
    }
    rep.finish()
}

// =============================================================================== C14

/// numbers at and next to every width a reader might parse into, plus non-numbers that look like one
const ABSURD: &[&str] = &[
    "-1", "0", "1", "255", "256", "65535", "65536", "2147483647", "2147483648", "4294967295", "4294967296", "9223372036854775807", "9223372036854775808",
    "18446744073709551613", "18446744073709551614", "18446744073709551615", "18446744073709551616", "340282366920938463463374607431768211455",
    "340282366920938463463374607431768211456", "99999999999999999999999999999999999999999", "00000000000000000000000000000000000000001", "1e9", "0x7fffffff", "+3", " 5", "٣",
];

/// every number that is the whole content of an element or the whole value of an attribute, in
/// every base, replaced by every ABSURD value: (base index, bytes)
fn numeric_sweep(bases: &[Base]) -> Vec<(usize, Vec<u8>)> {
    let mut out = Vec::new();
    for (bi, b) in bases.iter().enumerate() {
        let text = dom::serialise(&b.tree, &style_of(&[], b.kind));
        let bytes = text.as_bytes();
        let mut i = 0;
        while i < bytes.len() {
            if bytes[i].is_ascii_digit() {
                let a = i;
                while i < bytes.len() && bytes[i].is_ascii_digit() {
                    i += 1;
                }
                let whole_content = a > 0 && bytes[a - 1] == b'>' && bytes.get(i) == Some(&b'<');
                let whole_attr = a > 0 && (bytes[a - 1] == b'"' || bytes[a - 1] == b'\'') && bytes.get(i) == Some(&bytes[a - 1]);
                if whole_content || whole_attr {
                    for v in ABSURD {
                        let mut m = bytes[..a].to_vec();
                        m.extend_from_slice(v.as_bytes());
                        m.extend_from_slice(&bytes[i..]);
                        out.push((bi, m));
                    }
                }
            } else {
                i += 1;
            }
        }
    }
    out
}

fn mutate(r: &mut Prng, input: &[u8], other: &[u8]) -> (Vec<u8>, &'static str) {
    let mut v = input.to_vec();
    let len = v.len().max(1);
    match r.below(18) {
        17 => {
            // the query part of a URI in element content (capability parameters: ?scheme=...,
            // ?module=...&revision=...) rewritten from a small grammar of parameter lists: names
            // without '=', empty names and values, repeated and unknown parameters, stray separators
            let s = String::from_utf8_lossy(&v).into_owned();
            let qs: Vec<usize> = s.match_indices('?').map(|(i, _)| i).filter(|i| *i > 1 && !s[..*i].ends_with('<') && !s[*i..].starts_with("?>")).collect();
            let ends: Vec<usize> = s.match_indices("</").map(|(i, _)| i).collect();
            let (at, end) = if !qs.is_empty() {
                let q = qs[r.below(qs.len())];
                (q, s[q..].find('<').map_or(s.len(), |e| q + e))
            } else if !ends.is_empty() {
                // no query anywhere: append one to the content of some element
                let e = ends[r.below(ends.len())];
                (e, e)
            } else {
                return (v, "uri-query");
            };
            let names = ["scheme", "scheme", "module", "revision", "features", "deviations", "basic-mode", "also-supported", "x", ""];
            let values = ["http,ftp,file", "file", "", ",", ",,", "http,", "=", "a=b", "%", "%2", "%zz", "\u{e9}", "2014-01-01"];
            let mut q = String::from("?");
            for k in 0..r.below(5) {
                if k > 0 {
                    q.push_str(*r.pick(&["&amp;", "&amp;", ";", "&amp;&amp;", "?"]));
                }
                q.push_str(*r.pick(&names));
                match r.below(4) {
                    0 => {}
                    1 => q.push('='),
                    _ => {
                        q.push('=');
                        q.push_str(*r.pick(&values));
                    }
                }
            }
            let mut o = s[..at].to_string();
            o.push_str(&q);
            o.push_str(&s[end..]);
            return (o.into_bytes(), "uri-query");
        }
        16 => {
            // a run of multi-byte characters (valid UTF-8) of arbitrary length inside element
            // content, at an arbitrary byte alignment: puts character boundaries off every
            // power-of-two offset a size-limited copy, log excerpt or buffer might cut at
            let s = String::from_utf8_lossy(&v).into_owned();
            let gts: Vec<usize> = s.match_indices('>').map(|(i, _)| i).collect();
            if gts.len() >= 2 {
                let at = gts[r.below(gts.len() - 1)] + 1;
                let mut run = "x".repeat(r.below(4));
                let target = if cfg!(miri) { r.range(10, 200) } else { *r.pick(&[30usize, 300, 1_100, 2_200, 4_300, 9_000, 17_000, 66_000]) + r.below(64) };
                let alphabet = ["\u{e9}", "\u{df}\u{20ac}", "\u{65e5}\u{672c}", "\u{1f600}", "a\u{e9}", "\u{20ac}"];
                let unit = alphabet[r.below(alphabet.len())];
                while run.len() < target {
                    run.push_str(unit);
                }
                let mut o = s[..at].to_string();
                o.push_str(&run);
                o.push_str(&s[at..]);
                return (o.into_bytes(), "multibyte-run");
            }
            (v, "multibyte-run")
        }
        0 => {
            v.truncate(r.below(len));
            (v, "truncate")
        }
        1 => {
            for _ in 0..r.range(1, 4) {
                let at = r.below(len);
                if at < v.len() {
                    v[at] ^= 1 << r.below(8);
                }
            }
            (v, "bit-flip")
        }
        2 => {
            let at = r.below(len);
            let at2 = r.below(other.len().max(1));
            v.truncate(at);
            v.extend_from_slice(&other[at2.min(other.len())..]);
            (v, "splice")
        }
        3 => {
            // duplicate an element-looking span
            let s = String::from_utf8_lossy(&v).into_owned();
            let starts: Vec<usize> = s.match_indices('<').map(|(i, _)| i).collect();
            if starts.len() >= 2 {
                let a = starts[r.below(starts.len())];
                let b = starts[r.below(starts.len())];
                let (a, b) = (a.min(b), a.max(b));
                let span = s[a..b].to_string();
                let mut o = s[..b].to_string();
                o.push_str(&span);
                o.push_str(&s[b..]);
                return (o.into_bytes(), "duplicate-span");
            }
            (v, "duplicate-span")
        }
        4 => {
            // delete a closing tag
            let s = String::from_utf8_lossy(&v).into_owned();
            let closes: Vec<usize> = s.match_indices("</").map(|(i, _)| i).collect();
            if !closes.is_empty() {
                let a = closes[r.below(closes.len())];
                if let Some(e) = s[a..].find('>') {
                    let mut o = s[..a].to_string();
                    o.push_str(&s[a + e + 1..]);
                    return (o.into_bytes(), "delete-closing-tag");
                }
            }
            (v, "delete-closing-tag")
        }
        5 => {
            // replace a number by an absurd one
            let s = String::from_utf8_lossy(&v).into_owned();
            let digits: Vec<usize> = s.char_indices().filter(|(_, c)| c.is_ascii_digit()).map(|(i, _)| i).collect();
            if !digits.is_empty() {
                let a = digits[r.below(digits.len())];
                let mut e = a;
                while e < s.len() && s.as_bytes()[e].is_ascii_digit() {
                    e += 1;
                }
                let big = r.pick_str(ABSURD);
                let mut o = s[..a].to_string();
                o.push_str(big);
                o.push_str(&s[e..]);
                return (o.into_bytes(), "absurd-number");
            }
            (v, "absurd-number")
        }
        6 => {
            let at = r.below(len);
            let bad: &[u8] = *r.pick(&[&b"\xff\xfe"[..], &b"\xc3"[..], &b"\xed\xa0\x80"[..], &b"\xf8\x88\x80\x80\x80"[..]]);
            let at = at.min(v.len());
            v.splice(at..at, bad.iter().copied());
            (v, "invalid-utf8")
        }
        7 => {
            let at = r.below(len).min(v.len());
            v.splice(at..at, std::iter::repeat(0u8).take(r.range(1, 3)));
            (v, "nul-bytes")
        }
        8 => {
            // giant attribute value on the first element
            let s = String::from_utf8_lossy(&v).into_owned();
            if let Some(gt) = s.find('>') {
                let n = if cfg!(miri) { 1 << 8 } else { *r.pick(&[1 << 10, 1 << 16, 1 << 20]) };
                let mut o = s[..gt].trim_end_matches('/').to_string();
                o.push_str(" big=\"");
                o.push_str(&"A".repeat(n));
                o.push('"');
                o.push_str(&s[gt..]);
                return (o.into_bytes(), "huge-attribute");
            }
            (v, "huge-attribute")
        }
        9 => {
            // deep nesting inside the root
            let s = String::from_utf8_lossy(&v).into_owned();
            if let Some(gt) = s.find('>') {
                let n = if cfg!(miri) { 40 } else { *r.pick(&[100usize, 2_000, 10_000]) };
                let mut o = s[..=gt].to_string();
                o.push_str(&"<d>".repeat(n));
                if r.chance(1, 2) {
                    o.push_str(&"</d>".repeat(n));
                }
                o.push_str(&s[gt + 1..]);
                return (o.into_bytes(), "deep-nesting");
            }
            (v, "deep-nesting")
        }
        10 => {
            let n = r.range(0, 300);
            (r.bytes(n), "random-bytes")
        }
        11 => {
            // change the namespace
            let s = String::from_utf8_lossy(&v).replace(BASE, r.pick_str(&["urn:wrong", "", "urn:ietf:params:xml:ns:netconf:base:1.1"]));
            (s.into_bytes(), "wrong-namespace")
        }
        12 => {
            // swap two element spans / reorder
            let s = String::from_utf8_lossy(&v).into_owned();
            let opens: Vec<usize> = s.match_indices('<').map(|(i, _)| i).collect();
            if opens.len() >= 3 {
                let a = opens[r.below(opens.len())];
                let b = opens[r.below(opens.len())];
                let (a, b) = (a.min(b), a.max(b));
                let mut o = s[..a].to_string();
                o.push_str(&s[b..]);
                o.push_str(&s[a..b]);
                return (o.into_bytes(), "reorder");
            }
            (v, "reorder")
        }
        13 => {
            // entity / CDATA / PI / doctype injection
            let s = String::from_utf8_lossy(&v).into_owned();
            let inj = r.pick_str(&["&bogus;", "<![CDATA[x]]>", "<?pi x?>", "<!DOCTYPE a [<!ENTITY e \"x\">]>", "&#x110000;", "&#0;", "<!-- -- -->", "<a b=c/>", "<:/>", "]]>"]);
            let at = s.char_indices().map(|(i, _)| i).nth(r.below(s.chars().count().max(1))).unwrap_or(0);
            let mut o = s[..at].to_string();
            o.push_str(inj);
            o.push_str(&s[at..]);
            (o.into_bytes(), "markup-injection")
        }
        14 => {
            // remove the message-id / a random attribute
            let s = String::from_utf8_lossy(&v).into_owned();
            if let Some(a) = s.find(" message-id=\"") {
                if let Some(e) = s[a + 13..].find('"') {
                    let mut o = s[..a].to_string();
                    if r.chance(1, 2) {
                        o.push_str(&format!(" message-id=\"{}\"", r.pick_str(&["", "x", "-3", "1 1", "999999"])));
                    }
                    o.push_str(&s[a + 13 + e + 1..]);
                    return (o.into_bytes(), "message-id-mangled");
                }
            }
            (v, "message-id-mangled")
        }
        _ => {
            // two complete messages glued, or message without delimiter
            if r.chance(1, 2) {
                // the delimiter between two replies got lost: the second one bears the id of
                // another outstanding request, an id nobody asked for, or the same id again
                let glue = String::from_utf8_lossy(&v).replace(MARKER, "");
                let second = String::from_utf8_lossy(other).replace("@ID@", *r.pick(&["@IDA@", "@IDC@", "4711", "@ID@"]));
                let mut o = glue.into_bytes();
                o.extend_from_slice(second.as_bytes());
                if r.chance(1, 2) {
                    return (o, "two-replies-in-one-frame");
                }
                v.extend_from_slice(other);
                (v, "two-messages-in-one")
            } else {
                let s = String::from_utf8_lossy(&v).replace(MARKER, "");
                (s.into_bytes(), "no-delimiter")
            }
        }
    }
}

pub fn run_c14(cfg: &Cfg) -> i32 {
    let mut rep = Report::new(
        "C14",
        cfg,
        "one evaluation = one mutated server message (truncation, bit flips, splicing, duplicated/reordered/deleted markup, absurd numbers, invalid UTF-8, NULs, huge attributes, deep nesting, markup injection, random bytes) \
         fed to the real hello / reply / configuration reader; replies are fed while two other requests are outstanding whose own valid replies follow; distinct = distinct mutated byte strings; non-trivial = differs from the valid base",
    );
    let bases = bases::bases(0);
    let caps: Vec<&str> = crate::memwire::ALL_CAPS.to_vec();
    let miri = cfg.stage == "miri";
    let n = if miri { cfg.count(24, 480) } else { cfg.count(100_000, 10_000_000) };
    // watchdog: a parser that loops would hang the whole process; the watchdog turns that into a
    // reported witness (case index) instead of an outer timeout
    let progress = Arc::new(AtomicU64::new(0));
    let current = Arc::new(std::sync::Mutex::new(String::new()));
    if !miri {
        let (p2, c2, out) = (progress.clone(), current.clone(), cfg.out.clone());
        let (prop_seed, stage) = (cfg.seed, cfg.stage.clone());
        std::thread::spawn(move || {
            let mut last = u64::MAX;
            let mut same = 0;
            loop {
                std::thread::sleep(std::time::Duration::from_secs(2));
                let now = p2.load(Ordering::SeqCst);
                if now == last {
                    same += 1;
                } else {
                    same = 0;
                    last = now;
                }
                if same >= 10 {
                    let what = c2.lock().map(|g| g.clone()).unwrap_or_default();
                    let v = json!({"property": "C14", "stage": stage, "tier": "quick", "seed": prop_seed, "shard": 0, "shards": 1,
                        "evaluations": now, "distinct_nontrivial": now, "distinct_hashes": [], "rule": "", "samples": [], "observed": {},
                        "violations": [{"signature": "hang", "detail": "a single input kept the parser busy for more than 20 s", "witness": {"input": what}}],
                        "violation_counts": {"hang": 1}, "inconclusive": [], "observations": [], "exhaustive": null, "assumptions": [], "extra": {}, "wall_s": 0.0});
                    if let Some(o) = &out {
                        let _ = std::fs::write(o, v.to_string());
                    }
                    eprintln!("vh C14: watchdog: no progress for 20 s; input: {}", clip(&what, 400));
                    std::process::exit(1);
                }
            }
        });
    }
    let mut s = sess::establish_ok(&caps);
    // the deterministic part first (one shard's worth each): every numeric leaf x every absurd value
    let sweep: Vec<(usize, Vec<u8>)> = numeric_sweep(&bases)
        .into_iter()
        .enumerate()
        .filter(|(k, (bi, _))| (*k as u64) % cfg.shards.max(1) == cfg.shard && (cfg!(feature = "full") || !matches!(bases[*bi].kind, Kind::Candidates | Kind::Installed)) && (!miri || k % 23 == 0))
        .map(|(_, c)| c)
        .collect();
    // ... and every truncation point of every base (a message cut short at every offset)
    let mut sweep = sweep;
    if !miri {
        let mut k = 0u64;
        for (bi, b) in bases.iter().enumerate() {
            if !cfg!(feature = "full") && matches!(b.kind, Kind::Candidates | Kind::Installed) {
                continue;
            }
            let text = dom::serialise(&b.tree, &style_of(&[], b.kind));
            let body_len = text.len().saturating_sub(if is_message(b.kind) { MARKER.len() } else { 0 });
            // long free-text bases: every 7th offset is enough
            let step = if body_len > 3_000 { 7 } else { 1 };
            for cut in (1..body_len).step_by(step) {
                k += 1;
                if k % cfg.shards.max(1) != cfg.shard {
                    continue;
                }
                if !text.is_char_boundary(cut) {
                    continue;
                }
                let mut m = text.as_bytes()[..cut].to_vec();
                if is_message(b.kind) {
                    m.extend_from_slice(MARKER.as_bytes());
                }
                sweep.push((bi, m));
            }
        }
    }
    let nsweep = sweep.len() as u64;
    for i in 0..n + nsweep {
        let idx = cfg.case_index(i);
        progress.store(i + 1, Ordering::SeqCst);
        let mut r = cfg.prng("C14", idx);
        let mut base = &bases[r.below(bases.len())];
        let other = &bases[r.below(bases.len())];
        if !cfg!(feature = "full") && matches!(base.kind, Kind::Candidates | Kind::Installed) {
            base = &bases[4]; // a reply base: the agent's readers are not part of the interpreter build
        }
        let style = if r.chance(1, 3) { vec![Atom::Indent] } else { vec![] };
        let mut text = dom::serialise(&base.tree, &style_of(&style, base.kind));
        let other_text = dom::serialise(&other.tree, &style_of(&[], other.kind));
        let (mutated, mname) = if i < nsweep {
            let (bi, m) = &sweep[i as usize];
            base = &bases[*bi];
            text = dom::serialise(&base.tree, &style_of(&[], base.kind));
            (m.clone(), "deterministic-sweep(numeric-leaves,truncations)")
        } else {
            mutate(&mut r, text.as_bytes(), other_text.as_bytes())
        };
        if let Ok(mut g) = current.lock() {
            *g = format!("kind={} case_index={idx} mutation={mname} bytes={}", base.kind.name(), clip_bytes(&mutated, 2000));
        }
        rep.case(if mutated != text.as_bytes() { Some(&mutated) } else { None });
        rep.count(&format!("mutation:{mname}"));
        if i % 1500 == 1499 {
            s = sess::establish_ok(&caps);
        }
        let wit = |extra: serde_json::Value| json!({"kind": base.kind.name(), "base": base.label, "mutation": mname, "bytes": clip_bytes(&mutated, 1500), "case_index": idx, "seed": cfg.seed, "observed": extra});
        let t0 = std::time::Instant::now();
        let is_reply = matches!(base.kind, Kind::ReplyEmpty | Kind::ReplyData | Kind::ReplyBare | Kind::ReplyLoad);
        if !is_reply {
            let out = eval(base.kind, &mut s, &mutated);
            match &out {
                Outcome::Panic(m) => rep.violation(&format!("panic:{}:{}", base.kind.name(), clip(m, 80)), m, wit(json!({}))),
                Outcome::Stuck if base.kind == Kind::Hello => {
                    // the hello bytes were delivered as one message; establishment must finish
                    rep.violation("hello:stuck", "establishment neither failed nor succeeded", wit(json!({})));
                }
                _ => {}
            }
            rep.count(match out { Outcome::Value(_) => "outcome:value", Outcome::RpcErrors(_) => "outcome:rpc-errors", Outcome::Rejected(_) => "outcome:rejected", Outcome::Panic(_) => "outcome:panic", Outcome::Stuck => "outcome:stuck" });
        } else {
            // three outstanding requests; the mutated message stands in for the reply to the 2nd
            let sess_ref = &mut s;
            let res = catch_unwind(AssertUnwindSafe(|| three_outstanding(sess_ref, base.kind, &mutated, text.as_bytes(), &mut r)));
            match res {
                Err(p) => {
                    let m = panic_message(p);
                    rep.violation(&format!("panic:{}:{}", base.kind.name(), clip(&m, 80)), &m, wit(json!({})));
                    s = sess::establish_ok(&caps);
                }
                Ok(Err(h)) => {
                    rep.violation("harness:three-outstanding", &h, wit(json!({})));
                    s = sess::establish_ok(&caps);
                }
                Ok(Ok(obs)) => {
                    rep.count(&format!("affected:{}", obs.affected));
                    if obs.collateral_by_design {
                        rep.count("mutated_id_hits_another_request");
                    } else {
                        let fails = usize::from(!obs.first_ok) + usize::from(!obs.third_ok);
                        if obs.wrong_value {
                            rep.violation("other-request-got-wrong-reply", "a request other than the affected one resolved to something that is not its own reply", wit(json!(obs.describe)));
                        }
                        // every delimiter-terminated piece of the mutated bytes is one bad message and
                        // may fail one caller (its reader or its owner)
                        if obs.owner_identifiable {
                            rep.count("mutations_leaving_the_owner_identifiable");
                            // the first piece belongs to the 2nd request beyond doubt: only further
                            // (headless) pieces may fail their reader, and the owner must get an answer
                            if fails > obs.nparts - 1 {
                                rep.violation(
                                    &format!("collateral-failure:owner-identifiable:{mname}"),
                                    "the start tag of the damaged reply (message-id of the 2nd request) was intact, yet another outstanding request failed",
                                    wit(json!(obs.describe)),
                                );
                            } else if obs.nparts == 1 && !obs.second_resolved {
                                rep.violation(
                                    &format!("affected-call-never-resolved:{mname}"),
                                    "the damaged reply was delivered completely (delimiter included), its owner is still waiting at quiescence",
                                    wit(json!(obs.describe)),
                                );
                            }
                        } else if fails > obs.nparts || (obs.nparts == 1 && fails == 1 && obs.second_resolved) {
                            rep.violation(
                                &format!("collateral-failure:{mname}"),
                                "more than the one affected call failed: the garbage message made a second outstanding request fail",
                                wit(json!(obs.describe)),
                            );
                        }
                    }
                    // the wire of this session now has unread junk at most; start afresh if so
                    if obs.dirty {
                        s = sess::establish_ok(&caps);
                    }
                }
            }
        }
        let el = t0.elapsed();
        if el.as_secs_f64() > 2.0 && !miri {
            rep.inconclusive(&format!("case {idx} ({mname})"), &format!("took {:.1}s (slow, not a verdict)", el.as_secs_f64()));
        }
        if rep.samples.len() < rep.max_samples && i % 9973 == 7 {
            rep.sample(json!({"kind": base.kind.name(), "mutation": mname, "bytes": clip_bytes(&mutated, 300)}));
        }
    }
    rep.finish()
}

struct Obs {
    owner_identifiable: bool,
    first_ok: bool,
    third_ok: bool,
    second_resolved: bool,
    wrong_value: bool,
    collateral_by_design: bool,
    dirty: bool,
    nparts: usize,
    affected: &'static str,
    describe: serde_json::Value,
}

/// Issue three requests (the 2nd of reply type `kind`), deliver [mutated(2nd), valid(1st), valid(3rd)],
/// then await 1st, 3rd, 2nd in a random order.
fn three_outstanding(s: &mut Sess, kind: Kind, mutated: &[u8], original: &[u8], r: &mut Prng) -> Result<Obs, String> {
    use crate::sched::drive;
    let sent0 = s.sent_count();
    let f1 = drive(s.session.rpc::<Get, _>(|b| b.finish()), 16).ok_or("rpc 1 stuck")?.map_err(|e| format!("{e:?}"))?;
    // the 2nd request determines which reader parses the mutated bytes
    type BoxFut = std::pin::Pin<Box<dyn std::future::Future<Output = Result<String, netconf::Error>>>>;
    let f2: BoxFut = match kind {
        Kind::ReplyEmpty => {
            let f = drive(s.session.rpc::<Lock, _>(|b| b.target(Datastore::Running)?.finish()), 16).ok_or("rpc 2 stuck")?.map_err(|e| format!("{e:?}"))?;
            Box::pin(async move { f.await.map(|v| format!("{v:?}")) })
        }
        Kind::ReplyData => {
            let f = drive(s.session.rpc::<Get, _>(|b| b.finish()), 16).ok_or("rpc 2 stuck")?.map_err(|e| format!("{e:?}"))?;
            Box::pin(async move { f.await.map(|v| format!("{v:?}")) })
        }
        Kind::ReplyBare => {
            let f = drive(s.session.rpc::<CloseConfiguration, _>(|b| b.finish()), 16).ok_or("rpc 2 stuck")?.map_err(|e| format!("{e:?}"))?;
            Box::pin(async move { f.await.map(|v| format!("{v:?}")) })
        }
        _ => {
            let f = drive(
                s.session.rpc::<LoadConfiguration<Config<String, Text, Merge>>, _>(|b| b.source(Config::new("x".to_string(), Text, Merge)).finish()),
                16,
            )
            .ok_or("rpc 2 stuck")?
            .map_err(|e| format!("{e:?}"))?;
            Box::pin(async move { f.await.map(|v| format!("{v:?}")) })
        }
    };
    let f3 = drive(s.session.rpc::<Get, _>(|b| b.finish()), 16).ok_or("rpc 3 stuck")?.map_err(|e| format!("{e:?}"))?;
    let ids: Vec<String> = {
        let st = s.wire.lock();
        st.sent[sent0..].iter().filter_map(|m| crate::memwire::request_message_id_lenient(m)).collect()
    };
    if ids.len() != 3 {
        return Err(format!("expected 3 requests on the wire, saw {ids:?}"));
    }
    // substitute the message-id placeholder
    let mut m2 = Vec::new();
    let mut i = 0;
    while i < mutated.len() {
        if mutated[i..].starts_with(b"@ID@") {
            m2.extend_from_slice(ids[1].as_bytes());
            i += 4;
        } else if mutated[i..].starts_with(b"@IDA@") {
            m2.extend_from_slice(ids[0].as_bytes());
            i += 5;
        } else if mutated[i..].starts_with(b"@IDC@") {
            m2.extend_from_slice(ids[2].as_bytes());
            i += 5;
        } else {
            m2.push(mutated[i]);
            i += 1;
        }
    }
    // is the owner of the mutated message identifiable beyond doubt? (everything up to the end of
    // the <rpc-reply ...> start tag is untouched, and the message is text)
    let owner_identifiable = {
        let at = original.windows(9).position(|w| w == b"rpc-reply");
        let end = at.and_then(|a| original[a..].iter().position(|b| *b == b'>').map(|e| a + e + 1));
        match end {
            Some(e) => mutated.len() >= e && mutated[..e] == original[..e] && std::str::from_utf8(mutated).is_ok() && original[..e].windows(4).any(|w| w == b"@ID@"),
            None => false,
        }
    };
    let lenient = crate::memwire::request_message_id_lenient(&m2);
    let collateral_by_design = lenient.as_deref() == Some(ids[0].as_str()) || lenient.as_deref() == Some(ids[2].as_str());
    let (t1, t3) = (format!("own-{}", ids[0]), format!("own-{}", ids[2]));
    // the transport hands over delimiter-terminated messages: a mutated message that contains
    // the delimiter in the middle arrives as several messages
    let mut parts: Vec<Vec<u8>> = Vec::new();
    let mut rest: &[u8] = &m2;
    while let Some(p) = rest.windows(MARKER.len()).position(|w| w == MARKER.as_bytes()) {
        parts.push(rest[..p + MARKER.len()].to_vec());
        rest = &rest[p + MARKER.len()..];
    }
    if !rest.is_empty() || parts.is_empty() {
        let mut last = rest.to_vec();
        last.extend_from_slice(MARKER.as_bytes());
        parts.push(last);
    }
    let nparts = parts.len();
    for p in parts {
        s.wire.deliver(p);
    }
    s.wire.deliver(crate::memwire::data_reply(&ids[0], &t1));
    s.wire.deliver(crate::memwire::data_reply(&ids[2], &t3));
    let mut order = [1usize, 3];
    if r.chance(1, 2) {
        order.swap(0, 1);
    }
    let mut f1 = Some(Box::pin(f1));
    let mut f3 = Some(Box::pin(f3));
    let (mut o1, mut o3) = (None, None);
    for k in order {
        if k == 1 {
            o1 = drive(f1.take().unwrap(), 64);
        } else {
            o3 = drive(f3.take().unwrap(), 64);
        }
    }
    let o2 = drive(f2, 64);
    let ok_own = |o: &Option<Result<netconf::message::rpc::operation::Opaque, netconf::Error>>, tag: &str| matches!(o, Some(Ok(v)) if &**v == tag);
    let wrong = |o: &Option<Result<netconf::message::rpc::operation::Opaque, netconf::Error>>, tag: &str| matches!(o, Some(Ok(v)) if &**v != tag);
    let first_ok = ok_own(&o1, &t1);
    let third_ok = ok_own(&o3, &t3);
    let wrong_value = wrong(&o1, &t1) || wrong(&o3, &t3);
    let second_resolved = o2.is_some();
    let affected = if !first_ok || !third_ok { "reader-of-unparseable-message" } else if second_resolved { "owner-of-message-id" } else { "nobody(message-ignored-or-pending)" };
    let show = |o: &Option<Result<netconf::message::rpc::operation::Opaque, netconf::Error>>| match o {
        None => "waiting".to_string(),
        Some(Ok(v)) => format!("Ok({})", clip(v, 60)),
        Some(Err(e)) => format!("Err({})", clip(&format!("{e:?}"), 160)),
    };
    let describe = json!({"await_order": order, "first": show(&o1), "third": show(&o3),
        "second": match &o2 { None => "waiting".to_string(), Some(Ok(v)) => format!("Ok({})", clip(v, 80)), Some(Err(e)) => format!("Err({})", clip(&format!("{e:?}"), 160)) },
        "mutated_message_id": lenient, "ids": ids, "messages_delivered_for_mutation": nparts});
    let dirty = s.wire.lock().inbox.len() > 0 || !first_ok || !third_ok || !second_resolved || nparts > 1;
    Ok(Obs { first_ok, third_ok, second_resolved, wrong_value, collateral_by_design, dirty, nparts, affected, describe, owner_identifiable })
}
