//! C07, in-memory stage: the two directions of a transport fail independently (a child process
//! whose stdin and stdout are separate pipes; a half-closed TCP connection). Every combination of
//! "writes fail" / "reads end" at every stage of a session's life must end each operation with an
//! error in bounded logical time - a future that is still pending at quiescence (every woken task
//! polled, nothing left to deliver) waits for ever.

use crate::memwire::{self, Wire};
use crate::sched::drive;
use crate::util::{Cfg, Report};
use netconf::message::rpc::operation::{Builder, Get};
use netconf::Session;
use serde_json::json;

#[derive(Clone, Copy, Debug, PartialEq)]
enum Dir {
    /// the client's writes fail (BrokenPipe); the peer's sending direction stays open and silent
    WriteOnly,
    /// the peer's stream ends (EOF); the client's writes still succeed
    ReadOnly,
    Both,
}

fn break_wire(w: &Wire, d: Dir) {
    let mut st = w.lock();
    if d != Dir::ReadOnly {
        st.send_broken = true;
    }
    if d != Dir::WriteOnly {
        st.closed = true;
    }
    let wk = st.recv_waker.take();
    drop(st);
    if let Some(wk) = wk {
        wk.wake();
    }
}

pub fn run(cfg: &Cfg) -> i32 {
    let mut rep = Report::new(
        "C07",
        cfg,
        "one evaluation = one session over the in-memory transport whose write direction, read direction or both fail at a scripted stage (before the hello, after the hello, with 1-3 requests outstanding, after their replies), every operation driven to quiescence; \
         distinct = distinct (stage, direction, outstanding); all non-trivial",
    );
    rep.assumptions.push("an operation whose own write failed, or whose reply can no longer arrive because the peer's stream ended, has to end with an error; an operation that merely waits on a direction that is still open is not judged".into());
    let hello = memwire::server_hello(&["urn:ietf:params:netconf:base:1.0"], "7");
    for d in [Dir::WriteOnly, Dir::ReadOnly, Dir::Both] {
        // ---- broken before the hello exchange
        {
            let wire = Wire::new();
            break_wire(&wire, d);
            let w2 = wire.clone();
            let r = drive(Session::verif_establish(w2.transport()), 64);
            rep.case(Some(format!("before-hello|{d:?}").as_bytes()));
            match r {
                Some(Err(_)) => rep.count("establishment_failed_with_error"),
                Some(Ok(_)) => rep.violation(&format!("mem:before-hello:{d:?}:established"), "a session was established although no hello could be exchanged", json!({"direction": format!("{d:?}")})),
                None => rep.violation(
                    &format!("mem:before-hello:{d:?}:establishment-pending-for-ever"),
                    "session establishment is still pending at quiescence although the hello could not be written / the peer's stream had ended",
                    json!({"direction": format!("{d:?}"), "client_hello_on_the_wire": wire.lock().sent.len()}),
                ),
            }
        }
        // ---- broken after the hello, with k requests outstanding and m of their replies delivered
        for outstanding in 0..=3usize {
            for answered in 0..=outstanding {
                let wire = Wire::new();
                wire.deliver(hello.clone());
                let w2 = wire.clone();
                let Some(Ok(mut session)) = drive(Session::verif_establish(w2.transport()), 64) else {
                    rep.violation("harness:mem-establish", "", json!({}));
                    continue;
                };
                let mut futs = Vec::new();
                for _ in 0..outstanding {
                    match drive(session.rpc::<Get, _>(|b| b.finish()), 64) {
                        Some(Ok(f)) => futs.push(Box::pin(f)),
                        _ => break,
                    }
                }
                if futs.len() != outstanding {
                    rep.violation("harness:mem-rpc", "", json!({}));
                    continue;
                }
                let ids: Vec<String> = wire.lock().sent.iter().filter_map(|m| memwire::request_message_id_lenient(m)).collect();
                for k in 0..answered {
                    wire.deliver(memwire::data_reply(&ids[k], &format!("r{k}")));
                }
                break_wire(&wire, d);
                rep.case(Some(format!("after-hello|{d:?}|{outstanding}|{answered}").as_bytes()));
                let wit = |what: &str| json!({"direction": format!("{d:?}"), "outstanding": outstanding, "replies_delivered_before_the_break": answered, "what": what});
                // pending operations
                for (k, f) in futs.into_iter().enumerate() {
                    match drive(f, 64) {
                        Some(Ok(v)) if k < answered && *v == format!("r{k}") => rep.count("reply_delivered_before_the_break_still_handed_over"),
                        Some(Ok(_)) => rep.violation(&format!("mem:after-hello:{d:?}:pending-operation-succeeded"), "", wit("a request whose reply never arrived resolved successfully")),
                        Some(Err(_)) => rep.count("pending_operation_failed_with_error"),
                        None if d == Dir::WriteOnly => rep.count("pending_operation_waiting_on_the_open_direction(not judged)"),
                        None => rep.violation(&format!("mem:after-hello:{d:?}:pending-operation-waits-for-ever"), "the peer's stream has ended, the reply future is still pending at quiescence", wit("pending operation")),
                    }
                }
                // a subsequent operation
                match drive(session.rpc::<Get, _>(|b| b.finish()), 64) {
                    Some(Err(_)) => rep.count("subsequent_rpc_failed_at_once"),
                    Some(Ok(f)) => match drive(Box::pin(f), 64) {
                        Some(Err(_)) => rep.count("subsequent_operation_failed_with_error"),
                        Some(Ok(_)) => rep.violation(&format!("mem:after-hello:{d:?}:subsequent-operation-succeeded"), "", wit("subsequent operation")),
                        None => rep.violation(&format!("mem:after-hello:{d:?}:subsequent-operation-waits-for-ever"), "", wit("subsequent operation")),
                    },
                    None => rep.violation(&format!("mem:after-hello:{d:?}:subsequent-rpc-pending-for-ever"), "rpc() itself never returned", wit("subsequent rpc()")),
                }
            }
        }
    }
    rep.finish()
}
