//! End-to-end: the unmodified `bgpfu-junos-agent` release binary (hooks off) over its TLS `remote`
//! target against a fake Junos (this module) and a fake IRRd (`irrfake`).

use crate::junos::{Config, Event as ModelEvent};
use crate::memwire::{BASE_NS, JUNOS_CAP, MARKER};
use crate::peers;
use crate::xmlstrict;
use serde_json::{json, Value};
use std::collections::BTreeMap;
use std::sync::{Arc, Mutex};
use std::time::{Duration, Instant};
use tokio::io::{AsyncReadExt, AsyncWriteExt};
use tokio::net::TcpListener;

#[derive(Clone, Debug, PartialEq, Eq)]
pub enum FaultKind {
    /// <rpc-error> severity error
    RpcError,
    /// <rpc-error> severity warning followed by the positive reply
    WarningThenOk,
    /// a reply without the positive indication the operation defines
    NoPositive,
    NotXml,
    Truncated,
    WrongMessageId,
    CloseBefore,
    CloseAfter,
    /// accept the request, never answer, close after a while
    StallThenClose,
    /// rpc-error whose reply is held back until later requests have arrived
    DelayedRpcError,
    /// (load-configuration only) rpc-error severity error followed by <ok/>
    ErrorThenOk,
    /// (load-configuration only) rpc-error severity error, then a warning, then <ok/>
    ErrorWarningThenOk,
    /// a Junos-native <xnm:error> (Junos XML namespace, not an <rpc-error>) and nothing else
    ForeignError,
    /// the positive reply, but only `late_ms` after the reply to the NEXT request has been sent
    HoldOk,
    /// (load-configuration) two replies bearing the request's message-id: first one with an
    /// rpc-error of severity error, then a positive one
    ErrorReplyThenSecondPositiveReply,
    /// (load-configuration) ONE frame with two <rpc-reply> elements: the first bears the request's
    /// id and an rpc-error, the second is positive and bears the same id / another id
    ErrorRootThenPositiveRootSameId,
    ErrorRootThenPositiveRootOtherId,
    /// the positive reply, except that it is not UTF-8 (RFC 6241 section 3 requires UTF-8): a
    /// Latin-1 byte / a truncated multi-byte sequence inside a comment
    NotUtf8InComment,
    /// (load-configuration) warning whose <error-message> text contains a Latin-1 byte, then <ok/>
    NotUtf8InWarningText,
    /// the positive indication (<data>…</data>, <ok/>) FOLLOWED by an rpc-error of severity error
    /// in the same reply: a server that fails while streaming its output
    PositiveThenRpcError,
    /// the complete positive reply, but the stream ends where its delimiter should begin
    NoDelimiterThenClose,
}

impl FaultKind {
    pub fn name(&self) -> &'static str {
        match self {
            FaultKind::RpcError => "rpc-error",
            FaultKind::WarningThenOk => "warning-then-ok",
            FaultKind::NoPositive => "no-positive-indication",
            FaultKind::NotXml => "not-xml",
            FaultKind::Truncated => "truncated",
            FaultKind::WrongMessageId => "wrong-message-id",
            FaultKind::CloseBefore => "close-before-reply",
            FaultKind::CloseAfter => "close-after-reply",
            FaultKind::StallThenClose => "stall-then-close",
            FaultKind::DelayedRpcError => "delayed-rpc-error",
            FaultKind::ErrorThenOk => "error-then-ok",
            FaultKind::ErrorWarningThenOk => "error-warning-then-ok",
            FaultKind::ForeignError => "junos-xnm-error",
            FaultKind::HoldOk => "ok-held-back-behind-the-next-reply",
            FaultKind::ErrorReplyThenSecondPositiveReply => "error-reply-then-second-positive-reply",
            FaultKind::ErrorRootThenPositiveRootSameId => "error-root-then-positive-root-in-one-frame(same-id)",
            FaultKind::ErrorRootThenPositiveRootOtherId => "error-root-then-positive-root-in-one-frame(other-id)",
            FaultKind::NotUtf8InComment => "positive-but-not-utf8(comment)",
            FaultKind::NotUtf8InWarningText => "positive-but-not-utf8(warning-text)",
            FaultKind::PositiveThenRpcError => "positive-indication-then-rpc-error",
            FaultKind::NoDelimiterThenClose => "reply-without-delimiter-then-close",
        }
    }
    /// does this fault mean "the step failed" (as opposed to a benign variation)?
    pub fn is_failure(&self) -> bool {
        !matches!(self, FaultKind::WarningThenOk | FaultKind::CloseAfter | FaultKind::HoldOk)
    }
    pub fn parse(s: &str) -> Option<Self> {
        [
            FaultKind::RpcError, FaultKind::WarningThenOk, FaultKind::NoPositive, FaultKind::NotXml, FaultKind::Truncated,
            FaultKind::WrongMessageId, FaultKind::CloseBefore, FaultKind::CloseAfter, FaultKind::StallThenClose,
            FaultKind::DelayedRpcError, FaultKind::ErrorThenOk, FaultKind::ErrorWarningThenOk, FaultKind::ForeignError, FaultKind::HoldOk, FaultKind::ErrorReplyThenSecondPositiveReply, FaultKind::ErrorRootThenPositiveRootSameId, FaultKind::ErrorRootThenPositiveRootOtherId,
            FaultKind::NotUtf8InComment, FaultKind::NotUtf8InWarningText, FaultKind::PositiveThenRpcError, FaultKind::NoDelimiterThenClose,
        ]
        .into_iter()
        .find(|f| f.name() == s)
    }
}

#[derive(Clone, Debug)]
pub struct Script {
    /// `<configuration …>…</configuration>` returned for get-config on `running`
    pub running: String,
    /// fault by (operation name, occurrence index within the session); "hello" = before the hello
    pub faults: Vec<(String, usize, FaultKind)>,
    /// for the daemon test: per connection index, fail the session right after the hello?
    pub fail_connections: Vec<bool>,
    pub ephemeral_name: String,
    /// write every reply in chunks of this many bytes (one TLS record each), 0 = whole
    pub chunk: usize,
    /// (connection index, real milliseconds): delay the commit reply of that session (a slow run)
    pub slow_commit: Vec<(usize, u64)>,
    /// `faults` apply to connections with an index below this only (None = to every connection)
    pub faults_only_session: Option<usize>,
    /// replies held back by `HoldOk` are sent this many real milliseconds after the next reply
    pub late_ms: u64,
    /// a subtree filter that selects nothing: false = the reply keeps the containment elements that
    /// exist (`<configuration><policy-options/></configuration>`), true = `<data/>` (RFC 6241
    /// section 6.2.5 read strictly). Which of the two Junos does is not known here.
    pub no_match_is_empty_data: bool,
}

#[derive(Clone, Debug)]
pub struct Req {
    pub session: usize,
    pub index: usize,
    pub op: String,
    pub message_id: Option<String>,
    pub payload: String,
    pub reply: String,
    pub fault: Option<String>,
    pub at_ms: u128,
    pub detail: String,
}

#[derive(Default)]
pub struct Shared {
    pub ephemeral: Config,
    pub committed: Option<Config>,
    /// every acknowledged commit: (session, the state it made effective)
    pub commits: Vec<(usize, Config)>,
    pub log: Vec<Req>,
    pub sessions: Vec<(u128, Option<u128>)>, // (accepted at, closed at) ms
    pub model_events: Vec<(usize, ModelEvent)>,
    pub unmodelled: Vec<String>,
}

pub struct FakeJunos {
    pub port: u16,
    pub shared: Arc<Mutex<Shared>>,
    pub t0: Instant,
    task: tokio::task::JoinHandle<()>,
}

fn reply(id: &str, body: &str) -> Vec<u8> {
    format!("<rpc-reply xmlns=\"{BASE_NS}\" xmlns:junos=\"http://xml.juniper.net/junos/23.1R0/junos\" message-id=\"{id}\">\n{body}\n</rpc-reply>\n{MARKER}\n").into_bytes()
}

const RPC_ERROR: &str = "<rpc-error><error-type>protocol</error-type><error-tag>operation-failed</error-tag><error-severity>error</error-severity><error-message>injected failure</error-message></rpc-error>";
const RPC_WARNING: &str = "<rpc-error><error-type>protocol</error-type><error-tag>operation-failed</error-tag><error-severity>warning</error-severity><error-message>injected warning</error-message></rpc-error>";

fn positive(op: &str, data: &str) -> String {
    match op {
        "get-config" => format!("<data>{data}</data>"),
        "load-configuration" => "<load-configuration-results>\n<ok/>\n</load-configuration-results>".into(),
        "commit-configuration" | "close-session" => "<ok/>".into(),
        _ => String::new(), // bare Junos replies
    }
}

impl FakeJunos {
    pub async fn start(script: Script, initial: Config) -> std::io::Result<Self> {
        let listener = TcpListener::bind("127.0.0.1:0").await?;
        let port = listener.local_addr()?.port();
        let shared = Arc::new(Mutex::new(Shared { ephemeral: initial, ..Default::default() }));
        let t0 = Instant::now();
        let sh = shared.clone();
        let task = tokio::spawn(async move {
            let acceptor = peers::tls_acceptor();
            let mut session_no = 0usize;
            loop {
                let Ok((tcp, _)) = listener.accept().await else { break };
                let _ = tcp.set_nodelay(true);
                let n = session_no;
                session_no += 1;
                sh.lock().unwrap().sessions.push((t0.elapsed().as_millis(), None));
                let (sh2, script2, acceptor2) = (sh.clone(), script.clone(), acceptor.clone());
                tokio::spawn(async move {
                    if let Ok(stream) = acceptor2.accept(tcp).await {
                        serve(stream, n, &script2, &sh2, t0).await;
                    }
                    if let Some(s) = sh2.lock().unwrap().sessions.get_mut(n) {
                        s.1 = Some(t0.elapsed().as_millis());
                    }
                });
            }
        });
        Ok(Self { port, shared, t0, task })
    }
    pub fn stop(self) {
        self.task.abort();
    }
}

async fn write_chunked(s: &mut tokio_rustls::server::TlsStream<tokio::net::TcpStream>, b: &[u8], chunk: usize) {
    if chunk == 0 {
        let _ = s.write_all(b).await;
    } else {
        for c in b.chunks(chunk) {
            let _ = s.write_all(c).await;
            let _ = s.flush().await;
        }
    }
}

async fn serve(mut s: tokio_rustls::server::TlsStream<tokio::net::TcpStream>, session: usize, script: &Script, sh: &Arc<Mutex<Shared>>, t0: Instant) {
    let fault_for = |op: &str, occ: usize| {
        if script.faults_only_session.map_or(false, |below| session >= below) {
            return None;
        }
        script.faults.iter().find(|(o, k, _)| o == op && *k == occ).map(|(_, _, f)| f.clone())
    };
    if script.fail_connections.get(session).copied().unwrap_or(false) {
        // daemon test: drop the connection right away
        let _ = s.shutdown().await;
        return;
    }
    match fault_for("hello", 0) {
        Some(FaultKind::CloseBefore) => {
            let _ = s.shutdown().await;
            return;
        }
        Some(FaultKind::NotXml) => {
            let _ = s.write_all(format!("this is not a hello{MARKER}").as_bytes()).await;
            let _ = s.flush().await;
        }
        Some(FaultKind::Truncated) => {
            let _ = s.write_all(b"<hello xmlns=\"urn:ietf:params:xml:ns:netconf:base:1.0\"><capabilities><capa").await;
            let _ = s.flush().await;
            tokio::time::sleep(Duration::from_millis(100)).await;
            let _ = s.shutdown().await;
            return;
        }
        Some(FaultKind::StallThenClose) => {
            tokio::time::sleep(Duration::from_millis(1500)).await;
            let _ = s.shutdown().await;
            return;
        }
        _ => {
            let hello = crate::memwire::server_hello(
                &["urn:ietf:params:netconf:base:1.0", "urn:ietf:params:netconf:capability:candidate:1.0", "urn:ietf:params:netconf:capability:confirmed-commit:1.0", "urn:ietf:params:netconf:capability:validate:1.0", JUNOS_CAP, "http://xml.juniper.net/dmi/system/1.0"],
                &format!("{}", 4000 + session),
            );
            let _ = s.write_all(&hello).await;
            let _ = s.flush().await;
        }
    }
    let mut buf: Vec<u8> = Vec::new();
    let mut tmp = vec![0u8; 65536];
    let mut index = 0usize;
    let mut occ: BTreeMap<String, usize> = BTreeMap::new();
    let mut held: Vec<Vec<u8>> = Vec::new(); // replies held back (delayed fault) in order
    let mut holding = false;
    let mut late: Vec<Vec<u8>> = Vec::new(); // replies overtaken by the next one (HoldOk)
    loop {
        // next complete message
        let msg = loop {
            if let Some(p) = buf.windows(MARKER.len()).position(|w| w == MARKER.as_bytes()) {
                let m: Vec<u8> = buf.drain(..p + MARKER.len()).collect();
                break Some(m[..m.len() - MARKER.len()].to_vec());
            }
            let wait = if holding { Duration::from_millis(150) } else { Duration::from_secs(30) };
            match tokio::time::timeout(wait, s.read(&mut tmp)).await {
                Ok(Ok(0)) | Ok(Err(_)) => break None,
                Ok(Ok(n)) => buf.extend_from_slice(&tmp[..n]),
                Err(_) => {
                    if holding {
                        // quiet: everything the client pipelined has arrived; release the held replies
                        for h in held.drain(..) {
                            let _ = s.write_all(&h).await;
                        }
                        let _ = s.flush().await;
                        holding = false;
                    } else {
                        break None;
                    }
                }
            }
        };
        let Some(msg) = msg else { break };
        let text = String::from_utf8_lossy(&msg).into_owned();
        let doc = xmlstrict::parse(text.trim().as_bytes());
        let (op, id, opel) = match &doc {
            Ok(d) if d.root.local() == "hello" => continue,
            Ok(d) if d.root.local() == "rpc" => {
                let opel = d.root.elems().next().cloned();
                (opel.as_ref().map_or("?".to_string(), |e| e.local().to_string()), d.root.attr("message-id").map(ToString::to_string), opel)
            }
            Ok(d) => (format!("<{}>", d.root.local()), None, None),
            Err(e) => (format!("not-well-formed: {}", e.msg), None, None),
        };
        let k = *occ.entry(op.clone()).or_insert(0);
        occ.insert(op.clone(), k + 1);
        let fault = fault_for(&op, k);
        let idv = id.clone().unwrap_or_else(|| "0".into());
        let mut detail = String::new();
        // ---- what the operation does
        let mut data = String::new();
        let mut op_failed_in_model = false;
        if let Some(e) = &opel {
            match op.as_str() {
                "open-configuration" => {
                    let name = e.child("ephemeral-instance").map(|x| x.text());
                    detail = format!("instance={name:?}");
                    if name.as_deref() != Some(script.ephemeral_name.as_str()) {
                        sh.lock().unwrap().unmodelled.push(format!("open-configuration of {:?}", e.elems().map(|x| x.local().to_string()).collect::<Vec<_>>()));
                    }
                }
                "get-config" => {
                    let src = e.child("source").and_then(|x| x.elems().next()).map(|x| x.local().to_string()).unwrap_or_default();
                    detail = format!("source={src} filter={}", e.child("filter").is_some());
                    data = if src == "running" { script.running.clone() } else { sh.lock().unwrap().ephemeral.render_configuration() };
                    // the server honours the subtree filter of the request (RFC 6241 section 6)
                    if let Some(f) = e.child("filter") {
                        if f.attr("type").map_or(true, |t| t == "subtree") {
                            match subtree_filter(&data, f, !script.no_match_is_empty_data) {
                                Ok(filtered) => data = filtered,
                                Err(err) => sh.lock().unwrap().unmodelled.push(format!("get-config filter: {err}")),
                            }
                        } else {
                            sh.lock().unwrap().unmodelled.push(format!("get-config filter type {:?}", f.attr("type")));
                        }
                    }
                }
                "load-configuration" => {
                    detail = format!("action={:?} format={:?}", e.attr("action"), e.attr("format"));
                    if fault.as_ref().map_or(true, |f| !f.is_failure() || *f == FaultKind::CloseAfter) {
                        let mut g = sh.lock().unwrap();
                        if e.attr("action") != Some("merge") || e.attr("format") != Some("xml") {
                            g.unmodelled.push(format!("load-configuration {detail}"));
                        }
                        match e.child("configuration") {
                            Some(c) => match g.ephemeral.apply_elem(c) {
                                Ok(evs) => {
                                    for ev in evs {
                                        g.model_events.push((index, ev));
                                    }
                                }
                                Err(err) => {
                                    g.unmodelled.push(err);
                                    op_failed_in_model = true;
                                }
                            },
                            None => {
                                g.unmodelled.push("load-configuration without <configuration>".into());
                                op_failed_in_model = true;
                            }
                        }
                    }
                }
                "commit-configuration" => {
                    if fault.as_ref().map_or(true, |f| !f.is_failure()) {
                        let mut g = sh.lock().unwrap();
                        g.committed = Some(g.ephemeral.clone());
                        let snap = g.ephemeral.clone();
                        g.commits.push((session, snap));
                    }
                }
                "close-configuration" | "close-session" => {}
                other => sh.lock().unwrap().unmodelled.push(format!("operation <{other}>")),
            }
        }
        if op == "commit-configuration" {
            if let Some((_, ms)) = script.slow_commit.iter().find(|(c, _)| *c == session) {
                tokio::time::sleep(Duration::from_millis(*ms)).await;
            }
        }
        // ---- the reply
        let ok_body = positive(&op, &data);
        let mut close_after = op == "close-session";
        let mut reply_kind = "ok".to_string();
        let bytes: Option<Vec<u8>> = match &fault {
            None if op_failed_in_model => {
                reply_kind = "rpc-error(model)".into();
                Some(reply(&idv, &format!("<load-configuration-results>{RPC_ERROR}<load-error-count>1</load-error-count></load-configuration-results>")))
            }
            None => Some(reply(&idv, &ok_body)),
            Some(f) => {
                reply_kind = f.name().to_string();
                match f {
                    FaultKind::RpcError | FaultKind::DelayedRpcError => Some(if op == "load-configuration" {
                        reply(&idv, &format!("<load-configuration-results>{RPC_ERROR}<load-error-count>1</load-error-count></load-configuration-results>"))
                    } else {
                        reply(&idv, RPC_ERROR)
                    }),
                    FaultKind::ErrorThenOk => Some(reply(&idv, &format!("<load-configuration-results>{RPC_ERROR}<ok/></load-configuration-results>"))),
                    FaultKind::ErrorWarningThenOk => Some(reply(&idv, &format!("<load-configuration-results>{RPC_ERROR}{RPC_WARNING}<ok/></load-configuration-results>"))),
                    FaultKind::WarningThenOk => Some(if op == "load-configuration" {
                        reply(&idv, &format!("<load-configuration-results>{RPC_WARNING}<ok/></load-configuration-results>"))
                    } else {
                        // outside load-configuration a warning cannot be combined with <ok/> for this client; send the plain positive reply
                        reply(&idv, &ok_body)
                    }),
                    FaultKind::NoPositive => Some(match op.as_str() {
                        // bare replies have no positive indication to omit: send an unexpected element instead
                        "open-configuration" | "close-configuration" => reply(&idv, "<unexpected-element/>"),
                        "load-configuration" => reply(&idv, "<load-configuration-results></load-configuration-results>"),
                        _ => reply(&idv, ""),
                    }),
                    FaultKind::ForeignError => Some(reply(
                        &idv,
                        "<xnm:error xmlns=\"http://xml.juniper.net/xnm/1.1/xnm\" xmlns:xnm=\"http://xml.juniper.net/xnm/1.1/xnm\"><source-daemon>mgd</source-daemon><message>injected: operation failed</message></xnm:error>",
                    )),
                    FaultKind::HoldOk => {
                        late.push(reply(&idv, &ok_body));
                        None
                    }
                    FaultKind::ErrorRootThenPositiveRootSameId | FaultKind::ErrorRootThenPositiveRootOtherId => {
                        let first = reply(&idv, &format!("<load-configuration-results>{RPC_ERROR}<load-error-count>1</load-error-count></load-configuration-results>"));
                        // (reply() ends in the delimiter and a newline)
                        let cut = first.windows(MARKER.len()).rposition(|w| w == MARKER.as_bytes()).unwrap_or(first.len());
                        let mut b = first[..cut].to_vec();
                        let other = if *f == FaultKind::ErrorRootThenPositiveRootSameId { idv.clone() } else { "999999".to_string() };
                        b.extend(reply(&other, &ok_body));
                        Some(b)
                    }
                    FaultKind::ErrorReplyThenSecondPositiveReply => {
                        let mut b = reply(&idv, &format!("<load-configuration-results>{RPC_ERROR}<load-error-count>1</load-error-count></load-configuration-results>"));
                        b.extend(reply(&idv, &ok_body));
                        Some(b)
                    }
                    FaultKind::NoDelimiterThenClose => {
                        let r = reply(&idv, &ok_body);
                        let cut = r.windows(MARKER.len()).rposition(|w| w == MARKER.as_bytes()).unwrap_or(r.len());
                        close_after = true;
                        Some(r[..cut].to_vec())
                    }
                    FaultKind::PositiveThenRpcError => Some(if op == "load-configuration" {
                        reply(&idv, &format!("<load-configuration-results><ok/>{RPC_ERROR}</load-configuration-results>"))
                    } else {
                        reply(&idv, &format!("{ok_body}{RPC_ERROR}"))
                    }),
                    FaultKind::NotUtf8InComment | FaultKind::NotUtf8InWarningText => {
                        let body = if *f == FaultKind::NotUtf8InWarningText && op == "load-configuration" {
                            "<load-configuration-results><rpc-error><error-type>application</error-type><error-tag>operation-failed</error-tag><error-severity>warning</error-severity><error-message>statement cr@@BAD@@e par l'op@@BAD@@rateur</error-message></rpc-error><ok/></load-configuration-results>".to_string()
                        } else {
                            format!("{ok_body}<!-- note: @@BAD@@ -->")
                        };
                        let text = reply(&idv, &body);
                        let bad: &[u8] = if idv.len() % 2 == 0 || *f == FaultKind::NotUtf8InWarningText { b"\xe9" } else { b"\xe2\x82" };
                        let mut out = Vec::new();
                        let pat = b"@@BAD@@";
                        let mut i = 0;
                        while i < text.len() {
                            if text[i..].starts_with(pat) {
                                out.extend_from_slice(bad);
                                i += pat.len();
                            } else {
                                out.push(text[i]);
                                i += 1;
                            }
                        }
                        Some(out)
                    }
                    FaultKind::NotXml => Some(format!("%%% not xml at all <<<{MARKER}").into_bytes()),
                    FaultKind::Truncated => {
                        let r = reply(&idv, &ok_body);
                        let cut = r.len() / 2;
                        close_after = true;
                        Some(r[..cut].to_vec())
                    }
                    FaultKind::WrongMessageId => Some(reply("999999", &ok_body)),
                    FaultKind::CloseBefore => {
                        close_after = true;
                        None
                    }
                    FaultKind::CloseAfter => {
                        close_after = true;
                        Some(reply(&idv, &ok_body))
                    }
                    FaultKind::StallThenClose => {
                        tokio::time::sleep(Duration::from_millis(1200)).await;
                        close_after = true;
                        None
                    }
                }
            }
        };
        sh.lock().unwrap().log.push(Req {
            session,
            index,
            op: op.clone(),
            message_id: id,
            payload: text.trim().to_string(),
            reply: reply_kind.clone(),
            fault: fault.as_ref().map(|f| f.name().to_string()),
            at_ms: t0.elapsed().as_millis(),
            detail,
        });
        index += 1;
        if let Some(b) = bytes {
            if fault == Some(FaultKind::DelayedRpcError) {
                holding = true;
            }
            if holding {
                held.push(b);
            } else {
                write_chunked(&mut s, &b, script.chunk).await;
                let _ = s.flush().await;
                if !late.is_empty() {
                    tokio::time::sleep(Duration::from_millis(script.late_ms)).await;
                    for l in late.drain(..) {
                        let _ = s.write_all(&l).await;
                    }
                    let _ = s.flush().await;
                }
            }
        }
        if close_after {
            for h in held.drain(..) {
                let _ = s.write_all(&h).await;
            }
            let _ = s.flush().await;
            let _ = s.shutdown().await;
            return;
        }
    }
    for h in held.drain(..) {
        let _ = s.write_all(&h).await;
    }
    let _ = s.flush().await;
    let _ = s.shutdown().await;
}

pub fn agent_bin() -> String {
    let t = std::env::var("VH_TARGET").unwrap_or_else(|_| "/verif/target".into());
    format!("{t}/repo/release/bgpfu-junos-agent")
}

pub struct AgentRun {
    pub exit: Option<i32>,
    pub timed_out: bool,
    pub stderr: String,
    pub wall_s: f64,
    pub cpu_s: f64,
}

pub fn pki(name: &str) -> String {
    peers::fixtures().join("pki").join(name).to_string_lossy().into_owned()
}

/// run the agent binary once (one-shot unless `frequency` > 0), killing it after `timeout`
pub async fn run_agent(junos_port: u16, irr_port: u16, frequency: u64, extra: &[&str], env: &[(&str, String)], timeout: Duration) -> AgentRun {
    let mut cmd = tokio::process::Command::new(agent_bin());
    cmd.args(["-f", &frequency.to_string(), "--ephemeral-db", "bgpfu", "--irrd-host", "127.0.0.1", "--irrd-port", &irr_port.to_string()]);
    cmd.args(extra);
    cmd.args([
        "remote", "--netconf-host", "127.0.0.1", "--netconf-port", &junos_port.to_string(),
        "--ca-cert-path", &pki("ca.crt"), "--client-cert-path", &pki("client.crt"), "--client-key-path", &pki("client.key"),
    ]);
    cmd.env_remove("RUST_LOG");
    for (k, v) in env {
        cmd.env(k, v);
    }
    cmd.stdin(std::process::Stdio::null()).stdout(std::process::Stdio::piped()).stderr(std::process::Stdio::piped()).kill_on_drop(true);
    let t0 = Instant::now();
    let mut child = match cmd.spawn() {
        Ok(c) => c,
        Err(e) => return AgentRun { exit: None, timed_out: false, stderr: format!("spawn failed: {e}"), wall_s: 0.0, cpu_s: 0.0 },
    };
    let pid = child.id().unwrap_or(0);
    let mut stderr = child.stderr.take().expect("stderr");
    let err_task = tokio::spawn(async move {
        let mut v = Vec::new();
        let _ = stderr.read_to_end(&mut v).await;
        v
    });
    let mut cpu = 0.0;
    let (exit, timed_out) = match tokio::time::timeout(timeout, child.wait()).await {
        Ok(Ok(st)) => (st.code(), false),
        Ok(Err(_)) => (None, false),
        Err(_) => {
            cpu = proc_cpu_s(pid);
            let _ = child.kill().await;
            (None, true)
        }
    };
    let err = tokio::time::timeout(Duration::from_secs(2), err_task).await.ok().and_then(Result::ok).unwrap_or_default();
    AgentRun { exit, timed_out, stderr: String::from_utf8_lossy(&err).into_owned(), wall_s: t0.elapsed().as_secs_f64(), cpu_s: cpu }
}

pub fn proc_cpu_s(pid: u32) -> f64 {
    let s = std::fs::read_to_string(format!("/proc/{pid}/stat")).unwrap_or_default();
    let after = s.rsplit(')').next().unwrap_or("");
    let f: Vec<&str> = after.split_whitespace().collect();
    let t = f.get(11).and_then(|x| x.parse::<u64>().ok()).unwrap_or(0) + f.get(12).and_then(|x| x.parse::<u64>().ok()).unwrap_or(0);
    t as f64 / 100.0
}

pub fn log_json(log: &[Req]) -> Value {
    json!(log.iter().map(|r| json!({"session": r.session, "i": r.index, "op": r.op, "message_id": r.message_id, "reply": r.reply, "detail": r.detail, "at_ms": r.at_ms as u64})).collect::<Vec<_>>())
}

/// running configuration with the given managed policies: (name, expression)
pub fn running_config(managed: &[(String, String)]) -> String {
    use crate::bases::candidate_policy;
    use crate::dom::{self, Style, N, XNM};
    let pols: Vec<N> = managed.iter().map(|(n, e)| candidate_policy(n, &format!("/* bgpfu-fltr: {e} */"), None)).collect();
    let cfg = N::el(XNM, "configuration").kid(N::el(XNM, "policy-options").kids(pols));
    dom::serialise(&cfg, &Style::default()).replace("<policy-options/>", "<policy-options></policy-options>")
}


/// RFC 6241 section 6.2 subtree filtering of `config` (one root element, as text) by the children
/// of `<filter>`: containment nodes (elements with child elements), selection nodes (empty
/// elements) and content match nodes (leaves with text). Names are compared by local name (Junos
/// accepts the filter without namespace declarations). Attributes of selected elements and of
/// their ancestors are kept; attribute match expressions are not modelled (an attribute in the
/// filter is an error here).
pub fn subtree_filter(config: &str, filter: &crate::xmlstrict::Elem, keep_skeleton: bool) -> Result<String, String> {
    use crate::xmlstrict::{escape_attr, Elem};
    let raw = config.as_bytes();
    let root = crate::xmlstrict::parse(raw).map_err(|e| format!("configuration does not parse: {}", e.msg))?.root;
    fn start_tag(e: &Elem) -> String {
        let mut s = format!("<{}", e.name);
        for (k, v) in &e.attrs {
            s.push_str(&format!(" {k}=\"{}\"", escape_attr(v)));
        }
        s.push('>');
        s
    }
    fn whole(e: &Elem, raw: &[u8]) -> String {
        format!("{}{}</{}>", start_tag(e), String::from_utf8_lossy(&raw[e.content.0..e.content.1]), e.name)
    }
    fn select(data: &Elem, f: &Elem, raw: &[u8], keep_skeleton: bool) -> Result<Option<String>, String> {
        if f.attrs.iter().any(|(k, _)| k != "xmlns" && !k.starts_with("xmlns:")) {
            return Err(format!("attribute match expression on <{}> not modelled", f.name));
        }
        let fkids: Vec<&Elem> = f.elems().collect();
        if fkids.is_empty() {
            // selection node (a content match node is handled by its parent)
            return Ok(Some(whole(data, raw)));
        }
        let is_cm = |k: &Elem| k.elems().next().is_none() && !k.text().trim().is_empty();
        let cms: Vec<&Elem> = fkids.iter().copied().filter(|k| is_cm(k)).collect();
        let others: Vec<&Elem> = fkids.iter().copied().filter(|k| !is_cm(k)).collect();
        for cm in &cms {
            if !data.children_named(cm.local()).any(|c| c.text().trim() == cm.text().trim()) {
                return Ok(None);
            }
        }
        if others.is_empty() {
            return Ok(Some(whole(data, raw)));
        }
        let mut inner = String::new();
        let mut any = false;
        for child in data.elems() {
            if cms.iter().any(|cm| cm.local() == child.local()) {
                inner.push_str(&whole(child, raw));
                continue;
            }
            for f2 in &others {
                if f2.local() == child.local() {
                    if let Some(sel) = select(child, f2, raw, keep_skeleton)? {
                        inner.push_str(&sel);
                        any = true;
                    }
                    break;
                }
            }
        }
        if !any && !keep_skeleton {
            return Ok(None);
        }
        Ok(Some(format!("{}{inner}</{}>", start_tag(data), data.name)))
    }
    let mut out = String::new();
    for f in filter.elems() {
        if f.local() == root.local() {
            if let Some(sel) = select(&root, f, raw, keep_skeleton)? {
                out.push_str(&sel);
            }
        }
    }
    Ok(out)
}

#[cfg(test)]
mod filter_tests {
    #[test]
    fn subtree() {
        let cfg = r#"<configuration xmlns="urn:x" a="1"><system><host-name>r1</host-name></system><policy-options><prefix-list><name>p</name></prefix-list><policy-statement c="x &amp; y"><name>a</name><term><name>t</name></term><then><reject/></then></policy-statement><policy-statement><name>b</name><then><accept/></then></policy-statement></policy-options></configuration>"#;
        let f = |t: &str| crate::xmlstrict::parse(format!("<filter>{t}</filter>").as_bytes()).unwrap().root;
        let all = super::subtree_filter(cfg, &f("<configuration><policy-options><policy-statement/></policy-options></configuration>"), false).unwrap();
        assert!(all.contains("<term>") && all.contains("c=\"x &amp; y\"") && !all.contains("prefix-list") && !all.contains("system") && all.contains("<name>b</name>"));
        let narrow = super::subtree_filter(cfg, &f("<configuration><policy-options><policy-statement><name/><then/></policy-statement></policy-options></configuration>"), false).unwrap();
        assert!(!narrow.contains("<term>") && narrow.contains("<then><reject/></then>") && narrow.contains("c=\"x &amp; y\""));
        let cm = super::subtree_filter(cfg, &f("<configuration><policy-options><policy-statement><name>b</name></policy-statement></policy-options></configuration>"), false).unwrap();
        assert!(cm.contains("<accept/>") && !cm.contains("<reject/>"));
        assert_eq!(super::subtree_filter(cfg, &f("<configuration><snmp/></configuration>"), false).unwrap(), "");
        assert_eq!(super::subtree_filter(cfg, &f("<configuration><snmp/></configuration>"), true).unwrap(), "<configuration xmlns=\"urn:x\" a=\"1\"></configuration>");
    }
}
