//! C05 (each caller receives exactly its own reply) and C18 (dropping a reply future does not
//! disturb the others): the real session code under the controlled scheduler.

use crate::memwire;
use crate::sched::{self, Action, Dfs, Execution, Outcome, Place, Plan};
use crate::util::{Cfg, Prng, Report};
use serde_json::{json, Value};
use std::collections::BTreeSet;

fn base_plan(first: Vec<Place>) -> Plan {
    Plan {
        first,
        late: 0,
        block_sends: vec![],
        block_after_write: vec![],
        yield_between: true,
        hello_preloaded: true,
        extra: vec![],
        drops: 0,
        hello: sched::default_hello(),
        reply_pad: vec![],
        fail_after_write: vec![],
        charref_ids: false,
    }
}

fn witness(plan: &Plan, ex: &Execution, seed_info: Value) -> Value {
    json!({
        "plan": plan.describe(),
        "actions": sched::actions_json(&ex.actions),
        "outcomes": ex.outcomes.iter().map(|o| format!("{o:?}")).collect::<Vec<_>>(),
        "ids": ex.ids, "tags": ex.tags, "panics": ex.panics, "how": seed_info,
    })
}

/// Classify where a dropped reply task was when it was dropped (for signatures and evidence).
fn drop_point(ex: &Execution, drop_at: usize, task: usize) -> &'static str {
    let Some(last_poll) = ex.actions[..drop_at].iter().rposition(|a| *a == Action::Poll(task)) else {
        return "never-polled";
    };
    // what did the task's last poll do on the receive side?
    let ev = &ex.rx_events[last_poll];
    match ev.last() {
        // it took a message off the wire and did not get as far as asking for the next one (nor
        // did it finish): it is suspended between "reply read" and "reply parked"
        Some(b'p') => "holding-unparked-reply",
        // it asked the transport for a message and is waiting for it: it is the reader
        Some(b'c') => "reader-waiting-for-transport",
        // no transport activity: waiting for the receive lock (or for the requests lock before reading)
        _ => "waiting-for-lock",
    }
}

/// The oracle. `bogus` = number of extra (unknown-id / duplicate) replies in the plan.
/// Returns (signature, detail) for each violation.
fn check(plan: &Plan, ex: &Execution, c18: bool) -> Vec<(String, String)> {
    let mut v = Vec::new();
    if !ex.panics.is_empty() {
        v.push(("panic".into(), format!("panic in session code: {:?}", ex.panics)));
    }
    if ex.truncated {
        return v; // step budget exhausted: no verdict on outcomes (reported as inconclusive)
    }
    if let Err(e) = &ex.establish {
        v.push(("establish-failed".into(), format!("session establishment failed: {e}")));
        return v;
    }
    // message-ids pairwise distinct
    let distinct: BTreeSet<&String> = ex.ids.iter().collect();
    if distinct.len() != ex.ids.len() {
        v.push(("duplicate-message-id".into(), format!("message-ids on the wire: {:?}", ex.ids)));
    }
    // a request whose send failed after the write is forgotten by the client but answered by the
    // server: that answer matches no outstanding request, like an unknown-id reply
    let bogus = plan.extra.len() + plan.fail_after_write.len();
    let mut errs = 0usize;
    let mut returned_tags: Vec<&str> = Vec::new();
    let blocked_forever = ex.sent.len() < 1 + ex.ids.len(); // never (hello + rpcs all on the wire)
    let _ = blocked_forever;
    for (i, o) in ex.outcomes.iter().enumerate() {
        match o {
            Outcome::Ok(tag) => {
                returned_tags.push(tag);
                let own = ex.tags.get(i).map(String::as_str);
                // if the server sent further replies bearing this request's id: one that is ordered
                // BEFORE the request's own reply may legitimately be taken for the reply (it is the
                // first to arrive while the request is outstanding, unless it came before the
                // request even existed); one ordered AFTER the own reply arrives when the request is
                // already answered - it matches no outstanding request and must never be delivered
                let id_attr = ex.ids.get(i).map(|id| format!("message-id=\"{id}\""));
                let own_at = ex.actions.iter().position(|a| *a == Action::Deliver(i));
                let mut earlier_dup_tags: Vec<String> = Vec::new();
                let mut later_dup_tags: Vec<String> = Vec::new();
                for (k, a) in ex.actions.iter().enumerate() {
                    if let Action::DeliverExtra(j) = a {
                        let m = String::from_utf8_lossy(&plan.extra[*j]).into_owned();
                        if id_attr.as_ref().map_or(false, |attr| m.contains(attr.as_str())) {
                            if let Some(t) = m.split("<data>").nth(1).and_then(|r| r.split("</data>").next()) {
                                if own_at.map_or(true, |o| k < o) {
                                    earlier_dup_tags.push(t.to_string());
                                } else {
                                    later_dup_tags.push(t.to_string());
                                }
                            }
                        }
                    }
                }
                if own != Some(tag.as_str()) && later_dup_tags.iter().any(|t| t == tag) && !earlier_dup_tags.iter().any(|t| t == tag) {
                    v.push((
                        "later-duplicate-reply-delivered".into(),
                        format!("request #{i} (message-id {:?}) resolved to {tag:?}, a reply that arrived after the request's own reply {own:?} had answered it", ex.ids.get(i)),
                    ));
                } else if own != Some(tag.as_str()) && !earlier_dup_tags.iter().any(|t| t == tag) {
                    v.push((
                        if c18 { "survivor-got-wrong-reply".into() } else { "wrong-reply".into() },
                        format!("request #{i} (message-id {:?}) resolved to {tag:?}, its own reply carried {own:?}", ex.ids.get(i)),
                    ));
                }
            }
            Outcome::Err(e) => {
                errs += 1;
                if bogus == 0 {
                    v.push((
                        if c18 { "survivor-error".into() } else { "error-without-cause".into() },
                        format!("request #{i} failed with {e} although the server only sent correct replies"),
                    ));
                }
            }
            Outcome::SendErr(_) if plan.fail_after_write.contains(&(i + 1)) => {}
            Outcome::SendErr(e) => v.push(("send-error".into(), format!("rpc() #{i} failed: {e}"))),
            Outcome::Unresolved => {
                // all replies delivered (undelivered == 0), every task polled after its last wake
                // (quiescence) and still unresolved: stuck set
                if ex.undelivered == 0 {
                    let sig = if c18 { "survivor-stuck" } else { "stuck" };
                    v.push((sig.into(), format!("request #{i} never resolved although every reply was delivered and every woken task was polled")));
                }
            }
            Outcome::NotIssued => {
                if ex.undelivered == 0 {
                    v.push(("main-stuck".into(), format!("request #{i} was never issued: the issuing task is stuck")));
                }
            }
            Outcome::Dropped => {}
        }
    }
    if errs > bogus {
        v.push(("too-many-errors".into(), format!("{errs} callers failed but only {bogus} bogus replies were injected")));
    }
    let uniq: BTreeSet<&&str> = returned_tags.iter().collect();
    if uniq.len() != returned_tags.len() {
        v.push(("reply-delivered-twice".into(), format!("tags returned: {returned_tags:?}")));
    }
    v
}

fn gen_plan(r: &mut Prng, c18: bool) -> Plan {
    let n = r.range(1, 5);
    let mut first = Vec::new();
    let style = r.below(5);
    for _ in 0..n {
        first.push(match style {
            0 => Place::Spawn,
            1 => Place::Join(0),
            2 => Place::Seq,
            _ => match r.below(4) {
                0 => Place::Seq,
                1 => Place::Join(r.below(2) as u8),
                _ => Place::Spawn,
            },
        });
    }
    let mut plan = base_plan(first);
    plan.late = r.below(3);
    plan.yield_between = r.chance(3, 4);
    plan.hello_preloaded = r.chance(3, 4);
    let total = plan.total();
    // blocked sends: attempt 0 is the hello, 1.. are the rpcs
    for a in 0..=total {
        if r.chance(1, 4) {
            plan.block_sends.push(a);
            // written-then-suspended (the peer already has the bytes) or held back entirely
            if r.chance(1, 2) {
                plan.block_after_write.push(a);
            }
        }
    }
    // a send that fails although the request went out (write done, flush timed out); the caller
    // carries on with the session and the server answers the request it received
    if r.chance(1, 8) && total >= 2 {
        let a = r.range(1, total);
        if !plan.block_sends.contains(&a) {
            plan.fail_after_write.push(a);
        }
    }
    // the echoed message-id spelled with a character reference (any XML writer may do that)
    plan.charref_ids = r.chance(1, 10);
    // large replies (a configuration dump runs to megabytes): behaviour must not depend on size
    if !cfg!(miri) && r.chance(1, 6) {
        for _ in 0..r.range(1, 3) {
            plan.reply_pad.push(*r.pick(&[0usize, 3_000, 70_000, 70_000, 300_000]));
        }
    }
    if c18 {
        plan.drops = r.range(1, 2);
        if !plan.first.iter().any(|p| *p != Place::Seq) {
            plan.first[0] = Place::Spawn;
        }
        // a fresh RPC after the drop
        if plan.late == 0 {
            plan.late = 1;
        }
    } else if r.chance(1, 5) {
        // bogus replies: unknown message-id, or a duplicate of a real one
        let k = r.range(1, 2);
        for j in 0..k {
            if r.chance(1, 2) {
                plan.extra.push(memwire::data_reply(&format!("{}", 9000 + j), &format!("bogus-unknown-{j}")));
            } else {
                let id = r.range(1, total);
                plan.extra.push(memwire::data_reply(&format!("{id}"), &format!("bogus-dup-{j}-of-{id}")));
            }
        }
    }
    plan
}

struct Stats {
    schedules: BTreeSet<u64>,
    states: BTreeSet<u64>,
}

fn hash_actions(a: &[Action]) -> u64 {
    crate::util::fnv(format!("{a:?}").as_bytes())
}

fn account(rep: &mut Report, st: &mut Stats, plan: &Plan, ex: &Execution, c18: bool, how: Value) {
    let key = format!("{:?}|{:?}", plan.describe(), ex.actions);
    let nontrivial = plan.total() >= 2 || !plan.extra.is_empty() || !ex.dropped_reqs.is_empty();
    rep.case(if nontrivial { Some(key.as_bytes()) } else { None });
    st.schedules.insert(hash_actions(&ex.actions) ^ crate::util::fnv(format!("{:?}", plan.describe()).as_bytes()));
    st.states.extend(ex.state_sigs.iter().copied());
    rep.count_n("scheduler_steps", ex.steps as u64);
    rep.count_n("replies_resolved_ok", ex.outcomes.iter().filter(|o| matches!(o, Outcome::Ok(_))).count() as u64);
    rep.count_n("callers_failed_by_bogus_reply", ex.outcomes.iter().filter(|o| matches!(o, Outcome::Err(_))).count() as u64);
    rep.count_n("futures_dropped", ex.dropped_reqs.len() as u64);
    rep.count_n("requests_on_wire", ex.ids.len() as u64);
    if ex.truncated {
        rep.inconclusive("execution", "step budget exhausted before quiescence");
    }
    // which drop points were exercised
    for (k, a) in ex.actions.iter().enumerate() {
        if let Action::Drop(t) = a {
            rep.count(&format!("drop_point:{}", drop_point(ex, k, *t)));
        }
    }
    // out-of-order delivery actually observed?
    let order: Vec<usize> = ex.actions.iter().filter_map(|a| if let Action::Deliver(i) = a { Some(*i) } else { None }).collect();
    if order.windows(2).any(|w| w[0] > w[1]) {
        rep.count("executions_with_out_of_order_replies");
    }
    if ex.actions.iter().any(|a| *a == Action::Release) {
        rep.count("executions_with_blocked_send");
    }
    for (sig, detail) in check(plan, ex, c18) {
        // refine the signature of drop-induced losses by the drop point
        let mut signature = sig.clone();
        if c18 && (sig == "survivor-stuck" || sig == "main-stuck") {
            let pts: BTreeSet<&str> = ex
                .actions
                .iter()
                .enumerate()
                .filter_map(|(k, a)| if let Action::Drop(t) = a { Some(drop_point(ex, k, *t)) } else { None })
                .collect();
            signature = format!("drop:{}:{}", pts.into_iter().collect::<Vec<_>>().join("+"), sig);
        }
        rep.violation(&signature, &detail, witness(plan, ex, how.clone()));
    }
    if rep.samples.len() < rep.max_samples && (ex.actions.len() > 6) {
        rep.sample(json!({"plan": plan.describe(), "actions": sched::actions_json(&ex.actions),
            "outcomes": ex.outcomes.iter().map(|o| format!("{o:?}")).collect::<Vec<_>>()}));
    }
}

fn exhaustive(rep: &mut Report, st: &mut Stats, plan: &Plan, c18: bool, depth: usize, cap: u64, label: &str) -> bool {
    let mut dfs = Dfs::new(depth);
    let mut paths = 0u64;
    let mut complete = true;
    loop {
        let ex = sched::run(plan, label, &mut |n| dfs.choose(n), 400);
        paths += 1;
        account(rep, st, plan, &ex, c18, json!({"mode": "dfs", "plan": label, "path": paths}));
        if paths >= cap {
            complete = false;
            break;
        }
        if !dfs.next_path() {
            break;
        }
    }
    if dfs.hit_depth_bound {
        complete = false;
    }
    rep.count_n(&format!("dfs_paths:{label}"), paths);
    if !complete {
        rep.count(&format!("dfs_incomplete:{label}"));
    }
    complete
}

pub fn run(cfg: &Cfg, c18: bool) -> i32 {
    let prop = if c18 { "C18" } else { "C05" };
    let mut rep = Report::new(
        prop,
        cfg,
        "one evaluation = one complete execution of the real Session::rpc/reply-future code over the in-memory wire under the controlled scheduler; \
         distinct = distinct (plan, action sequence) pairs; non-trivial = at least two requests outstanding, or a bogus reply, or a dropped future",
    );
    rep.assumptions.push("futures are polled only when woken (or never polled before): spurious polls are not explored".into());
    rep.assumptions.push("the in-memory transport delivers whole messages; partial reads are covered by C06/C18 real-transport cases".into());
    let mut st = Stats { schedules: BTreeSet::new(), states: BTreeSet::new() };
    let miri = cfg.stage == "miri";

    // ---- exhaustive part
    let mut all_complete = true;
    if cfg.replay.is_none() {
        let mut plans: Vec<(String, Plan)> = Vec::new();
        let nmax = if cfg.thorough() && !miri { 3 } else { 2 };
        for n in 1..=nmax {
            for style in 0..3 {
                let place = match style {
                    0 => Place::Spawn,
                    1 => Place::Join(0),
                    _ => Place::Seq,
                };
                if c18 && place == Place::Seq {
                    continue;
                }
                let mut p = base_plan(vec![place.clone(); n]);
                p.yield_between = style == 0 && n <= 2;
                if c18 {
                    p.drops = 1;
                    p.late = 1;
                }
                plans.push((format!("n{n}-{place:?}"), p.clone()));
                if n == 2 && !miri && place != Place::Seq {
                    // replies larger than any buffer or size threshold in the receive path
                    let mut big = p.clone();
                    big.reply_pad = vec![70_000, 300];
                    plans.push((format!("n{n}-{place:?}-large-first-reply"), big.clone()));
                    big.reply_pad = vec![300, 70_000];
                    plans.push((format!("n{n}-{place:?}-large-second-reply"), big));
                }
                if n == 2 && !c18 {
                    let mut cr = p.clone();
                    cr.charref_ids = true;
                    plans.push((format!("n{n}-{place:?}-message-ids-echoed-with-character-references"), cr));
                }
                if n >= 2 && !c18 {
                    // a send that fails after the request went out; the server answers it all the same
                    for a in 1..n {
                        let mut f = p.clone();
                        f.fail_after_write = vec![a];
                        plans.push((format!("n{n}-{place:?}-send-{a}-fails-after-write"), f));
                    }
                }
                if n <= 2 {
                    // with the last rpc's send blocked: exposes the suspension point between
                    // "reply read" and "reply parked" (rpc() holds the requests lock while sending)
                    let mut b = p.clone();
                    b.block_sends = vec![n + usize::from(c18)];
                    plans.push((format!("n{n}-{place:?}-blocked-last-send"), b.clone()));
                    // same, but the request is already on the wire while rpc() is still suspended
                    // in send(): its reply can arrive before rpc() has returned
                    b.block_after_write = b.block_sends.clone();
                    plans.push((format!("n{n}-{place:?}-last-send-suspended-after-write"), b));
                }
            }
        }
        if miri {
            plans.truncate(1);
        }
        let cap = if miri { 6 } else if cfg.thorough() { 400_000 } else { 30_000 };
        let depth = if cfg.thorough() { 40 } else { 28 };
        for (k, (label, p)) in plans.iter().enumerate() {
            if (k as u64) % cfg.shards != cfg.shard {
                continue;
            }
            let c = exhaustive(&mut rep, &mut st, p, c18, depth, cap, label);
            all_complete &= c;
        }
    }

    // ---- random walks
    let n = if miri { cfg.count(32, 960) } else { cfg.count(20_000, 2_000_000) };
    for i in 0..n {
        let idx = cfg.case_index(i);
        let mut r = cfg.prng(prop, idx);
        let plan = gen_plan(&mut r, c18);
        let mut r2 = cfg.prng(&format!("{prop}-sched"), idx);
        let ex = sched::run(&plan, &format!("r{idx}"), &mut |k| r2.below(k), 600);
        account(&mut rep, &mut st, &plan, &ex, c18, json!({"mode": "random", "case_index": idx, "seed": cfg.seed}));
    }
    if !miri && cfg.replay.is_none() {
        long_sessions(&mut rep, cfg, c18);
    }
    rep.exhaustive = Some(false);
    rep.extra.insert("dfs_all_plans_complete".into(), json!(all_complete));
    rep.extra.insert("distinct_schedules".into(), json!(st.schedules.len()));
    rep.extra.insert("distinct_state_signatures".into(), json!(st.states.len()));
    rep.finish()
}


/// Long-lived sessions: behaviour must not depend on how many requests a session has already
/// served (tables that grow, counters, thresholds). `prefix` completed requests, then either
/// (C05) a pipelined burst answered in reverse order, or (C18) requests whose futures are
/// abandoned before their replies have been read, followed by a survivor and a fresh request.
fn long_sessions(rep: &mut Report, cfg: &Cfg, c18: bool) {
    use crate::sched::drive;
    use netconf::message::rpc::operation::{Builder, Get};
    let mut lens: Vec<usize> = vec![0, 1, 2, 10, 100, 254, 255, 256, 257, 300, 511, 512, 513, 1000, 1023, 1024, 1025, 2047, 2048, 4096];
    let extra = cfg.count(6, 600) as usize;
    for i in 0..extra {
        let mut r = cfg.prng("long-session", cfg.case_index(i as u64));
        lens.push(r.range(3, if cfg.thorough() { 70_000 } else { 5_000 }));
    }
    let lens: Vec<usize> = lens.into_iter().enumerate().filter(|(i, _)| (*i as u64) % cfg.shards == cfg.shard).map(|(_, l)| l).collect();
    for prefix in lens {
        for (burst, late) in [2usize, 3, 50, 255, 256, 257, 400].into_iter().flat_map(|b| [(b, false), (b, true)]) {
            if burst > 3 && prefix > 1100 {
                continue; // keep the quadratic part small
            }
            if late && !c18 {
                continue;
            }
            let caps: Vec<&str> = vec!["urn:ietf:params:netconf:base:1.0"];
            let mut s = crate::sess::establish_ok(&caps);
            let wit = |what: &str, detail: String| json!({"completed_requests_before": prefix, "burst": burst, "replies_to_abandoned_requests_arrive_after_the_fresh_request": late, "what": what, "observed": detail, "seed": cfg.seed});
            // the completed prefix
            let mut ok = true;
            for k in 0..prefix {
                let tag = format!("p{k}");
                let ex = s.exchange::<Get, _, _>(|b| b.finish(), |id| Some(memwire::data_reply(id.unwrap_or("0"), &tag)));
                match ex {
                    crate::sess::Exchange::Reply { result: Ok(v), .. } if &*v == tag => {}
                    other => {
                        rep.violation("long-session:request-in-prefix-failed", &format!("request {k} of the prefix"), wit("prefix", format!("{other:?}")));
                        ok = false;
                        break;
                    }
                }
                // the recorded wire must not grow without bound
                if k % 512 == 511 {
                    s.wire.lock().sent.clear();
                }
            }
            if !ok {
                continue;
            }
            s.wire.lock().sent.clear();
            // the burst
            let mut futs = Vec::new();
            for _ in 0..burst {
                match drive(s.session.rpc::<Get, _>(|b| b.finish()), 64) {
                    Some(Ok(f)) => futs.push(Some(Box::pin(f))),
                    other => {
                        rep.violation("long-session:rpc-failed", "", wit("burst", format!("{:?}", other.map(|r| r.map(|_| ())))));
                        break;
                    }
                }
            }
            if futs.len() != burst {
                continue;
            }
            let ids: Vec<String> = s.wire.lock().sent.iter().filter_map(|m| memwire::request_message_id_lenient(m)).collect();
            if ids.len() != burst {
                rep.violation("harness:long-session", "could not read the message-ids", wit("burst", format!("{ids:?}")));
                continue;
            }
            let key = format!("long|{prefix}|{burst}|{c18}|{late}");
            rep.case(Some(key.as_bytes()));
            rep.count("long_session_cases");
            rep.count_n("long_session_requests_served", (prefix + burst + 1) as u64);
            if c18 {
                // keep the first; abandon all others before anything was read
                for f in futs.iter_mut().skip(1) {
                    *f = None;
                }
                if late {
                    // only the survivor's reply arrives now; the abandoned requests' replies come
                    // later, after the fresh request has been issued (see below)
                    s.wire.deliver(memwire::data_reply(&ids[0], "b0"));
                } else {
                    // the abandoned requests' replies arrive first, the survivor's last
                    for k in (0..burst).rev() {
                        s.wire.deliver(memwire::data_reply(&ids[k], &format!("b{k}")));
                    }
                }
                match drive(futs[0].take().unwrap(), 4 * burst + 64) {
                    Some(Ok(v)) if &*v == "b0" => {}
                    other => {
                        rep.violation("long-session:survivor-did-not-get-its-reply", "", wit("survivor", format!("{:?}", other.map(|r| r.map(|v| v.to_string())))));
                        continue;
                    }
                }
            } else {
                for k in (0..burst).rev() {
                    s.wire.deliver(memwire::data_reply(&ids[k], &format!("b{k}")));
                }
                let mut bad = None;
                for (k, f) in futs.iter_mut().enumerate() {
                    match drive(f.take().unwrap(), 4 * burst + 64) {
                        Some(Ok(v)) if *v == format!("b{k}") => {}
                        other => {
                            bad = Some(format!("request {k}: {:?}", other.map(|r| r.map(|v| v.to_string()))));
                            break;
                        }
                    }
                }
                if let Some(b) = bad {
                    rep.violation("long-session:caller-did-not-get-its-own-reply", "", wit("burst", b));
                    continue;
                }
            }
            // the session must remain usable
            let w = s.wire.clone();
            let late_ids: Vec<String> = if late && c18 { ids[1..].to_vec() } else { vec![] };
            let ex = s.exchange::<Get, _, _>(
                |b| b.finish(),
                |id| {
                    // replies to requests abandoned long ago are still on their way: they arrive
                    // ahead of the fresh request's own reply
                    for (k, i) in late_ids.iter().enumerate() {
                        w.deliver(memwire::data_reply(i, &format!("late{k}")));
                    }
                    Some(memwire::data_reply(id.unwrap_or("0"), "fresh"))
                },
            );
            match ex {
                crate::sess::Exchange::Reply { result: Ok(v), .. } if &*v == "fresh" => {}
                other => {
                    let sig = if c18 { "long-session:session-unusable-after-drop" } else { "long-session:fresh-request-failed" };
                    rep.violation(sig, "", wit("fresh request", format!("{other:?}")));
                }
            }
        }
    }
}
