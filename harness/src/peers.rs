//! Loopback peers for the real transports: a tokio-rustls server (client-auth, committed PKI), a
//! russh server (password auth, `netconf` subsystem), and a Unix-socket relay behind a child
//! process started by `JunosLocal` (hook H2).  Each gives the harness control over *units*: one
//! TLS record / one SSH channel-data packet / one write on the child's stdout.

use async_trait::async_trait;
use russh::server::{Auth, Handle, Msg, Session as SshSession};
use russh::{Channel, ChannelId, CryptoVec};
use std::path::PathBuf;
use std::sync::Arc;
use std::time::Duration;
use tokio::io::{AsyncReadExt, AsyncWriteExt};
use tokio::net::{TcpListener, TcpStream, UnixListener, UnixStream};
use tokio::sync::mpsc;
use tokio_rustls::rustls::pki_types::{CertificateDer, PrivateKeyDer};
use tokio_rustls::rustls::{server::WebPkiClientVerifier, RootCertStore, ServerConfig};
use tokio_rustls::TlsAcceptor;

#[derive(Clone, Copy, Debug, PartialEq, Eq)]
pub enum Tr {
    Tls,
    Ssh,
    Cli,
}

impl Tr {
    pub fn name(self) -> &'static str {
        match self {
            Tr::Tls => "tls",
            Tr::Ssh => "ssh",
            Tr::Cli => "cli",
        }
    }
    pub fn parse(s: &str) -> Option<Self> {
        match s {
            "tls" => Some(Tr::Tls),
            "ssh" => Some(Tr::Ssh),
            "cli" => Some(Tr::Cli),
            _ => None,
        }
    }
}

#[derive(Clone, Copy, Debug, PartialEq, Eq)]
pub enum CloseManner {
    /// TLS close_notify + FIN / SSH channel EOF / child exits
    Clean,
    /// SSH only: channel close (without EOF)
    ChannelClose,
    /// RST (SO_LINGER 0) / SSH connection dropped / child aborts
    Abrupt,
    /// TLS / SSH only: plain TCP FIN without a TLS close_notify or an SSH-level goodbye (a server
    /// process that was killed: the kernel closes its socket in an orderly way)
    FinOnly,
    /// child process only: the process exits, but a helper it started lives on and still holds
    /// the inherited stderr open (stdin and stdout are closed)
    ExitLeavingHelper,
    /// child process only: the process closes its standard output (the connection is over) but
    /// stays alive until its own standard input ends
    StdoutClosedProcessStays,
}

impl CloseManner {
    pub fn name(self) -> &'static str {
        match self {
            CloseManner::Clean => "clean",
            CloseManner::ChannelClose => "channel-close",
            CloseManner::Abrupt => "abrupt",
            CloseManner::FinOnly => "fin-only",
            CloseManner::ExitLeavingHelper => "exit-leaving-a-helper-that-holds-stderr",
            CloseManner::StdoutClosedProcessStays => "stdout-closed-while-the-process-stays",
        }
    }
}

/// every certificate of the fixture PKI: what they contain is public
pub const PUBLIC_CERTS: &[&str] = &[
    "ca.crt", "other-ca.crt", "server.crt", "client.crt", "client-rsa.crt", "client-p521.crt", "client-secp256k1.crt", "client-rsa1024.crt", "client-ed448.crt", "client-ed25519.crt",
];

/// client keys of types / sizes a TLS backend may refuse to load (ECDSA P-521, secp256k1, RSA-1024,
/// Ed448), a less common supported one (Ed25519) and a key whose DER is damaged
pub const UNUSUAL_KEYS: &[(&str, &str)] = &[
    ("client-p521.key", "client-p521.crt"), ("client-p521.sec1.key", "client-p521.crt"), ("client-secp256k1.key", "client-secp256k1.crt"),
    ("client-rsa1024.key", "client-rsa1024.crt"), ("client-ed448.key", "client-ed448.crt"), ("client-ed25519.key", "client-ed25519.crt"),
    ("client-rsa-damaged.key", "client-rsa.crt"),
];

pub fn fixtures() -> PathBuf {
    let root = std::env::var("VH_ROOT").unwrap_or_else(|_| "/verif".into());
    PathBuf::from(root).join("fixtures")
}

pub fn read_pem_cert(name: &str) -> CertificateDer<'static> {
    let p = fixtures().join("pki").join(name);
    let data = std::fs::read(&p).unwrap_or_else(|e| panic!("harness: cannot read {p:?}: {e}"));
    match rustls_pemfile::read_one_from_slice(&data) {
        Ok(Some((rustls_pemfile::Item::X509Certificate(c), _))) => c,
        other => panic!("harness: {p:?} is not a certificate: {other:?}"),
    }
}

pub fn read_pem_key(name: &str) -> PrivateKeyDer<'static> {
    let p = fixtures().join("pki").join(name);
    let data = std::fs::read(&p).unwrap_or_else(|e| panic!("harness: cannot read {p:?}: {e}"));
    match rustls_pemfile::read_one_from_slice(&data) {
        Ok(Some((rustls_pemfile::Item::Pkcs8Key(k), _))) => k.into(),
        Ok(Some((rustls_pemfile::Item::Pkcs1Key(k), _))) => k.into(),
        Ok(Some((rustls_pemfile::Item::Sec1Key(k), _))) => k.into(),
        other => panic!("harness: {p:?} is not a private key: {:?}", other.is_ok()),
    }
}

pub fn tls_acceptor() -> TlsAcceptor {
    let mut roots = RootCertStore::empty();
    roots.add(read_pem_cert("ca.crt")).expect("ca");
    let verifier = WebPkiClientVerifier::builder(Arc::new(roots)).build().expect("verifier");
    let cfg = ServerConfig::builder()
        .with_client_cert_verifier(verifier)
        .with_single_cert(vec![read_pem_cert("server.crt")], read_pem_key("server.key"))
        .expect("server config");
    TlsAcceptor::from(Arc::new(cfg))
}

// ------------------------------------------------------------------------------------- SSH

pub enum SshEv {
    Subsystem { handle: Handle, channel: ChannelId },
    Data(Vec<u8>),
    Auth { user: String, password: String, accepted: bool },
}

pub struct SshH {
    tx: mpsc::UnboundedSender<SshEv>,
    password: String,
    /// do not answer the subsystem request when it arrives: the script confirms it later
    /// (RFC 4254 does not order the reply to a channel request relative to channel data)
    defer_success: bool,
    /// drop the connection when the password request arrives, without answering it
    auth_hangup: bool,
}

#[async_trait]
impl russh::server::Handler for SshH {
    type Error = russh::Error;

    async fn auth_password(self, user: &str, password: &str) -> Result<(Self, Auth), Self::Error> {
        let accepted = password == self.password;
        let _ = self.tx.send(SshEv::Auth { user: user.into(), password: password.into(), accepted });
        if self.auth_hangup {
            // neither USERAUTH_FAILURE nor SUCCESS: the server just goes away (a connection
            // rate-limit, a crashing sshd)
            return Err(russh::Error::Disconnect);
        }
        let a = if accepted { Auth::Accept } else { Auth::Reject { proceed_with_methods: None } };
        Ok((self, a))
    }

    async fn channel_open_session(self, _channel: Channel<Msg>, session: SshSession) -> Result<(Self, bool, SshSession), Self::Error> {
        Ok((self, true, session))
    }

    async fn subsystem_request(self, channel: ChannelId, name: &str, mut session: SshSession) -> Result<(Self, SshSession), Self::Error> {
        if name == "netconf" {
            if !self.defer_success {
                session.channel_success(channel);
            }
            let _ = self.tx.send(SshEv::Subsystem { handle: session.handle(), channel });
        } else {
            session.channel_failure(channel);
        }
        Ok((self, session))
    }

    async fn data(self, _channel: ChannelId, data: &[u8], session: SshSession) -> Result<(Self, SshSession), Self::Error> {
        let _ = self.tx.send(SshEv::Data(data.to_vec()));
        Ok((self, session))
    }
}

pub fn ssh_config() -> Arc<russh::server::Config> {
    let mut c = russh::server::Config::default();
    c.auth_rejection_time = Duration::from_millis(5);
    c.auth_rejection_time_initial = Some(Duration::from_millis(0));
    c.keys = vec![russh_keys::key::KeyPair::generate_ed25519().expect("host key")];
    c.methods = russh::MethodSet::PASSWORD;
    Arc::new(c)
}

// ------------------------------------------------------------------------------------- Conn

pub enum Conn {
    Tls(Box<tokio_rustls::server::TlsStream<TcpStream>>),
    Ssh {
        handle: Handle,
        channel: ChannelId,
        rx: mpsc::UnboundedReceiver<SshEv>,
        join: tokio::task::JoinHandle<()>,
        raw: Option<std::os::fd::RawFd>,
    },
    Cli(UnixStream),
}

pub const CLI_ABORT_MAGIC: &[u8] = b"\0VH-ABORT\0";
pub const CLI_HELPER_MAGIC: &[u8] = b"\0VH-LEAVE-HELPER\0";
pub const CLI_STDOUT_MAGIC: &[u8] = b"\0VH-CLOSE-STDOUT\0";

impl Conn {
    /// one unit on the wire
    pub async fn send_unit(&mut self, bytes: &[u8]) -> std::io::Result<()> {
        match self {
            Conn::Tls(s) => {
                s.write_all(bytes).await?;
                s.flush().await
            }
            Conn::Ssh { handle, channel, .. } => handle
                .data(*channel, CryptoVec::from_slice(bytes))
                .await
                .map_err(|_| std::io::Error::new(std::io::ErrorKind::BrokenPipe, "ssh data failed")),
            Conn::Cli(s) => {
                s.write_all(bytes).await?;
                s.flush().await
            }
        }
    }

    /// SSH: answer the (deferred) subsystem request now - SSH_MSG_CHANNEL_SUCCESS between two
    /// channel-data packets
    pub async fn confirm_subsystem(&mut self) {
        if let Conn::Ssh { handle, channel, .. } = self {
            let _ = handle.channel_success(*channel).await;
        }
    }

    /// read whatever the client sent within `wait` (appends to `into`); false on EOF/error
    pub async fn read_some(&mut self, into: &mut Vec<u8>, wait: Duration) -> bool {
        let mut buf = vec![0u8; 65536];
        match self {
            Conn::Tls(s) => match tokio::time::timeout(wait, s.read(&mut buf)).await {
                Ok(Ok(0)) | Ok(Err(_)) => false,
                Ok(Ok(n)) => {
                    into.extend_from_slice(&buf[..n]);
                    true
                }
                Err(_) => true,
            },
            Conn::Cli(s) => match tokio::time::timeout(wait, s.read(&mut buf)).await {
                Ok(Ok(0)) | Ok(Err(_)) => false,
                Ok(Ok(n)) => {
                    into.extend_from_slice(&buf[..n]);
                    true
                }
                Err(_) => true,
            },
            Conn::Ssh { rx, .. } => match tokio::time::timeout(wait, rx.recv()).await {
                Ok(Some(SshEv::Data(d))) => {
                    into.extend_from_slice(&d);
                    true
                }
                Ok(Some(_)) => true,
                Ok(None) => false,
                Err(_) => true,
            },
        }
    }

    /// read until `n` end-of-message delimiters were received from the client (or timeout)
    pub async fn read_messages(&mut self, into: &mut Vec<u8>, n: usize, wait: Duration) -> bool {
        let deadline = tokio::time::Instant::now() + wait;
        loop {
            let have = into.windows(6).filter(|w| *w == b"]]>]]>").count();
            if have >= n {
                return true;
            }
            if tokio::time::Instant::now() >= deadline {
                return false;
            }
            if !self.read_some(into, Duration::from_millis(50)).await {
                return false;
            }
        }
    }

    /// the peer is done sending: TLS close_notify + FIN / SSH channel EOF / the child's stdout
    /// ends - while the connection object stays around (the client may still be writing)
    pub async fn finish_sending(&mut self) {
        match self {
            Conn::Tls(s) => {
                let _ = s.shutdown().await;
            }
            Conn::Ssh { handle, channel, .. } => {
                let _ = handle.eof(*channel).await;
            }
            Conn::Cli(s) => {
                use std::os::fd::AsRawFd;
                let _ = s.flush().await;
                unsafe {
                    libc::shutdown(s.as_raw_fd(), libc::SHUT_WR);
                }
            }
        }
    }

    pub async fn close(self, manner: CloseManner) {
        match self {
            Conn::Tls(mut s) => match manner {
                CloseManner::Abrupt => {
                    let _ = s.get_ref().0.set_linger(Some(Duration::ZERO));
                    drop(s);
                }
                CloseManner::FinOnly => {
                    use std::os::fd::AsRawFd;
                    let fd = s.get_ref().0.as_raw_fd();
                    // FIN now, no close_notify; keep the socket so that no RST follows
                    unsafe {
                        libc::shutdown(fd, libc::SHUT_WR);
                    }
                    tokio::spawn(async move {
                        tokio::time::sleep(Duration::from_secs(20)).await;
                        drop(s);
                    });
                }
                _ => {
                    let _ = s.shutdown().await;
                    drop(s);
                }
            },
            Conn::Ssh { handle, channel, join, rx, raw } => {
                match manner {
                    CloseManner::Clean | CloseManner::ExitLeavingHelper | CloseManner::StdoutClosedProcessStays => {
                        let _ = handle.eof(channel).await;
                    }
                    CloseManner::ChannelClose => {
                        let _ = handle.close(channel).await;
                    }
                    CloseManner::Abrupt => {
                        // drop the whole connection without any SSH-level goodbye
                        if let Some(fd) = raw {
                            // RST
                            let l = libc::linger { l_onoff: 1, l_linger: 0 };
                            // the server session task owns the socket: make the kernel tear the
                            // connection down underneath it (no SSH-level disconnect is sent)
                            unsafe {
                                libc::setsockopt(fd, libc::SOL_SOCKET, libc::SO_LINGER, std::ptr::addr_of!(l).cast(), std::mem::size_of::<libc::linger>() as u32);
                                libc::shutdown(fd, libc::SHUT_RDWR);
                            }
                        }
                        join.abort();
                    }
                    CloseManner::FinOnly => {
                        // what was queued has to reach the socket before it is half-closed
                        tokio::time::sleep(Duration::from_millis(30)).await;
                        if let Some(fd) = raw {
                            unsafe {
                                libc::shutdown(fd, libc::SHUT_WR);
                            }
                        }
                    }
                }
                // keep the server session task alive a little so that the message is flushed
                tokio::time::sleep(Duration::from_millis(30)).await;
                drop(rx);
                drop(handle);
                if manner != CloseManner::Abrupt {
                    // the TCP connection stays open for channel-level closes: that is the point
                    tokio::spawn(async move {
                        tokio::time::sleep(Duration::from_secs(20)).await;
                        join.abort();
                    });
                }
            }
            Conn::Cli(mut s) => {
                if manner == CloseManner::Abrupt {
                    let _ = s.write_all(CLI_ABORT_MAGIC).await;
                    let _ = s.flush().await;
                }
                if manner == CloseManner::StdoutClosedProcessStays {
                    let _ = s.write_all(CLI_STDOUT_MAGIC).await;
                    let _ = s.flush().await;
                    tokio::time::sleep(Duration::from_millis(60)).await;
                }
                if manner == CloseManner::ExitLeavingHelper {
                    let _ = s.write_all(CLI_HELPER_MAGIC).await;
                    let _ = s.flush().await;
                    // give the relay time to start the helper and exit
                    tokio::time::sleep(Duration::from_millis(60)).await;
                }
                drop(s);
            }
        }
    }
}

/// What the client needs in order to connect.
#[derive(Clone, Debug)]
pub enum Endpoint {
    Tcp(u16),
    Unix(PathBuf),
}

pub struct Listener {
    pub tr: Tr,
    pub endpoint: Endpoint,
    tcp: Option<TcpListener>,
    unix: Option<UnixListener>,
    pub ssh_password: String,
    /// SSH: leave the subsystem request unanswered until `Conn::confirm_subsystem`
    pub ssh_defer_success: bool,
    /// SSH: hang up on the password request instead of answering it
    pub ssh_auth_hangup: bool,
}

impl Listener {
    pub async fn bind(tr: Tr) -> std::io::Result<Self> {
        match tr {
            Tr::Tls | Tr::Ssh => {
                let l = TcpListener::bind("127.0.0.1:0").await?;
                let port = l.local_addr()?.port();
                Ok(Self { tr, endpoint: Endpoint::Tcp(port), tcp: Some(l), unix: None, ssh_password: "correct horse battery staple".into(), ssh_defer_success: false, ssh_auth_hangup: false })
            }
            Tr::Cli => {
                let dir = std::env::temp_dir().join(format!("vh-cli-{}-{}", std::process::id(), crate::util::fnv(format!("{:?}", std::time::Instant::now()).as_bytes())));
                std::fs::create_dir_all(&dir)?;
                let path = dir.join("s");
                let l = UnixListener::bind(&path)?;
                Ok(Self { tr, endpoint: Endpoint::Unix(path), tcp: None, unix: Some(l), ssh_password: String::new(), ssh_defer_success: false, ssh_auth_hangup: false })
            }
        }
    }

    /// Accept one client and complete the transport-level handshake.
    /// `pre_close` = close the TCP connection before/inside the handshake (C07 "before hello").
    pub async fn accept(&mut self) -> std::io::Result<Conn> {
        match self.tr {
            Tr::Tls => {
                let (tcp, _) = self.tcp.as_ref().unwrap().accept().await?;
                tcp.set_nodelay(true)?;
                let s = tls_acceptor().accept(tcp).await?;
                Ok(Conn::Tls(Box::new(s)))
            }
            Tr::Ssh => {
                let (tcp, _) = self.tcp.as_ref().unwrap().accept().await?;
                tcp.set_nodelay(true)?;
                use std::os::fd::AsRawFd;
                let raw = tcp.as_raw_fd();
                let (tx, mut rx) = mpsc::unbounded_channel();
                let h = SshH { tx, password: self.ssh_password.clone(), defer_success: self.ssh_defer_success, auth_hangup: self.ssh_auth_hangup };
                let running = russh::server::run_stream(ssh_config(), tcp, h)
                    .await
                    .map_err(|e| std::io::Error::new(std::io::ErrorKind::Other, format!("{e:?}")))?;
                let join = tokio::spawn(async move {
                    let _ = running.await;
                });
                // wait for the netconf subsystem request
                loop {
                    match tokio::time::timeout(Duration::from_secs(10), rx.recv()).await {
                        Ok(Some(SshEv::Subsystem { handle, channel })) => {
                            return Ok(Conn::Ssh { handle, channel, rx, join, raw: Some(raw) });
                        }
                        Ok(Some(_)) => continue,
                        _ => {
                            join.abort();
                            return Err(std::io::Error::new(std::io::ErrorKind::Other, "ssh client never requested the netconf subsystem"));
                        }
                    }
                }
            }
            Tr::Cli => {
                let (s, _) = self.unix.as_ref().unwrap().accept().await?;
                Ok(Conn::Cli(s))
            }
        }
    }

    pub fn tcp_listener(&self) -> Option<&TcpListener> {
        self.tcp.as_ref()
    }
}

impl Drop for Listener {
    fn drop(&mut self) {
        if let Endpoint::Unix(p) = &self.endpoint {
            let _ = std::fs::remove_file(p);
            if let Some(d) = p.parent() {
                let _ = std::fs::remove_dir(d);
            }
        }
    }
}

/// `vh fake-cli <socket>`: stands in for `/usr/sbin/cli xml-mode netconf need-trailer`.
/// Relays stdin -> socket and socket -> stdout, one write per chunk received.
pub fn fake_cli_main(args: &[String]) -> i32 {
    use std::io::{Read, Write};
    let Some(path) = args.first() else { return 2 };
    let Ok(sock) = std::os::unix::net::UnixStream::connect(path) else { return 3 };
    let mut to_sock = sock.try_clone().expect("clone");
    let stdin_relay = std::thread::spawn(move || {
        let mut stdin = std::io::stdin();
        let mut buf = [0u8; 65536];
        loop {
            match stdin.read(&mut buf) {
                Ok(0) | Err(_) => break,
                Ok(n) => {
                    if to_sock.write_all(&buf[..n]).is_err() {
                        break;
                    }
                }
            }
        }
        let _ = to_sock.shutdown(std::net::Shutdown::Write);
    });
    let mut from_sock = sock;
    let mut stdout = std::io::stdout();
    let mut buf = [0u8; 65536];
    loop {
        match from_sock.read(&mut buf) {
            Ok(0) | Err(_) => return 0,
            Ok(n) => {
                if buf[..n].ends_with(CLI_HELPER_MAGIC) {
                    let _ = stdout.write_all(&buf[..n - CLI_HELPER_MAGIC.len()]);
                    let _ = stdout.flush();
                    // a helper that keeps nothing but the inherited stderr
                    let _ = std::process::Command::new("sleep")
                        .arg("25")
                        .stdin(std::process::Stdio::null())
                        .stdout(std::process::Stdio::null())
                        .stderr(std::process::Stdio::inherit())
                        .spawn();
                    return 0;
                }
                if buf[..n].ends_with(CLI_STDOUT_MAGIC) {
                    let _ = stdout.write_all(&buf[..n - CLI_STDOUT_MAGIC.len()]);
                    let _ = stdout.flush();
                    // the connection is over, the process is not: it goes on reading its
                    // standard input until that ends (at most 25 s)
                    unsafe {
                        libc::close(1);
                    }
                    let t = std::time::Instant::now();
                    while !stdin_relay.is_finished() && t.elapsed() < std::time::Duration::from_secs(25) {
                        std::thread::sleep(std::time::Duration::from_millis(5));
                    }
                    return 0;
                }
                if buf[..n].ends_with(CLI_ABORT_MAGIC) {
                    let _ = stdout.write_all(&buf[..n - CLI_ABORT_MAGIC.len()]);
                    let _ = stdout.flush();
                    std::process::abort();
                }
                if stdout.write_all(&buf[..n]).is_err() || stdout.flush().is_err() {
                    return 0;
                }
            }
        }
    }
}
