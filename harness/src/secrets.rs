//! C20 oracle: does a secret (or any >= 12-byte window of it) occur in a log text, in clear or in
//! a trivially encoded form (Rust Debug escaping, hex with or without separators, base64 in any
//! alignment, list of byte values)?

use std::collections::HashSet;

pub struct Hit {
    pub offset: usize,
    pub encoding: String,
    pub window: String,
}

const B64_STD: &[u8; 64] = b"ABCDEFGHIJKLMNOPQRSTUVWXYZabcdefghijklmnopqrstuvwxyz0123456789+/";
const B64_URL: &[u8; 64] = b"ABCDEFGHIJKLMNOPQRSTUVWXYZabcdefghijklmnopqrstuvwxyz0123456789-_";

fn b64(data: &[u8], alphabet: &[u8; 64]) -> Vec<u8> {
    let mut out = Vec::new();
    for c in data.chunks(3) {
        let b = [c[0], *c.get(1).unwrap_or(&0), *c.get(2).unwrap_or(&0)];
        let n = (u32::from(b[0]) << 16) | (u32::from(b[1]) << 8) | u32::from(b[2]);
        out.push(alphabet[(n >> 18) as usize & 63]);
        out.push(alphabet[(n >> 12) as usize & 63]);
        if c.len() > 1 {
            out.push(alphabet[(n >> 6) as usize & 63]);
        }
        if c.len() > 2 {
            out.push(alphabet[n as usize & 63]);
        }
    }
    out
}

pub fn b64_decode(text: &[u8]) -> Vec<u8> {
    let mut out = Vec::new();
    let mut acc = 0u32;
    let mut bits = 0;
    for &c in text {
        let v = match c {
            b'A'..=b'Z' => c - b'A',
            b'a'..=b'z' => c - b'a' + 26,
            b'0'..=b'9' => c - b'0' + 52,
            b'+' | b'-' => 62,
            b'/' | b'_' => 63,
            _ => continue,
        };
        acc = (acc << 6) | u32::from(v);
        bits += 6;
        if bits >= 8 {
            bits -= 8;
            out.push((acc >> bits) as u8);
            acc &= (1 << bits) - 1;
        }
    }
    out
}

/// DER bytes of the first PEM section
pub fn pem_der(pem: &[u8]) -> Vec<u8> {
    let text = String::from_utf8_lossy(pem);
    let mut body = String::new();
    let mut inside = false;
    for l in text.lines() {
        if l.starts_with("-----BEGIN") {
            inside = true;
        } else if l.starts_with("-----END") {
            break;
        } else if inside {
            body.push_str(l.trim());
        }
    }
    b64_decode(body.as_bytes())
}

/// base64 body (lines joined) of the first PEM section
pub fn pem_body(pem: &[u8]) -> String {
    let text = String::from_utf8_lossy(pem);
    let mut body = String::new();
    let mut inside = false;
    for l in text.lines() {
        if l.starts_with("-----BEGIN") {
            inside = true;
        } else if l.starts_with("-----END") {
            break;
        } else if inside {
            body.push_str(l.trim());
        }
    }
    body
}

/// The parts of a private key's DER that are actually secret: maximal segments all of whose
/// 12-byte windows occur in none of the `public` blobs (certificates: ASN.1 headers, algorithm
/// identifiers, the modulus / public point are public and legitimately appear in logs).
pub fn sensitive_segments(secret: &[u8], public: &[Vec<u8>]) -> Vec<Vec<u8>> {
    let w = 12usize;
    if secret.len() < w {
        return vec![secret.to_vec()];
    }
    let mut pubset: HashSet<&[u8]> = HashSet::new();
    for p in public {
        for win in p.windows(w) {
            pubset.insert(win);
        }
    }
    let mut segs = Vec::new();
    let mut start: Option<usize> = None;
    let last = secret.len() - w;
    for i in 0..=last {
        let sens = !pubset.contains(&secret[i..i + w]);
        match (sens, start) {
            (true, None) => start = Some(i),
            (false, Some(a)) => {
                segs.push(secret[a..i - 1 + w].to_vec());
                start = None;
            }
            _ => {}
        }
    }
    if let Some(a) = start {
        segs.push(secret[a..].to_vec());
    }
    segs
}

/// encoded forms of `secret`: (encoding name, encoded bytes, minimum match length)
fn encodings(secret: &[u8]) -> Vec<(String, Vec<u8>, usize)> {
    let w = secret.len().min(12); // window in secret bytes
    let mut v: Vec<(String, Vec<u8>, usize)> = Vec::new();
    v.push(("clear".into(), secret.to_vec(), w));
    // Rust Debug escaping
    let dbg: Vec<u8> = match std::str::from_utf8(secret) {
        Ok(s) => {
            let d = format!("{s:?}");
            d[1..d.len() - 1].as_bytes().to_vec()
        }
        Err(_) => secret.escape_ascii().collect(),
    };
    if dbg != secret {
        v.push(("debug-escaped".into(), dbg, w));
    }
    let asc: Vec<u8> = secret.escape_ascii().collect();
    if asc != secret {
        v.push(("ascii-escaped".into(), asc, w));
    }
    for (name, upper) in [("hex", false), ("HEX", true)] {
        for (sepname, sep, prefix) in [("", "", ""), ("-space", " ", ""), ("-colon", ":", ""), ("-comma", ", ", ""), ("-0x-list", ", ", "0x"), ("-comma-tight", ",", "")] {
            let toks: Vec<String> = secret.iter().map(|b| if upper { format!("{prefix}{b:02X}") } else { format!("{prefix}{b:02x}") }).collect();
            let s = toks.join(sep);
            let min = toks.iter().take(w).map(String::len).sum::<usize>() + sep.len() * (w.saturating_sub(1));
            v.push((format!("{name}{sepname}"), s.into_bytes(), min));
        }
    }
    for (sepname, sep) in [("decimal-list", ", "), ("decimal-list-tight", ","), ("decimal-space", " ")] {
        let toks: Vec<String> = secret.iter().map(|b| b.to_string()).collect();
        // shortest window of w tokens
        let mut min = usize::MAX;
        for i in 0..=toks.len().saturating_sub(w) {
            let l = toks[i..(i + w).min(toks.len())].iter().map(String::len).sum::<usize>() + sep.len() * (w.saturating_sub(1));
            min = min.min(l);
        }
        v.push((sepname.into(), toks.join(sep).into_bytes(), min.max(8)));
    }
    for (name, alpha) in [("base64", B64_STD), ("base64url", B64_URL)] {
        for shift in 0..3usize.min(secret.len()) {
            // encoding of secret[shift..]; the first group is exact when the secret starts at a
            // 3-byte boundary inside a longer encoded buffer, so all three alignments are covered;
            // drop the last (possibly partial) group
            let mut e = b64(&secret[shift..], alpha);
            let keep = e.len() - e.len() % 4;
            e.truncate(keep.saturating_sub(4).max(keep.min(4)));
            let min = ((w.saturating_sub(shift + 2)) * 4 / 3).max(8);
            if e.len() >= min {
                v.push((format!("{name}(alignment {shift})"), e, min));
            }
        }
    }
    v
}

pub fn search(text: &[u8], secret: &[u8]) -> Vec<Hit> {
    let mut hits = Vec::new();
    if secret.is_empty() {
        return hits;
    }
    for (name, enc, min) in encodings(secret) {
        if enc.len() < min || min == 0 {
            continue;
        }
        let set: HashSet<&[u8]> = enc.windows(min).collect();
        let mut i = 0;
        while i + min <= text.len() {
            if set.contains(&text[i..i + min]) {
                hits.push(Hit { offset: i, encoding: name.clone(), window: String::from_utf8_lossy(&text[i..(i + min + 8).min(text.len())]).into_owned() });
                break; // one hit per encoding is enough
            }
            i += 1;
        }
    }
    hits
}

pub fn line_at(text: &[u8], offset: usize) -> String {
    let start = text[..offset].iter().rposition(|b| *b == b'\n').map_or(0, |p| p + 1);
    let end = text[offset..].iter().position(|b| *b == b'\n').map_or(text.len(), |p| offset + p);
    String::from_utf8_lossy(&text[start..end]).into_owned()
}

/// the tracing target (module path) that emitted a formatted line, best effort
pub fn target_of(line: &str) -> String {
    for tok in line.split_whitespace() {
        let t = tok.trim_end_matches(':');
        if tok.ends_with(':') && (t.contains("::") || ["russh", "rustls", "netconf", "bgpfu", "tokio", "mio", "log"].iter().any(|c| t.starts_with(c))) && !t.contains('{') {
            return t.to_string();
        }
    }
    "?".into()
}

#[cfg(test)]
mod tests {
    use super::*;
    #[test]
    fn finds_encodings() {
        let s = b"correct horse battery staple";
        let list = format!("enc: {:?}", &s[..]);
        assert!(!search(list.as_bytes(), s).is_empty());
        let hexs: String = s.iter().map(|b| format!("{b:02x}")).collect();
        assert!(!search(hexs.as_bytes(), s).is_empty());
        let mut framed = b"\x00\x00\x00\x05".to_vec();
        framed.extend_from_slice(s);
        let e = b64(&framed, B64_STD);
        assert!(!search(&e, s).is_empty());
        assert!(search(b"nothing to see here, move along please", s).is_empty());
    }
}
