//! C05 / C18 under a real tokio runtime, in memory. The controlled scheduler polls futures itself,
//! so anything the runtime adds - above all its cooperative budget, which turns every tokio
//! primitive (a free mutex included) into a possible suspension point once a task has done ~128
//! operations in one poll - is invisible to it. Here one task reads a burst of replies addressed
//! to other requests in a single poll and is then abandoned where it stands; the others must
//! still get their own replies.
//!
//! Time is paused (tokio test-util): when every task is idle the clock jumps to the next timer, so
//! "still pending at the watchdog" means "pending with nothing left to do", not "slow".

use crate::memwire::{self, Wire};
use crate::util::{Cfg, Report};
use netconf::message::rpc::operation::{Builder, Get};
use netconf::Session;
use serde_json::json;
use std::future::Future;
use std::pin::Pin;
use std::task::Poll;
use std::time::Duration;

type Fut = Pin<Box<dyn Future<Output = Result<String, netconf::Error>>>>;

#[derive(Debug, Clone)]
struct Case {
    /// requests outstanding whose replies are all buffered before anything is polled
    burst: usize,
    /// how the replies are ordered on the wire
    order: u8,
    /// what is abandoned: 0 = nothing (C05), 1 = an extra request whose reply has not arrived,
    /// polled once; 2 = the same, polled twice; 3 = the request whose reply is LAST in the burst,
    /// polled once
    abandon: u8,
    /// how the survivors are awaited: 0 in order, 1 in reverse, 2 joined, 3 spawned tasks
    wait: u8,
    /// bytes of padding per reply
    pad: usize,
}

async fn one(case: &Case, tagp: &str) -> Result<serde_json::Value, (String, String, serde_json::Value)> {
    let wire = Wire::new();
    wire.deliver(crate::sched::default_hello());
    let mut session = match Session::verif_establish(wire.transport()).await {
        Ok(s) => s,
        Err(e) => return Err(("rt:establish-failed".into(), format!("{e:?}"), json!({}))),
    };
    let mut futs: Vec<(usize, Fut)> = Vec::new();
    for i in 0..case.burst {
        match session.rpc::<Get, _>(|b| b.finish()).await {
            Ok(f) => futs.push((i, Box::pin(async move { f.await.map(|o| o.to_string()) }))),
            Err(e) => return Err(("rt:send-error".into(), format!("rpc() #{i}: {e:?}"), json!({}))),
        }
    }
    let extra: Option<Fut> = if case.abandon == 1 || case.abandon == 2 {
        match session.rpc::<Get, _>(|b| b.finish()).await {
            Ok(f) => Some(Box::pin(async move { f.await.map(|o| o.to_string()) })),
            Err(e) => return Err(("rt:send-error".into(), format!("rpc() extra: {e:?}"), json!({}))),
        }
    } else {
        None
    };
    let ids: Vec<String> = wire.lock().sent.iter().filter_map(|m| memwire::request_message_id(m)).collect();
    if ids.len() != case.burst + usize::from(extra.is_some()) {
        return Err(("rt:requests-missing-on-the-wire".into(), format!("{} ids for {} requests", ids.len(), case.burst), json!({})));
    }
    let distinct: std::collections::BTreeSet<&String> = ids.iter().collect();
    if distinct.len() != ids.len() {
        return Err(("rt:duplicate-message-id".into(), format!("{ids:?}"), json!({})));
    }
    // the whole burst of replies is in the transport's buffer before any reply future is polled
    let mut order: Vec<usize> = (0..case.burst).collect();
    match case.order {
        1 => order.reverse(),
        2 => {
            // interleave from both ends
            let mut o = Vec::new();
            let (mut a, mut b) = (0usize, case.burst);
            while a < b {
                o.push(a);
                a += 1;
                if a < b {
                    b -= 1;
                    o.push(b);
                }
            }
            order = o;
        }
        _ => {}
    }
    let tag = |i: usize| format!("{tagp}-{i}");
    for &i in &order {
        let m = if case.pad == 0 { memwire::data_reply(&ids[i], &tag(i)) } else { memwire::data_reply_padded(&ids[i], &tag(i), case.pad) };
        wire.deliver(m);
    }
    // a fresh scheduler tick (= a fresh cooperative budget) for what follows
    tokio::task::yield_now().await;
    let mut abandoned_req: Option<usize> = None;
    let mut polls_pending = 0;
    if let Some(mut x) = extra {
        for _ in 0..case.abandon {
            if futures::poll!(x.as_mut()).is_pending() {
                polls_pending += 1;
            }
            tokio::task::yield_now().await;
        }
        drop(x);
    } else if case.abandon == 3 && case.burst >= 2 {
        // the request whose reply comes last: in one poll it reads everybody else's reply
        let last = *order.last().unwrap();
        let pos = futs.iter().position(|(i, _)| *i == last).unwrap();
        let (i, mut x) = futs.remove(pos);
        match futures::poll!(x.as_mut()) {
            Poll::Pending => {
                polls_pending += 1;
                abandoned_req = Some(i);
                drop(x);
            }
            Poll::Ready(r) => {
                // it completed in one poll: nothing to abandon; judge it like a survivor
                futs.push((i, Box::pin(async move { r })));
            }
        }
    }
    let unread_at_drop = wire.lock().inbox.len();
    // survivors
    let n = futs.len();
    let results: Vec<(usize, Option<Result<String, netconf::Error>>)> = match case.wait {
        0 | 1 => {
            if case.wait == 1 {
                futs.reverse();
            }
            let mut out = Vec::new();
            for (i, f) in futs {
                out.push((i, tokio::time::timeout(Duration::from_secs(3600), f).await.ok()));
            }
            out
        }
        2 => {
            let idx: Vec<usize> = futs.iter().map(|(i, _)| *i).collect();
            let all = futures::future::join_all(futs.into_iter().map(|(_, f)| async move { tokio::time::timeout(Duration::from_secs(3600), f).await.ok() })).await;
            idx.into_iter().zip(all).collect()
        }
        _ => {
            let local = tokio::task::LocalSet::new();
            let mut hs = Vec::new();
            for (i, f) in futs {
                hs.push((i, local.spawn_local(async move { tokio::time::timeout(Duration::from_secs(3600), f).await.ok() })));
            }
            local
                .run_until(async move {
                    let mut out = Vec::new();
                    for (i, h) in hs {
                        out.push((i, h.await.unwrap_or(None)));
                    }
                    out
                })
                .await
        }
    };
    // a new request after all that
    let fresh = match session.rpc::<Get, _>(|b| b.finish()).await {
        Ok(f) => {
            let id = wire.lock().sent.last().and_then(|m| memwire::request_message_id(m)).unwrap_or_default();
            wire.deliver(memwire::data_reply(&id, &format!("{tagp}-fresh")));
            tokio::time::timeout(Duration::from_secs(3600), f).await.ok().map(|r| r.map(|o| o.to_string()))
        }
        Err(e) => Some(Err(e)),
    };
    let wit = json!({"case": format!("{case:?}"), "abandoned_request": abandoned_req, "polls_of_the_abandoned_future_that_returned_pending": polls_pending,
        "replies_still_unread_in_the_transport_when_it_was_dropped": unread_at_drop, "replies_unread_at_the_end": wire.lock().inbox.len()});
    let mut stuck = Vec::new();
    for (i, r) in &results {
        match r {
            None => stuck.push(*i),
            Some(Ok(t)) if *t == tag(*i) => {}
            Some(Ok(t)) => return Err(("rt:wrong-reply".into(), format!("request #{i} resolved to {t:?}, its own reply carried {:?}", tag(*i)), wit)),
            Some(Err(e)) => return Err(("rt:survivor-error".into(), format!("request #{i} failed with {e:?} although the server only sent correct replies"), wit)),
        }
    }
    if !stuck.is_empty() {
        let what = if case.abandon == 0 { "rt:stuck" } else { "rt:survivor-stuck-after-a-reader-was-abandoned-mid-burst" };
        return Err((what.into(), format!("{} of {n} requests never resolved although every reply had been delivered and the runtime was idle (first: #{})", stuck.len(), stuck[0]), wit));
    }
    match fresh {
        Some(Ok(t)) if t == format!("{tagp}-fresh") => {}
        other => return Err(("rt:fresh-request-after-the-burst-failed".into(), format!("{:?}", other.map(|r| r.map_err(|e| format!("{e:?}")))), wit)),
    }
    Ok(json!({"survivors": n, "unread_at_drop": unread_at_drop, "pending_polls": polls_pending}))
}

pub fn run(cfg: &Cfg, c18: bool) -> i32 {
    let mut rep = Report::new(
        if c18 { "C18" } else { "C05" },
        cfg,
        "one evaluation = one session over the in-memory transport inside a single-threaded tokio runtime with paused time: a burst of 1-600 requests whose replies are all buffered (in order, reversed, interleaved; small or 3 kB) before any reply future is polled; \
         for C18 one future (an extra request whose reply never comes, or the request whose reply is last) is polled once or twice in a fresh scheduler tick and dropped where it stands; the others are awaited in order, in reverse, joined or as spawned tasks, then a fresh request is made; \
         distinct = distinct (burst, order, abandon, wait, pad)",
    );
    rep.assumptions.push("paused time: a timeout fires only when the runtime has nothing left to do, so 'never resolved' is a statement about logical progress, not about speed".into());
    let bursts_quick: Vec<usize> = vec![1, 2, 8, 41, 42, 43, 44, 63, 64, 65, 127, 128, 129, 130, 200, 257];
    let bursts_thorough: Vec<usize> = (1..=140).chain([150, 191, 192, 193, 200, 255, 256, 257, 300, 383, 384, 385, 400, 512, 600]).collect();
    let bursts = if cfg.thorough() { bursts_thorough } else { bursts_quick };
    let mut cases = Vec::new();
    for &burst in &bursts {
        for order in 0..3u8 {
            let abandons: Vec<u8> = if c18 { vec![1, 2, 3] } else { vec![0] };
            for abandon in abandons {
                for wait in 0..4u8 {
                    let pad = if (burst + usize::from(wait)) % 5 == 0 { 3_000 } else { 0 };
                    cases.push(Case { burst, order, abandon, wait, pad });
                }
            }
        }
    }
    let cases: Vec<(usize, Case)> = cases.into_iter().enumerate().filter(|(i, _)| (*i as u64) % cfg.shards == cfg.shard).collect();
    for (k, case) in cases {
        let rt = tokio::runtime::Builder::new_current_thread().enable_time().start_paused(true).build().expect("runtime");
        let key = format!("{case:?}");
        rep.case(Some(key.as_bytes()));
        rep.count(&format!("abandon-mode:{}", case.abandon));
        let r = std::panic::catch_unwind(std::panic::AssertUnwindSafe(|| rt.block_on(one(&case, &format!("rt{k}")))));
        match r {
            Ok(Ok(info)) => {
                rep.count("held");
                rep.count_n("replies_unread_when_the_reader_was_abandoned", info["unread_at_drop"].as_u64().unwrap_or(0));
                rep.count_n("polls_of_an_abandoned_future_that_returned_pending", info["pending_polls"].as_u64().unwrap_or(0));
                if rep.samples.len() < rep.max_samples && k % 37 == 0 {
                    rep.sample(json!({"case": key, "observed": info}));
                }
            }
            Ok(Err((sig, detail, wit))) => rep.violation(&sig, &detail, json!({"case": key, "observed": wit, "seed": cfg.seed})),
            Err(p) => rep.violation("rt:panic", &crate::sess::panic_message(p), json!({"case": key})),
        }
    }
    rep.finish()
}
