//! A tiny namespace-aware document model with a *configurable serialiser*: the same information
//! content can be written in many XML-equivalent ways (C13), and valid base messages for the
//! mutation workload (C14) come from the same builders.

use crate::xmlstrict::{escape_attr, escape_text};

pub const BASE: &str = "urn:ietf:params:xml:ns:netconf:base:1.0";
pub const XNM: &str = "http://xml.juniper.net/xnm/1.1/xnm";
pub const JCMD: &str = "http://yang.juniper.net/junos/jcmd";
pub const JUNOS: &str = "http://xml.juniper.net/junos/23.1R0/junos";

#[derive(Clone, Debug)]
pub struct N {
    pub ns: &'static str,
    pub name: String,
    /// (namespace or "" for unqualified, local name, value)
    pub attrs: Vec<(&'static str, String, String)>,
    pub kids: Vec<N>,
    /// character data (leaf elements only)
    pub text: Option<String>,
    /// the text is token-valued: surrounding whitespace is not information
    pub token: bool,
}

impl N {
    pub fn el(ns: &'static str, name: &str) -> Self {
        Self { ns, name: name.into(), attrs: vec![], kids: vec![], text: None, token: false }
    }
    pub fn leaf(ns: &'static str, name: &str, text: &str) -> Self {
        Self { text: Some(text.into()), ..Self::el(ns, name) }
    }
    pub fn token(ns: &'static str, name: &str, text: &str) -> Self {
        Self { text: Some(text.into()), token: true, ..Self::el(ns, name) }
    }
    pub fn attr(mut self, ns: &'static str, name: &str, value: &str) -> Self {
        self.attrs.push((ns, name.into(), value.into()));
        self
    }
    pub fn kid(mut self, k: N) -> Self {
        self.kids.push(k);
        self
    }
    pub fn kids(mut self, ks: impl IntoIterator<Item = N>) -> Self {
        self.kids.extend(ks);
        self
    }
    /// number of elements in the tree
    pub fn count(&self) -> usize {
        1 + self.kids.iter().map(N::count).sum::<usize>()
    }
}

/// How to write a tree. Element sites are numbered in document order (pre-order), root = 0.
#[derive(Clone, Debug, Default)]
pub struct Style {
    /// namespace -> prefix; namespaces not listed use a default-namespace declaration
    pub prefix: Vec<(&'static str, String)>,
    /// insert newline+indent between elements (element-only content), everywhere
    pub indent: bool,
    /// sites whose token text is padded with whitespace
    pub pad_token: Vec<usize>,
    /// (site, position among children 0..=len) where a comment is inserted (element-only content)
    pub comments: Vec<(usize, usize)>,
    /// sites whose attributes are written in reverse order
    pub reverse_attrs: Vec<usize>,
    /// sites whose attributes are quoted with '
    pub single_quote: Vec<usize>,
    /// prepend an XML declaration
    pub decl: bool,
    /// which spelling of the declaration (0 = upper-case encoding name, double quotes)
    pub decl_form: usize,
    /// sites (childless, textless elements) written as <x></x> instead of <x/>  (or vice versa)
    pub flip_empty: Vec<usize>,
    /// by default childless elements are written <x/>
    pub default_start_end: bool,
    /// trailing text after the root (e.g. "]]>]]>")
    pub trailer: String,
    /// sites written with a prefix of their own, declared on the element itself
    /// (`<e7:ok xmlns:e7="..."/>`), whatever the rest of the document uses
    pub local_prefix: Vec<usize>,
    /// sites that redundantly declare their namespace again (`xmlns="..."`, or `xmlns:p="..."` if
    /// the element is written with prefix p)
    pub redeclare_ns: Vec<usize>,
    /// sites (leaves with text) whose text is followed by a comment inside the element:
    /// `<error-type>rpc<!-- note --></error-type>`
    pub comment_in_text: Vec<usize>,
    /// sites (leaves) written with a prefix of their own that also carry a declaration nobody uses,
    /// rebinding what the *following siblings* are written with (the default namespace, or the
    /// document-wide prefix): `<e5:error-type xmlns:e5="..." xmlns="urn:example:unused">`. The
    /// declaration ends with the element; it changes nothing for any other element.
    pub unused_decl: Vec<usize>,
    /// sites whose token text is padded with white space that includes CR and TAB (CRLF line ends)
    pub pad_token_cr: Vec<usize>,
    /// sites whose attribute values have their first character written as a character reference
    pub charref_attrs: Vec<usize>,
}

struct W<'a> {
    st: &'a Style,
    out: String,
    site: usize,
}

fn prefix_of<'a>(st: &'a Style, ns: &str) -> Option<&'a str> {
    st.prefix.iter().find(|(n, _)| *n == ns).map(|(_, p)| p.as_str())
}

impl W<'_> {
    fn write(&mut self, n: &N, parent_default_ns: &str, declared: &mut Vec<&'static str>, depth: usize) {
        let site = self.site;
        self.site += 1;
        let mut decls: Vec<(String, &'static str)> = Vec::new(); // (attr name, ns)
        let mut default_ns = parent_default_ns.to_string();
        let newly_declared_start = declared.len();
        let qname = match prefix_of(self.st, n.ns) {
            _ if (self.st.local_prefix.contains(&site) || self.st.unused_decl.contains(&site)) && !n.ns.is_empty() => {
                // children keep using what is in scope for them: the default namespace in force
                // (unchanged) or the document-wide prefix (declared where first needed)
                decls.push((format!("xmlns:e{site}"), n.ns));
                format!("e{site}:{}", n.name)
            }
            Some(p) if !n.ns.is_empty() => {
                if !declared.contains(&n.ns) {
                    decls.push((format!("xmlns:{p}"), n.ns));
                    declared.push(n.ns);
                }
                format!("{p}:{}", n.name)
            }
            _ => {
                if default_ns != n.ns {
                    decls.push(("xmlns".to_string(), n.ns));
                    default_ns = n.ns.to_string();
                }
                n.name.clone()
            }
        };
        if self.st.redeclare_ns.contains(&site) && !n.ns.is_empty() && !self.st.local_prefix.contains(&site) && !self.st.unused_decl.contains(&site) {
            let attr = match prefix_of(self.st, n.ns) {
                Some(p) => format!("xmlns:{p}"),
                None => "xmlns".to_string(),
            };
            if !decls.iter().any(|(k, _)| *k == attr) {
                decls.push((attr, n.ns));
            }
        }
        let mut unused: Option<String> = None;
        if self.st.unused_decl.contains(&site) && !n.ns.is_empty() && n.kids.is_empty() && n.attrs.iter().all(|(ns, _, _)| ns.is_empty()) {
            unused = Some(match prefix_of(self.st, n.ns) {
                Some(p) => format!("xmlns:{p}"),
                None => "xmlns".to_string(),
            });
        }
        // attribute namespaces always need a prefix
        let mut attrs: Vec<(String, String)> = Vec::new();
        for (ns, name, value) in &n.attrs {
            if ns.is_empty() {
                attrs.push((name.clone(), value.clone()));
            } else {
                let p = prefix_of(self.st, ns).map(ToString::to_string).unwrap_or_else(|| match *ns {
                    JCMD => "jcmd".to_string(),
                    JUNOS => "junos".to_string(),
                    _ => "ax".to_string(),
                });
                if !declared.contains(ns) {
                    decls.push((format!("xmlns:{p}"), ns));
                    declared.push(ns);
                }
                attrs.push((format!("{p}:{name}"), value.clone()));
            }
        }
        let mut all: Vec<(String, String)> = decls.iter().map(|(k, v)| (k.clone(), (*v).to_string())).collect();
        if let Some(u) = unused {
            all.push((u, "urn:example:unused".to_string()));
        }
        all.extend(attrs);
        if self.st.reverse_attrs.contains(&site) {
            all.reverse();
        }
        let q = if self.st.single_quote.contains(&site) { '\'' } else { '"' };
        self.out.push('<');
        self.out.push_str(&qname);
        for (k, v) in &all {
            self.out.push(' ');
            self.out.push_str(k);
            self.out.push('=');
            self.out.push(q);
            let e = escape_attr(v);
            // only the quote in use needs escaping; write the other one literally
            let mut e = if q == '"' { e.replace("&apos;", "'") } else { e.replace("&quot;", "\"") };
            if self.st.charref_attrs.contains(&site) && !k.starts_with("xmlns") {
                // the first character as a (decimal or hexadecimal) character reference
                if let Some(c) = v.chars().next() {
                    if !matches!(c, '&' | '<' | '>' | '"' | '\'') {
                        let rest = &e[c.len_utf8()..];
                        e = if (c as u32) % 2 == 0 { format!("&#{};{rest}", c as u32) } else { format!("&#x{:x};{rest}", c as u32) };
                    }
                }
            }
            self.out.push_str(&e);
            self.out.push(q);
        }
        let empty = n.kids.is_empty() && n.text.as_deref().map_or(true, str::is_empty);
        let comments: Vec<usize> = self.st.comments.iter().filter(|(s, _)| *s == site).map(|(_, p)| *p).collect();
        if empty && comments.is_empty() {
            let start_end = self.st.default_start_end ^ self.st.flip_empty.contains(&site);
            if start_end {
                self.out.push_str(&format!("></{qname}>"));
            } else {
                self.out.push_str("/>");
            }
        } else {
            self.out.push('>');
            if let Some(t) = &n.text {
                let pad = n.token && self.st.pad_token.contains(&site);
                if pad {
                    self.out.push_str("\n   ");
                }
                let pad_cr = n.token && self.st.pad_token_cr.contains(&site);
                if pad_cr {
                    self.out.push_str("\r\n\t  ");
                }
                self.out.push_str(&escape_text(t));
                if pad_cr {
                    self.out.push_str("\t\r\n\r");
                }
                if pad {
                    self.out.push_str("  \n");
                }
                if self.st.comment_in_text.contains(&site) {
                    self.out.push_str("<!-- note -->");
                }
            }
            for (i, k) in n.kids.iter().enumerate() {
                if comments.contains(&i) {
                    self.out.push_str("<!-- note -->");
                }
                if self.st.indent {
                    self.out.push('\n');
                    self.out.push_str(&"  ".repeat(depth + 1));
                }
                self.write(k, &default_ns, declared, depth + 1);
            }
            if comments.iter().any(|p| *p >= n.kids.len()) {
                self.out.push_str("<!-- note -->");
            }
            if self.st.indent && !n.kids.is_empty() {
                self.out.push('\n');
                self.out.push_str(&"  ".repeat(depth));
            }
            self.out.push_str(&format!("</{qname}>"));
        }
        // prefix declarations made on this element go out of scope with it
        declared.truncate(newly_declared_start);
    }
}

pub fn serialise(root: &N, st: &Style) -> String {
    let mut w = W { st, out: String::new(), site: 0 };
    if st.decl {
        w.out.push_str(
            [
                "<?xml version=\"1.0\" encoding=\"UTF-8\"?>",
                "<?xml version=\"1.0\" encoding=\"utf-8\"?>",
                "<?xml version='1.0' encoding='Utf-8' standalone='yes'?>",
                "<?xml version=\"1.0\"?>",
                "<?xml version=\"1.0\"  encoding=\"UTF-8\"  ?>\n",
            ][st.decl_form % 5],
        );
    }
    let mut declared = Vec::new();
    w.write(root, "", &mut declared, 0);
    w.out.push_str(&st.trailer);
    w.out
}

/// pre-order list of (site, &node, parent name path)
pub fn sites<'a>(root: &'a N) -> Vec<(usize, &'a N, String)> {
    fn go<'a>(n: &'a N, path: &str, out: &mut Vec<(usize, &'a N, String)>) {
        let me = if path.is_empty() { n.name.clone() } else { format!("{path}/{}", n.name) };
        out.push((out.len(), n, me.clone()));
        for k in &n.kids {
            go(k, &me, out);
        }
    }
    let mut v = Vec::new();
    go(root, "", &mut v);
    v
}
