//! End-to-end checks built on `e2e`: C15 (one unevaluable policy does not block the others),
//! the L2 stages of C01 / C02 / C03 / C11 (agent part), C19 (daemon back-off and signals, under the
//! clock-dilation shim) and the agent part of C20.

use crate::e2e::{self, FakeJunos, Script};
use crate::junos::{self, Config};
use crate::secrets;
use crate::util::{clip, Cfg, Prng, Report};
use irrfake::db::{self, Db, Size};
use irrfake::expr::{self, Expr, GenExprOpts, Policy, Range, RefEval};
use irrfake::pfx::{Family, Pfx};
use irrfake::server::{Fault, Faults, Server};
use serde_json::{json, Value};
use std::collections::{BTreeMap, BTreeSet};
use std::time::{Duration, Instant};

fn rt() -> tokio::runtime::Runtime {
    tokio::runtime::Builder::new_multi_thread().worker_threads(8).enable_all().build().expect("runtime")
}

/// model route-filters of one family as irrfake ranges
fn model_ranges(p: &junos::Policy, family: &str) -> Vec<Range> {
    p.accepted(family)
        .into_iter()
        .map(|(fam, addr, len, lo, hi)| Range { family: if fam == 4 { Family::V4 } else { Family::V6 }, addr, len, lo, hi })
        .collect()
}

/// Does the installed policy accept exactly the set the expression denotes? (pointwise on probes)
fn compare_installed(pol: &junos::Policy, e: &Expr, db: &Db, seed: u64) -> Result<(usize, usize), String> {
    let rf = RefEval::new(e, db, &Policy::STRICT).map_err(|f| format!("reference cannot evaluate: {f:?}"))?;
    let mut ranges = model_ranges(pol, "inet");
    let v4n = ranges.len();
    ranges.extend(model_ranges(pol, "inet6"));
    // family partition: nothing of the other family inside a term
    for t in &pol.terms {
        for f in &t.filters {
            if let Some(r) = junos::filter_range(f) {
                let want = if r.0 == 4 { "inet" } else { "inet6" };
                if t.family.as_deref() != Some(want) {
                    return Err(format!("route-filter {f:?} of family {want} sits in the term for {:?}", t.family));
                }
            } else {
                return Err(format!("unparseable route-filter {f:?}"));
            }
        }
    }
    for p in expr::probes(e, db, &ranges, 150, seed) {
        let want = rf.contains(p);
        let got = ranges.iter().any(|r| expr::range_contains(r, p));
        if want != got {
            return Err(format!("prefix {p}: the expression {} it, the installed policy {} it", if want { "contains" } else { "does not contain" }, if got { "accepts" } else { "does not accept" }));
        }
    }
    Ok((v4n, ranges.len() - v4n))
}

const ALLOWED_OPS: &[&str] = &["open-configuration", "get-config", "load-configuration", "commit-configuration", "close-configuration", "close-session"];

// =============================================================================== C15

#[derive(Clone, Debug)]
struct Bad {
    name: String,
    expr: String,
    kind: &'static str,
}

pub fn run_c15(cfg: &Cfg) -> i32 {
    let mut rep = Report::new(
        "C15",
        cfg,
        "one evaluation = one run of the real agent binary against the fake Junos and fake IRRd with k good and m unevaluable managed policies (unknown as-set, IRR error on the as-set query, PeerAS, AS-path regular expression, attribute match), in several name orders; \
         distinct = distinct (good set, unevaluable set, order); non-trivial = at least one good and one unevaluable policy",
    );
    if !std::path::Path::new(&e2e::agent_bin()).exists() {
        eprintln!("agent binary not built");
        return 2;
    }
    let n = cfg.count(20, 240);
    let rt = rt();
    let kinds: [(&str, &str); 5] = [
        ("unknown-as-set", "AS-DOES-NOT-EXIST"),
        ("irr-error-on-as-set-query", "AS-FAILING"),
        ("peeras", "PeerAS"),
        ("aspath-regexp", "<^AS65000$>"),
        ("attr-match", "community(65000:1)"),
    ];
    for i in 0..n {
        let idx = cfg.case_index(i);
        let mut r = cfg.prng("C15", idx);
        let k_good = r.range(1, 4);
        let mut database = crate::c04::simple_db(k_good);
        let sunk_as = 65000 + k_good as u32;
        database.as_sets.insert("AS-FAILING".into(), vec![irrfake::db::AsSetMember::As(65000)]);
        // which unevaluable kinds: every kind alone first, then combinations
        // ... each kind once with the unevaluable policy already installed, once not installed yet
        let bads: Vec<Bad> = if (idx as usize) < 2 * kinds.len() {
            let kk = kinds[idx as usize % kinds.len()];
            vec![Bad { name: format!("zz-bad-{}", kk.0), expr: kk.1.into(), kind: kk.0 }]
        } else {
            let m = r.range(1, 3);
            (0..m)
                .map(|j| {
                    let (kind, e) = kinds[r.below(kinds.len())];
                    let combined = if r.chance(1, 3) { format!("AS65000 AND {e}") } else { e.to_string() };
                    Bad { name: format!("bad-{j}-{kind}"), expr: combined, kind }
                })
                .collect()
        };
        // half of the cases: good and unevaluable policies share a filter-set, which the
        // unevaluable ones resolve *before* they fail (state kept per evaluation must not leak)
        let shared = idx % 2 == 1;
        database.filter_sets.insert("FLTR-SHARED".into(), "AS65000".into());
        let good_expr = |k: usize| -> Expr {
            if shared { Expr::Or(Box::new(Expr::AsNum(65000 + k as u32)), Box::new(Expr::FilterSet("FLTR-SHARED".into()))) } else { Expr::AsNum(65000 + k as u32) }
        };
        let mut managed: Vec<(String, String)> = (0..k_good).map(|k| (format!("good-{k}"), good_expr(k).to_rpsl())).collect();
        for b in &bads {
            let e = if shared { format!("FLTR-SHARED AND ({})", b.expr) } else { b.expr.clone() };
            managed.push((b.name.clone(), e));
        }
        managed.push(("partly-answered".to_string(), format!("AS{sunk_as}")));
        rep.count(if shared { "cases_sharing_a_filter_set_between_good_and_unevaluable" } else { "cases_without_shared_names" });
        // the agent iterates a HashMap: vary the names' order/hash by a per-case prefix
        let prefix = format!("p{}-", r.below(1000));
        for m in managed.iter_mut() {
            m.0 = format!("{prefix}{}", m.0);
        }
        r.shuffle(&mut managed);
        let mut faults = Faults::default();
        faults.by_query.insert("!iAS-FAILING,1".into(), Fault::Other(crate::c11::long_message(&mut r, "injected failure")));
        // one more managed policy whose route queries the IRR answers with an error: such errors
        // are logged and skipped by the evaluator (the policy gets what could be obtained); the
        // error text is the server's, of any length and in any language
        database.ases.insert(sunk_as, irrfake::db::AsRoutes { v4: vec![(0xC633_6400, 24)], v6: vec![] });
        faults.by_query.insert(format!("!gAS{sunk_as}"), Fault::Other(crate::c11::long_message(&mut r, "route query refused")));
        faults.by_query.insert(format!("!6AS{sunk_as}"), Fault::Other(crate::c11::long_message(&mut r, "route query refused")));
        // two more good policies that name the same as-set, whose first expansion the IRR refuses
        // once (a timeout, an overloaded server): the policy that asked is unevaluable in this run,
        // the other one asks again and is answered - an error is not something to remember
        let transient_shared = idx % 3 == 0;
        if transient_shared {
            database.as_sets.insert("AS-SHARED-T".into(), vec![irrfake::db::AsSetMember::As(65000)]);
            managed.push((format!("{prefix}t-shared-1"), "AS-SHARED-T".to_string()));
            managed.push((format!("{prefix}t-shared-2"), "AS-SHARED-T AND {0.0.0.0/0^8-24}".to_string()));
            faults.once.insert("!iAS-SHARED-T,1".into(), Fault::Other("query processing timed out".into()));
            rep.count("cases_with_a_transient_error_on_a_set_two_policies_share");
        }
        // a policy over an as-set of 150 members without route objects (300 "key not found" answers
        // that the evaluator logs and skips) next to a policy over an AS with IPv4 routes only
        // (which skips one such answer itself): what one evaluation had to skip is not the
        // next one's business
        let big_set = idx % 4 == 1;
        if big_set {
            database.as_sets.insert("AS-VH-BIG".into(), (0..150u32).map(|k| irrfake::db::AsSetMember::As(4_200_100_000 + k)).collect());
            database.ases.insert(64_999, irrfake::db::AsRoutes { v4: vec![(0xC633_6500, 24)], v6: vec![] });
            managed.push((format!("{prefix}big-set"), "AS-VH-BIG".to_string()));
            managed.push((format!("{prefix}v4-only-1"), "AS64999".to_string()));
            managed.push((format!("{prefix}v4-only-2"), "AS64999 AND {0.0.0.0/0^8-24}".to_string()));
            rep.count("cases_with_a_policy_that_skips_300_irr_answers");
        }
        let irr = match Server::start(database.clone(), faults) {
            Ok(s) => s,
            Err(e) => {
                rep.inconclusive("fake irrd", &format!("{e}"));
                continue;
            }
        };
        // unevaluable policies that are already installed (in the agent's own shape) must stay;
        // others are new (a freshly annotated statement with a typo, an empty database after a
        // reboot) and must simply not appear
        let mut initial = Config::default();
        for (j, b) in bads.iter().enumerate() {
            let installed = if (idx as usize) < 2 * kinds.len() { (idx as usize) < kinds.len() } else { r.chance(1, 2) };
            rep.count(if installed { "unevaluable_policies_already_installed" } else { "unevaluable_policies_not_installed" });
            let _ = j;
            if !installed {
                continue;
            }
            let name = format!("{prefix}{}", b.name);
            let payload = format!(
                "<configuration><policy-options><policy-statement><name>{name}</name><term><name>inet</name><from><family>inet</family><route-filter><address>198.51.100.0/24</address><prefix-length-range>/24-/24</prefix-length-range></route-filter></from><then><accept/></then></term><then><reject/></then></policy-statement></policy-options></configuration>"
            );
            let _ = initial.apply(&payload);
        }
        let before = initial.clone();
        let script = Script { running: e2e::running_config(&managed), faults: vec![], fail_connections: vec![], ephemeral_name: "bgpfu".into(), chunk: 0, slow_commit: vec![], faults_only_session: None, late_ms: 0, no_match_is_empty_data: false };
        let (run, shared) = rt.block_on(async {
            let j = FakeJunos::start(script, initial).await.expect("fake junos");
            let run = e2e::run_agent(j.port, irr.port(), 0, &["-v"], &[], Duration::from_secs(25)).await;
            tokio::time::sleep(Duration::from_millis(20)).await;
            let sh = j.shared.clone();
            j.stop();
            (run, sh)
        });
        irr.stop();
        let g = shared.lock().unwrap();
        let kinds_present: BTreeSet<&str> = bads.iter().map(|b| b.kind).collect();
        let key = format!("{managed:?}");
        rep.case(Some(key.as_bytes()));
        for k in &kinds_present {
            rep.count(&format!("unevaluable:{k}"));
        }
        let panicked = run.stderr.contains("panicked") || run.stderr.contains("task panicked");
        let wit = |extra: Value| json!({"managed": managed, "unevaluable": bads.iter().map(|b| format!("{} = {} ({})", b.name, b.expr, b.kind)).collect::<Vec<_>>(), "exit": run.exit, "timed_out": run.timed_out,
            "stderr_tail": clip(&run.stderr.lines().rev().take(8).collect::<Vec<_>>().join(" | "), 1200), "requests": e2e::log_json(&g.log), "case_index": idx, "seed": cfg.seed, "observed": extra});
        let kinds_sig = kinds_present.iter().copied().collect::<Vec<_>>().join("+");
        if run.timed_out {
            rep.inconclusive(&format!("case {idx}"), "agent did not exit within 25 s");
            continue;
        }
        let mut problems: Vec<String> = Vec::new();
        if run.exit != Some(0) {
            problems.push(format!("the run aborted (exit {:?}{})", run.exit, if panicked { ", evaluation task panicked" } else { "" }));
        }
        for k in 0..k_good {
            let name = format!("{prefix}good-{k}");
            match g.committed.as_ref().and_then(|c| c.policies.get(&name)) {
                None => problems.push(format!("good policy {name} was not installed and committed")),
                Some(p) => {
                    if let Err(e) = compare_installed(p, &good_expr(k), &database, idx) {
                        problems.push(format!("good policy {name}: {e}"));
                    }
                }
            }
        }
        for b in &bads {
            let name = format!("{prefix}{}", b.name);
            if g.ephemeral.policies.get(&name) != before.policies.get(&name) {
                problems.push(format!("unevaluable policy {name} was modified"));
            }
        }
        if transient_shared && run.exit == Some(0) {
            let got: Vec<bool> = ["t-shared-1", "t-shared-2"].iter().map(|n| g.committed.as_ref().map_or(false, |c| c.policies.contains_key(&format!("{prefix}{n}")))).collect();
            match got.iter().filter(|x| **x).count() {
                0 => problems.push("the IRR refused ONE expansion of the shared as-set, yet neither of the two policies naming it was installed".into()),
                1 => rep.count("transient_error_cost_exactly_the_policy_that_asked"),
                _ => rep.count("transient_error_not_consumed_by_either_policy"),
            }
        }
        if big_set && run.exit == Some(0) {
            for n in ["v4-only-1", "v4-only-2"] {
                if !g.committed.as_ref().map_or(false, |c| c.policies.contains_key(&format!("{prefix}{n}"))) {
                    problems.push(format!("policy {n} (an AS with IPv4 routes only) was not installed in a run that also evaluated an as-set of 150 route-less members"));
                }
            }
        }
        if problems.is_empty() {
            rep.count("runs_where_good_policies_were_updated");
        } else {
            let what = if run.exit != Some(0) { if panicked { "run-aborted-by-panic" } else { "run-aborted" } } else { "good-policy-not-updated" };
            // name the construct that made the evaluation panic (narrow, order-independent signature)
            let cause = if !panicked { kinds_sig.clone() } else if run.stderr.contains("AS-path regexp") { "aspath-regexp".to_string() } else if run.stderr.contains("action match") { "attr-match".to_string() } else if run.stderr.contains("not implemented") { "peeras".to_string() } else { kinds_sig.clone() };
            rep.violation(&format!("{what}:{cause}"), &problems.join("; "), wit(json!({})));
        }
        if rep.samples.len() < rep.max_samples {
            rep.sample(json!({"managed": managed, "exit": run.exit, "ops": g.log.iter().map(|e| e.op.clone()).collect::<Vec<_>>()}));
        }
    }
    rep.finish()
}

// =============================================================================== L2 histories

#[derive(Clone, Copy, PartialEq, Eq)]
pub enum L2 {
    C01,
    C02,
    C03,
    C11,
}

pub fn run_l2(cfg: &Cfg, prop: L2) -> i32 {
    let (pid, rule) = match prop {
        L2::C01 => ("C01", "one evaluation = one run of the real agent binary in a history of 3 consecutive runs against one fake Junos whose managed set and expressions change between runs; afterwards the reference Junos model's installed policies are compared pointwise with an independent RPSL evaluator, leftovers and read-back (the next run) are checked; distinct = distinct (database, managed set, step); non-trivial = the run sent at least one load"),
        L2::C02 => ("C02", "one evaluation = one load-configuration payload sent by the real agent binary, replayed on the reference model with the accept-set rule checked after each, plus the set of operations seen on the wire; distinct = distinct payloads; non-trivial = update payloads"),
        L2::C03 => ("C03", "one evaluation = one run of the real agent binary in which some managed policies cannot be evaluated (unknown as-set, IRR error on the as-set query, IRRd refusing connections) while installed; distinct = distinct (database, managed set, failure set); non-trivial = a failing policy is installed"),
        L2::C11 => ("C11", "one evaluation = one managed policy installed by the real agent binary, its installed IPv4/IPv6 route-filters compared pointwise with the independent RPSL evaluator; distinct = distinct (database, expression); non-trivial = all"),
    };
    let mut rep = Report::new(pid, cfg, rule);
    rep.assumptions.push("fake Junos = reference merge model of harness/src/junos.rs; fake IRRd = irrfake".into());
    if !std::path::Path::new(&e2e::agent_bin()).exists() {
        eprintln!("agent binary not built");
        return 2;
    }
    let n = cfg.count(match prop { L2::C11 => 10, L2::C03 => 16, _ => 6 }, 150);
    let rt = rt();
    for i in 0..n {
        let idx = cfg.case_index(i);
        let mut r = cfg.prng(&format!("{pid}-l2"), idx);
        let mut database = if r.chance(1, 2) { db::generate(r.next_u64(), Size::Small) } else { db::generate(r.next_u64(), Size::Medium) };
        // a filter-set nine levels deep whose innermost member names a set the IRR does not know:
        // every evaluation of it does a good deal of successful work before it fails
        for c in 1..=9 {
            database.filter_sets.insert(format!("FLTR-VH-DEEP{c}"), if c < 9 { format!("FLTR-VH-DEEP{}", c + 1) } else { "AS-DOES-NOT-EXIST".to_string() });
        }
        let database = database;
        // pool of evaluable expressions whose reference evaluation works and which avoid empty as-sets
        let mut pool: Vec<Expr> = Vec::new();
        let mut guard = 0;
        while pool.len() < 6 && guard < 200 {
            guard += 1;
            let e = expr::generate_expr_with(r.next_u64(), &database, &GenExprOpts::safe_for(&database, 1 + (guard % 3) as u32));
            let empty_set = expr::referenced_names(&e, &database).as_sets.iter().any(|s| expr::expand_as_set(&database, s).map_or(true, |m| m.is_empty()));
            if !empty_set && RefEval::new(&e, &database, &Policy::STRICT).is_ok() && !pool.iter().any(|p| p.to_rpsl() == e.to_rpsl()) {
                pool.push(e);
            }
        }
        if pool.len() < 3 {
            rep.inconclusive(&format!("case {idx}"), "could not generate enough evaluable expressions");
            continue;
        }
        let failing_set = database.as_sets.keys().next().cloned();
        let mut faults = Faults::default();
        if prop == L2::C03 {
            if let Some(s) = &failing_set {
                // an error response, or something that is not a response of the protocol at all (a
                // rate limiter's text line), the connection staying open
                let f = if idx % 2 == 0 { Fault::Other(crate::c11::long_message(&mut r, "injected failure")) } else { Fault::Garbage(b"% query rate limit exceeded, try again later\n".to_vec()) };
                rep.count(if idx % 2 == 0 { "l2_cases_with_error_response_on_the_as_set_query" } else { "l2_cases_with_a_non_protocol_reply_to_the_as_set_query" });
                faults.by_query.insert(format!("!i{s},1"), f);
            }
        }
        let irr = match Server::start(database.clone(), faults) {
            Ok(s) => s,
            Err(e) => {
                rep.inconclusive("fake irrd", &format!("{e}"));
                continue;
            }
        };
        let steps = 3;
        // managed: name -> expression text ("" = evaluable index into pool)
        let mut managed: BTreeMap<String, (String, Option<Expr>)> = BTreeMap::new();
        let names = ["fltr-a", "fltr-b", "fltr-c", "fltr-d", "fltr-e", "fltr-f", "fltr-g"];
        let history_json: std::cell::RefCell<Vec<Value>> = std::cell::RefCell::new(Vec::new());
        let script0 = Script { running: String::new(), faults: vec![], fail_connections: vec![], ephemeral_name: "bgpfu".into(), chunk: 0, slow_commit: vec![], faults_only_session: None, late_ms: 0, no_match_is_empty_data: false };
        let mut eph = Config::default();
        'steps: for step in 0..steps {
            // evolve the managed set
            for (k, name) in names.iter().enumerate() {
                match managed.get(*name) {
                    None if r.chance(1, 2) || (step == 0 && (k < 2 || prop == L2::C03)) => {
                        let e = pool[r.below(pool.len())].clone();
                        managed.insert((*name).to_string(), (e.to_rpsl(), Some(e)));
                    }
                    Some(_) if step > 0 && r.chance(1, 5) => {
                        managed.remove(*name);
                    }
                    Some(_) if step > 0 && r.chance(1, 3) => {
                        let e = pool[r.below(pool.len())].clone();
                        managed.insert((*name).to_string(), (e.to_rpsl(), Some(e)));
                    }
                    _ => {}
                }
            }
            // C01: runs in which no candidate evaluates (there is none left, or every expression
            // fails) while an installed policy is no longer managed: the delete is still due
            if prop == L2::C01 && step > 0 && ((step == steps - 1 && idx % 2 == 0) || r.chance(1, 4)) {
                let installed: Vec<String> = managed.keys().filter(|n| eph.policies.contains_key(*n)).cloned().collect();
                if let Some(v) = installed.first() {
                    managed.remove(v);
                    if r.chance(1, 2) {
                        managed.clear();
                        rep.count("l2_runs_without_any_candidate_and_a_delete_due");
                    } else {
                        for (_, v) in managed.iter_mut() {
                            *v = ("AS-DOES-NOT-EXIST".to_string(), None);
                        }
                        rep.count("l2_runs_where_nothing_evaluates_and_a_delete_due");
                    }
                }
            }
            // C11: the other candidates of a run are part of the circumstances under which a policy
            // gets installed: every other run has, among the good ones, candidates whose
            // expression names a set the IRR does not know (the agent skips them)
            if prop == L2::C11 && (idx + step as u64) % 2 == 0 {
                for u in 0..r.range(1, 3) {
                    managed.insert(format!("{}-unknown", ["aa", "mm", "zz"][u % 3]), (format!("AS-DOES-NOT-EXIST-{u}"), None));
                }
                rep.count("agent_runs_with_unevaluable_candidates_among_the_good_ones");
            }
            // C03: from the second step on, make installed policies fail
            let mut failing: BTreeSet<String> = BTreeSet::new();
            let mut irr_down = false;
            if prop == L2::C03 && step > 0 {
                let installed: Vec<String> = managed.keys().filter(|n| eph.policies.contains_key(*n)).cloned().collect();
                if !installed.is_empty() {
                    let mut victims = installed.clone();
                    r.shuffle(&mut victims);
                    // one or several policies share the SAME failing expression (e.g. the -in and
                    // -out policies of one customer): a failure must not be remembered as "empty"
                    // usually one to three victims; sometimes every installed policy fails while the
                    // IRR itself is reachable (mass withdrawal / partial outage)
                    if !r.chance(1, 3) {
                        victims.truncate(r.range(1, 3.min(victims.len())));
                    }
                    let text = match r.below(7) {
                        // a construct the evaluator does not implement (it panics on it): no prefix
                        // data can be obtained for this policy either
                        6 => "AS65000 AND <^AS65000+$>".to_string(),
                        5 => "FLTR-VH-DEEP1".to_string(),
                        0 => "AS-DOES-NOT-EXIST".to_string(),
                        1 => failing_set.clone().unwrap_or_else(|| "AS-DOES-NOT-EXIST".into()),
                        // a construct that cannot be evaluated without a peering: no prefix data
                        // can be obtained for it either
                        2 => "PeerAS".to_string(),
                        3 => "AS65000 AND PeerAS".to_string(),
                        _ => {
                            irr_down = true;
                            String::new()
                        }
                    };
                    if !irr_down {
                        for v in &victims {
                            let t = if r.chance(1, 3) { format!("{text} OR {text}") } else { text.clone() };
                            managed.insert(v.clone(), (t, None));
                            failing.insert(v.clone());
                        }
                    } else {
                        failing.extend(managed.keys().cloned());
                    }
                }
            }
            let managed_list: Vec<(String, String)> = managed.iter().map(|(n, (t, _))| (n.clone(), t.clone())).collect();
            let before = eph.clone();
            let mut script = script0.clone();
            script.running = e2e::running_config(&managed_list);
            // the replies reach the agent in one piece, or cut into small TLS records (C06 at the agent level)
            script.chunk = *r.pick(&[0usize, 0, 1, 5, 7, 64]);
            // a running configuration without any policy statement: what a router sends when the
            // request's subtree filter selects nothing is either the empty containment elements or
            // an empty <data/>; the second reading is tried now and then, and a run that fails over
            // it is recorded, not judged (C01 speaks of runs that report success)
            let strict_empty = managed_list.is_empty() && idx % 3 == 0;
            script.no_match_is_empty_data = strict_empty;
            // C01 is conditional on "the run reports success": make some runs hit a router-side
            // error on one of their loads (not necessarily the last). Such a run must either report
            // failure (then C01 says nothing) or, if it reports success, have converged all the same
            let mut injected_load_error = false;
            if prop == L2::C01 && r.chance(1, 3) {
                script.faults.push(("load-configuration".into(), r.below(2), e2e::FaultKind::RpcError));
                injected_load_error = true;
            }
            let irr_port = if irr_down { 1 } else { irr.port() }; // port 1: nothing listens (connection refused)
            let (run, log, after, committed, unmodelled) = rt.block_on(async {
                let j = FakeJunos::start(script, before.clone()).await.expect("fake junos");
                let run = e2e::run_agent(j.port, irr_port, 0, &["-v"], &[], Duration::from_secs(40)).await;
                tokio::time::sleep(Duration::from_millis(20)).await;
                let g = j.shared.lock().unwrap();
                let out = (g.log.clone(), g.ephemeral.clone(), g.committed.clone(), g.unmodelled.clone());
                drop(g);
                j.stop();
                (run, out.0, out.1, out.2, out.3)
            });
            let loads: Vec<&e2e::Req> = log.iter().filter(|e| e.op == "load-configuration").collect();
            history_json.borrow_mut().push(json!({"step": step, "managed": managed_list, "failing": failing, "irr_down": irr_down, "exit": run.exit, "ops": log.iter().map(|e| format!("{}:{}", e.op, e.reply)).collect::<Vec<_>>()}));
            let wit = |extra: Value| json!({"case_index": idx, "seed": cfg.seed, "history": history_json.borrow().clone(), "stderr_tail": clip(&run.stderr.lines().rev().take(6).collect::<Vec<_>>().join(" | "), 900),
                "panic_message": run.stderr.lines().skip_while(|l| !l.contains("panicked at")).take(2).collect::<Vec<_>>().join(" | "),
                "error_lines": clip(&run.stderr.lines().filter(|l| l.contains("ERROR") || l.contains("Error") || l.contains("error")).take(6).collect::<Vec<_>>().join(" | "), 1500), "db": database.to_json(), "observed": extra});
            if run.timed_out {
                rep.inconclusive(&format!("case {idx} step {step}"), "agent did not exit within 40 s");
                break 'steps;
            }
            let key = format!("{idx}|{step}|{managed_list:?}|{failing:?}|{irr_down}");
            match prop {
                L2::C01 => {
                    rep.case(if loads.is_empty() { None } else { Some(key.as_bytes()) });
                    let load_error_hit = injected_load_error && log.iter().any(|e| e.op == "load-configuration" && e.reply == "rpc-error");
                    if load_error_hit {
                        rep.count("l2_runs_with_a_router_side_load_error");
                    }
                    if run.exit != Some(0) && load_error_hit {
                        // the run reports failure: outside C01's premise. What is in effect is what
                        // was committed before; the next run starts from there
                        rep.count("l2_runs_reporting_failure_after_a_load_error");
                        eph = before;
                        continue 'steps;
                    }
                    if run.exit != Some(0) && strict_empty && loads.is_empty() {
                        rep.count("observed_not_judged:run-fails-when-the-filtered-running-configuration-comes-back-as-empty-data");
                        eph = before;
                        continue 'steps;
                    }
                    if run.exit != Some(0) {
                        // a run that reports failure is outside C01's premise, but on this workload nothing should fail
                        rep.violation("l2:run-failed-on-fault-free-workload", &format!("exit {:?}", run.exit), wit(json!({})));
                        break 'steps;
                    }
                    // what is in effect afterwards: the committed state, or, if the run did not
                    // commit at all (nothing to do), what was in effect before
                    if committed.is_none() {
                        rep.count("l2_successful_runs_without_commit");
                    }
                    let c = committed.as_ref().unwrap_or(&before);
                    for (name, (_, e)) in &managed {
                        let Some(e) = e else { continue };
                        match c.policies.get(name) {
                            None => {
                                rep.violation("l2:converge:evaluated-policy-missing", name, wit(json!({})));
                                break 'steps;
                            }
                            Some(p) => {
                                if let Err(why) = compare_installed(p, e, &database, idx) {
                                    rep.violation("l2:converge:accept-set-differs", &format!("{name} ({}): {why}", e.to_rpsl()), wit(json!({})));
                                    break 'steps;
                                }
                                if p.default_action != Some(junos::Action::Reject) {
                                    rep.violation("l2:converge:no-default-reject", name, wit(json!({})));
                                }
                                rep.count("policies_compared_with_reference");
                            }
                        }
                    }
                    for name in c.policies.keys() {
                        if !managed.contains_key(name) {
                            rep.violation("l2:converge:unmanaged-policy-left-installed", name, wit(json!({})));
                            break 'steps;
                        }
                    }
                }
                L2::C11 => {
                    if run.exit == Some(0) {
                        if let Some(c) = &committed {
                            for (name, (text, e)) in &managed {
                                let Some(e) = e else { continue };
                                let k2 = format!("{idx}|{text}");
                                rep.case(Some(k2.as_bytes()));
                                match c.policies.get(name) {
                                    Some(p) => match compare_installed(p, e, &database, idx) {
                                        Ok((a, b)) => {
                                            rep.count("agree");
                                            rep.count_n("installed_ipv4_filters", a as u64);
                                            rep.count_n("installed_ipv6_filters", b as u64);
                                        }
                                        Err(why) => rep.violation("agent:installed-set-differs", &format!("{name} ({text}): {why}"), wit(json!({}))),
                                    },
                                    None => rep.violation("agent:policy-not-installed", name, wit(json!({}))),
                                }
                            }
                        }
                    } else {
                        rep.inconclusive(&format!("case {idx} step {step}"), &format!("run failed (exit {:?})", run.exit));
                    }
                }
                L2::C02 => {
                    // replay every payload on the state the agent fetched
                    let mut st = before.clone();
                    for l in &loads {
                        rep.case(Some(l.payload.as_bytes()));
                        let doc = match crate::xmlstrict::parse(l.payload.as_bytes()) {
                            Ok(d) => d,
                            Err(e) => {
                                rep.violation("l2:payload-not-well-formed", &format!("{e:?}"), wit(json!({"payload": clip(&l.payload, 800)})));
                                continue;
                            }
                        };
                        let Some(c) = doc.root.elems().next().and_then(|lc| lc.child("configuration")).cloned() else {
                            rep.violation("l2:payload:no-configuration-element", "", wit(json!({"payload": clip(&l.payload, 800)})));
                            continue;
                        };
                        let mut paths = Vec::new();
                        c.all_paths("", &mut paths);
                        for p in paths {
                            if !(p == "configuration" || p == "configuration/policy-options" || p.starts_with("configuration/policy-options/policy-statement")) {
                                rep.violation("l2:payload:element-outside-policy-statement", &p, wit(json!({"payload": clip(&l.payload, 800)})));
                            }
                        }
                        if let Err(e) = st.apply_elem(&c) {
                            rep.violation("l2:payload:outside-policy-statements-or-unmodelled", &e, wit(json!({"payload": clip(&l.payload, 800)})));
                            continue;
                        }
                        let pname = c.path(&["policy-options", "policy-statement", "name"]).map(|n| n.text()).unwrap_or_default();
                        if let Some(pol) = st.policies.get(&pname) {
                            // structural: exactly one family per accepting term, >= 1 filter, default reject
                            let universe4: BTreeSet<junos::Range> = pol.accepted("inet");
                            let universe6: BTreeSet<junos::Range> = pol.accepted("inet6");
                            let mut why = pol.fail_open_reasons(&universe4, &universe6);
                            // semantic: every installed range lies within the expression's set
                            if let Some((_, Some(e))) = managed.get(&pname) {
                                if let Ok(rf) = RefEval::new(e, &database, &Policy::STRICT) {
                                    for fam in ["inet", "inet6"] {
                                        for rg in model_ranges(pol, fam) {
                                            for p in corner_probes(&rg) {
                                                if !rf.contains(p) {
                                                    why.push(format!("installed range {rg} accepts {p}, which the expression {} does not contain", e.to_rpsl()));
                                                }
                                            }
                                        }
                                    }
                                }
                            }
                            if !why.is_empty() {
                                rep.violation("l2:fail-open", &why.join("; "), wit(json!({"payload": clip(&l.payload, 1200)})));
                            }
                        }
                    }
                    for e in &log {
                        if !ALLOWED_OPS.contains(&e.op.as_str()) {
                            rep.violation(&format!("l2:unexpected-operation:{}", e.op), "the agent used an operation outside its ephemeral-instance workflow", wit(json!({})));
                        }
                    }
                    for u in &unmodelled {
                        rep.violation("l2:wrote-outside-its-instance-or-unmodelled", u, wit(json!({})));
                    }
                    rep.count_n("operations_seen", log.len() as u64);
                }
                L2::C03 => {
                    let installed_failing = failing.iter().any(|n| before.policies.contains_key(n));
                    rep.case(if installed_failing { Some(key.as_bytes()) } else { None });
                    for name in &failing {
                        if before.policies.get(name) != after.policies.get(name) {
                            let what = if after.policies.contains_key(name) { "changed" } else { "deleted" };
                            rep.violation(&format!("l2:failed-policy-{what}:{}", if irr_down { "irr-unreachable" } else { "evaluation-failed" }), &format!("policy {name} is still managed, its data could not be obtained, yet it was {what}"), wit(json!({})));
                        } else if before.policies.contains_key(name) {
                            rep.count("failed_installed_policy_left_untouched");
                        }
                        for l in &loads {
                            if l.payload.contains(&format!("<name>{name}</name>")) {
                                rep.violation("l2:payload-names-failed-policy", name, wit(json!({"payload": clip(&l.payload, 600)})));
                            }
                        }
                    }
                    // deletes only for installed policies no longer managed
                    for l in &loads {
                        if l.payload.contains("policy-statement delete=\"delete\"") {
                            let nm = l.payload.split("<name>").nth(1).and_then(|s| s.split("</name>").next()).unwrap_or("").to_string();
                            if managed.contains_key(&nm) || !before.policies.contains_key(&nm) {
                                rep.violation("l2:delete-of-managed-or-absent-policy", &nm, wit(json!({"payload": clip(&l.payload, 600)})));
                            }
                            rep.count("deletes_seen");
                        }
                    }
                }
            }
            if rep.samples.len() < rep.max_samples && step == 1 {
                rep.sample(history_json.borrow().last().cloned().unwrap_or_default());
            }
            // restore failing policies' expressions for the next step
            for name in &failing {
                if let Some((_, e)) = managed.get(name).cloned() {
                    if e.is_none() {
                        let e2 = pool[r.below(pool.len())].clone();
                        managed.insert(name.clone(), (e2.to_rpsl(), Some(e2)));
                    }
                }
            }
            // uncommitted changes of a closed session are discarded
            eph = committed.clone().unwrap_or(before);
            let _ = after;
        }
        irr.stop();
    }
    rep.finish()
}

fn corner_probes(r: &Range) -> Vec<Pfx> {
    let base = Pfx::new(r.family, r.addr, r.len);
    let mut v = Vec::new();
    for l in [r.lo, r.hi] {
        if l >= r.len && l <= r.family.bits() {
            v.push(base.first_sub(l));
            v.push(base.last_sub(l));
        }
    }
    v
}

// =============================================================================== C20 (agent)

pub fn run_c20_agent(cfg: &Cfg) -> i32 {
    let mut rep = Report::new(
        "C20",
        cfg,
        "one evaluation = one run of the real agent binary (success, untrusted CA, key and certificate paths swapped, connection dropped) at a verbosity / RUST_LOG directive, to stderr or to a log file; the complete output is searched for every >= 12-byte window of the secret parts of the TLS client key in clear, escaped, hex, base64 and byte-list form; \
         distinct = distinct (outcome, verbosity, directive, destination, key); non-trivial = all",
    );
    if !std::path::Path::new(&e2e::agent_bin()).exists() {
        eprintln!("agent binary not built");
        return 2;
    }
    let rt = rt();
    let irr = Server::start(crate::c04::simple_db(2), Faults::default()).expect("irrd");
    let dir = crate::peers::fixtures().join("pki");
    let public: Vec<Vec<u8>> = crate::peers::PUBLIC_CERTS.iter().map(|c| secrets::pem_der(&std::fs::read(dir.join(c)).unwrap_or_default())).collect();
    let directives = ["", "trace", "debug", "netconf=trace", "bgpfu_junos_agent=trace,rustls=trace,tokio_rustls=trace", "info,netconf::transport=trace"];
    let outcomes = ["success", "untrusted-ca", "paths-swapped", "peer-drops", "cert-bundle-with-key", "ca-bundle-with-key", "key-file-with-trailing-copy", "unusable-key",
        "key-file-on-one-line", "key-file-without-end-marker", "key-file-with-crlf-and-leading-text", "key-file-with-latin1-leading-text", "key-file-with-byte-order-mark", "daemon-reconnects"];
    let keys = [("client.key", "client.crt"), ("client.sec1.key", "client.crt"), ("client-rsa.key", "client-rsa.crt"), ("client-rsa.pkcs1.key", "client-rsa.crt")];
    let n = cfg.count(98, 980);
    for i in 0..n {
        let idx = cfg.case_index(i);
        let mut r = cfg.prng("C20-agent", idx);
        let outcome = outcomes[(i as usize) % outcomes.len()];
        let directive = directives[r.below(directives.len())];
        let verbosity = *r.pick(&["-vvvv", "-vvv", "-vv", "-q"]);
        let (mut key, mut cert) = keys[r.below(keys.len())];
        if outcome == "unusable-key" {
            // key types / sizes the TLS backend refuses (or may refuse), and a damaged key
            (key, cert) = crate::peers::UNUSUAL_KEYS[(idx as usize / outcomes.len()) % crate::peers::UNUSUAL_KEYS.len()];
        }
        let to_file = r.chance(1, 3);
        let logfile = std::env::temp_dir().join(format!("vh-agent-log-{}-{idx}.log", std::process::id()));
        let managed = vec![("fltr-0".to_string(), "AS65000".to_string())];
        let script = Script { running: e2e::running_config(&managed), faults: vec![], fail_connections: vec![outcome == "peer-drops"], ephemeral_name: "bgpfu".into(), chunk: 0, slow_commit: vec![], faults_only_session: None, late_ms: 0, no_match_is_empty_data: false };
        // unusual but plausible file layouts: bundles that contain the private key
        let bundle = std::env::temp_dir().join(format!("vh-bundle-{}-{idx}.pem", std::process::id()));
        let cat = |files: &[&str]| -> String {
            let mut v = Vec::new();
            for f in files {
                v.extend(std::fs::read(dir.join(f)).unwrap_or_default());
            }
            let _ = std::fs::write(&bundle, v);
            bundle.to_string_lossy().into_owned()
        };
        // damaged / reformatted key files (what an editor, a copy-and-paste or a truncated copy leave)
        let rewrite = |f: &str, how: &str| -> String {
            let text = String::from_utf8_lossy(&std::fs::read(dir.join(f)).unwrap_or_default()).into_owned();
            let out: Vec<u8> = match how {
                "one-line" => text.lines().collect::<Vec<_>>().join(" ").into_bytes(),
                "no-end" => text.lines().filter(|l| !l.starts_with("-----END")).collect::<Vec<_>>().join("\n").into_bytes(),
                // what `openssl pkcs12 -nodes` writes in front of the key, with a friendlyName in
                // an 8-bit code page (not UTF-8), or with a byte-order mark from an editor
                "latin1" => {
                    let mut v = b"Bag Attributes\n    friendlyName: Z\xFCrich core\nKey Attributes: <No Attributes>\n".to_vec();
                    v.extend_from_slice(text.as_bytes());
                    v
                }
                "bom" => {
                    let mut v = b"\xEF\xBB\xBF".to_vec();
                    v.extend_from_slice(text.as_bytes());
                    v
                }
                _ => format!("Bag Attributes\r\n    friendlyName: vh\r\n{}", text.replace('\n', "\r\n")).into_bytes(),
            };
            let _ = std::fs::write(&bundle, out);
            bundle.to_string_lossy().into_owned()
        };
        let (ca, cert_path, key_path) = match outcome {
            "key-file-on-one-line" => (e2e::pki("ca.crt"), e2e::pki(cert), rewrite(key, "one-line")),
            "key-file-without-end-marker" => (e2e::pki("ca.crt"), e2e::pki(cert), rewrite(key, "no-end")),
            "key-file-with-crlf-and-leading-text" => (e2e::pki("ca.crt"), e2e::pki(cert), rewrite(key, "crlf")),
            "key-file-with-latin1-leading-text" => (e2e::pki("ca.crt"), e2e::pki(cert), rewrite(key, "latin1")),
            "key-file-with-byte-order-mark" => (e2e::pki("ca.crt"), e2e::pki(cert), rewrite(key, "bom")),
            "cert-bundle-with-key" => (e2e::pki("ca.crt"), cat(&[cert, key]), e2e::pki(key)),
            "ca-bundle-with-key" => (cat(&["ca.crt", key]), e2e::pki(cert), e2e::pki(key)),
            "key-file-with-trailing-copy" => (e2e::pki("ca.crt"), e2e::pki(cert), cat(&[key, key])),
            "untrusted-ca" => (e2e::pki("other-ca.crt"), e2e::pki(cert), e2e::pki(key)),
            "paths-swapped" => (e2e::pki("ca.crt"), e2e::pki(key), e2e::pki(cert)),
            _ => (e2e::pki("ca.crt"), e2e::pki(cert), e2e::pki(key)),
        };
        let lf = logfile.to_string_lossy().into_owned();
        let mut daemon_sessions = 0usize;
        let run = rt.block_on(async {
            let j = FakeJunos::start(script, Config::default()).await.expect("fake junos");
            // run_agent appends the fixture paths; later options win in clap? no: pass our own full command
            let mut cmd = tokio::process::Command::new(e2e::agent_bin());
            // "daemon-reconnects": daemon mode with a one-second period, three or four cycles, each
            // a new connection with the same identity (what one cycle was given must not turn up in
            // the log of a later one)
            let daemon = outcome == "daemon-reconnects";
            cmd.args(["-f", if daemon { "1" } else { "0" }, "--irrd-host", "127.0.0.1", "--irrd-port", &irr.port().to_string(), verbosity]);
            if to_file {
                cmd.args(["-l", &lf]);
            }
            cmd.args(["remote", "--netconf-host", "127.0.0.1", "--netconf-port", &j.port.to_string(), "--ca-cert-path", &ca, "--client-cert-path", &cert_path, "--client-key-path", &key_path]);
            cmd.env_remove("RUST_LOG");
            if !directive.is_empty() {
                cmd.env("RUST_LOG", directive);
            }
            cmd.stdin(std::process::Stdio::null()).stdout(std::process::Stdio::piped()).stderr(std::process::Stdio::piped()).kill_on_drop(true);
            let out = if daemon {
                match cmd.spawn() {
                    Ok(child) => {
                        let pid = child.id().unwrap_or(0) as i32;
                        let waiter = tokio::spawn(child.wait_with_output());
                        tokio::time::sleep(Duration::from_millis(3400)).await;
                        unsafe {
                            libc::kill(pid, libc::SIGTERM);
                        }
                        match tokio::time::timeout(Duration::from_secs(20), waiter).await {
                            Ok(Ok(o)) => Ok(o),
                            _ => {
                                unsafe {
                                    libc::kill(pid, libc::SIGKILL);
                                }
                                Err(tokio::time::timeout(Duration::from_millis(1), std::future::pending::<()>()).await.unwrap_err())
                            }
                        }
                    }
                    Err(e) => Ok(Err(e)),
                }
            } else {
                tokio::time::timeout(Duration::from_secs(25), cmd.output()).await
            };
            if daemon {
                let n = j.shared.lock().unwrap().sessions.len();
                daemon_sessions = n;
            }
            j.stop();
            out
        });
        let _ = std::fs::remove_file(&bundle);
        let Ok(Ok(out)) = run else {
            rep.inconclusive(&format!("case {idx}"), "agent did not finish");
            continue;
        };
        let mut text = out.stderr.clone();
        text.extend_from_slice(&out.stdout);
        if to_file {
            // rolling-file appends a suffix-less current file
            if let Ok(b) = std::fs::read(&logfile) {
                text.extend_from_slice(&b);
            }
            let _ = std::fs::remove_file(&logfile);
        }
        let key_name = format!("{outcome}|{verbosity}|{directive}|{to_file}|{key}");
        rep.case(Some(key_name.as_bytes()));
        rep.count(&format!("outcome:{outcome}"));
        if outcome == "daemon-reconnects" {
            rep.count_n("daemon_connections_with_the_same_identity", daemon_sessions as u64);
            if daemon_sessions < 2 {
                rep.inconclusive(&format!("case {idx}"), &format!("the daemon connected {daemon_sessions} time(s) only"));
            }
        }
        rep.count_n("log_bytes_searched", text.len() as u64);
        rep.count_n("log_lines_searched", text.iter().filter(|b| **b == b'\n').count() as u64);
        let der = secrets::pem_der(&std::fs::read(dir.join(key)).unwrap_or_default());
        let mut found = false;
        // the key file is text: its base64 body, rendered once more as a byte list or in hex (a
        // Debug-printed buffer of the file), gives the key away just the same. The first 64
        // characters encode the public ASN.1 header and are left out.
        let body = secrets::pem_body(&std::fs::read(dir.join(key)).unwrap_or_default());
        if body.len() > 64 + 24 {
            for h in secrets::search(&text, &body.as_bytes()[64..]) {
                if h.encoding == "clear" || h.encoding.starts_with("base64") {
                    continue; // the body in clear is found as base64 of the DER below
                }
                found = true;
                let line = secrets::line_at(&text, h.offset);
                rep.violation(
                    &format!("agent:{outcome}:tls-client-key:pem-text-as-{}", h.encoding.split('(').next().unwrap_or("?")),
                    &format!("the PEM text of the TLS client key appears in the agent's output re-encoded ({})", h.encoding),
                    json!({"outcome": outcome, "verbosity": verbosity, "RUST_LOG": directive, "to_file": to_file, "key": key, "line": clip(&line, 500), "window": h.window, "exit": out.status.code()}),
                );
            }
        }
        for (k, seg) in secrets::sensitive_segments(&der, &public).into_iter().enumerate() {
            for h in secrets::search(&text, &seg) {
                found = true;
                let line = secrets::line_at(&text, h.offset);
                rep.violation(
                    &format!("agent:{outcome}:tls-client-key:{}", h.encoding.split('(').next().unwrap_or("?")),
                    &format!("secret part {k} of the TLS client key appears in the agent's output ({})", h.encoding),
                    json!({"outcome": outcome, "verbosity": verbosity, "RUST_LOG": directive, "to_file": to_file, "key": key, "line": clip(&line, 500), "window": h.window, "exit": out.status.code()}),
                );
            }
        }
        if !found {
            rep.count("held");
        }
        if rep.samples.len() < rep.max_samples {
            rep.sample(json!({"outcome": outcome, "verbosity": verbosity, "RUST_LOG": directive, "to_file": to_file, "key": key, "exit": out.status.code(), "log_lines": text.iter().filter(|b| **b == b'\n').count(),
                "last_line": clip(&String::from_utf8_lossy(&text).lines().last().unwrap_or("").to_string(), 300)}));
        }
    }
    irr.stop();
    rep.finish()
}

// =============================================================================== C19

struct DaemonObs {
    /// virtual seconds (since daemon start) at which each connection was accepted
    accepts: Vec<f64>,
    /// virtual seconds at which each connection ended (None = still open at the end)
    closes: Vec<Option<f64>>,
    logged_delays: Vec<u64>,
    exit: Option<i32>,
    exit_at: Option<f64>,
    signals: Vec<(String, f64)>,
    stderr: String,
    overshoot_ms: f64,
    silent_irr_connections: usize,
}

/// Run the daemon under the dilation shim. `outcomes[k]` = does connection k succeed?
/// `signals` = (virtual second, signal) to send. Ends at `end_at` virtual seconds (SIGKILL if still alive).
/// extra conditions of a daemon scenario
#[derive(Clone, Debug, Default)]
struct DaemonOpts {
    /// TOKIO_WORKER_THREADS for the agent (a single-core routing engine)
    workers: Option<u32>,
    /// Some((n, release)): the first n runs fail early (the installed-policies fetch is refused)
    /// while the reply to the candidates fetch arrives late, so that each run's evaluation task
    /// outlives it; the IRRd accepts those tasks' connections and stays silent until `release`
    /// (virtual seconds), then answers everything it was asked. Later connections are served normally.
    leftover_evaluation_on_silent_irr: Option<(usize, f64)>,
    /// Some(n): the first n runs fail because the router sends half a reply and then ends the TLS
    /// session in an orderly way (instead of dropping the connection right after the hello)
    truncated_reply_then_close: Option<usize>,
    /// the router is fine in every run, but the IRRd's port refuses connections for the whole
    /// scenario (bound, never listening): every run fails at "connect to the IRRd"
    irr_refuses_connections: bool,
}

/// A loopback TCP port that refuses connections and cannot be taken by anybody else meanwhile:
/// a socket that is bound but never listens. Returns (fd, port).
fn refusing_port() -> Result<(i32, u16), String> {
    unsafe {
        let fd = libc::socket(libc::AF_INET, libc::SOCK_STREAM | libc::SOCK_CLOEXEC, 0);
        if fd < 0 {
            return Err("socket".into());
        }
        let mut a: libc::sockaddr_in = std::mem::zeroed();
        a.sin_family = libc::AF_INET as libc::sa_family_t;
        a.sin_port = 0;
        a.sin_addr.s_addr = u32::from_ne_bytes([127, 0, 0, 1]);
        let mut len = std::mem::size_of::<libc::sockaddr_in>() as libc::socklen_t;
        if libc::bind(fd, &a as *const _ as *const libc::sockaddr, len) != 0 || libc::getsockname(fd, &mut a as *mut _ as *mut libc::sockaddr, &mut len) != 0 {
            libc::close(fd);
            return Err("bind".into());
        }
        Ok((fd, u16::from_be(a.sin_port)))
    }
}

fn run_daemon(k: f64, period: u64, outcomes: &[bool], signals: &[(f64, i32)], end_at: f64, slow: &[(usize, f64)], opts: &DaemonOpts) -> Result<DaemonObs, String> {
    let rt = rt();
    let irr = Server::start(crate::c04::simple_db(1), Faults::default()).map_err(|e| format!("irrd: {e}"))?;
    let target = std::env::var("VH_TARGET").unwrap_or_else(|_| "/verif/target".into());
    let shim = format!("{target}/dilate.so");
    if !std::path::Path::new(&shim).exists() {
        return Err("dilate.so not built".into());
    }
    let mut fail: Vec<bool> = outcomes.iter().map(|s| !*s).chain(std::iter::repeat(true).take(64)).collect();
    let slow_commit: Vec<(usize, u64)> = slow.iter().map(|(c, virt_s)| (*c, (virt_s / k * 1000.0) as u64)).collect();
    let mut script = Script { running: e2e::running_config(&[("fltr-0".to_string(), "AS65000".to_string())]), faults: vec![], fail_connections: vec![], ephemeral_name: "bgpfu".into(), chunk: 0, slow_commit, faults_only_session: None, late_ms: 0, no_match_is_empty_data: false };
    if opts.leftover_evaluation_on_silent_irr.is_some() {
        // these sessions fail through their second get-config, not by being dropped at the hello
        let nleft = opts.leftover_evaluation_on_silent_irr.map_or(0, |x| x.0);
        for f in fail.iter_mut().take(nleft) {
            *f = false;
        }
        script.faults = vec![("get-config".into(), 0, e2e::FaultKind::HoldOk), ("get-config".into(), 1, e2e::FaultKind::RpcError)];
        script.faults_only_session = Some(nleft);
        script.late_ms = 40;
    } else if let Some(nt) = opts.truncated_reply_then_close {
        for f in fail.iter_mut().take(nt) {
            *f = false;
        }
        script.faults = vec![("get-config".into(), 0, e2e::FaultKind::Truncated)];
        script.faults_only_session = Some(nt);
        script.running = e2e::running_config(&[]);
    } else if opts.irr_refuses_connections {
        for f in fail.iter_mut() {
            *f = false;
        }
    } else {
        script.running = e2e::running_config(&[]);
    }
    script.fail_connections = fail;
    let refusing = if opts.irr_refuses_connections { Some(refusing_port()?) } else { None };
    let irr_real_port = refusing.map_or(irr.port(), |r| r.1);
    let silent_release = opts.leftover_evaluation_on_silent_irr;
    let res = rt.block_on(async {
        let j = FakeJunos::start(script, Config::default()).await.map_err(|e| format!("junos: {e}"))?;
        // the IRRd the agent talks to: the fake IRRd itself, or a front that keeps the first
        // connection silent until the release time and passes all later ones through
        let t_front = Instant::now();
        let mut irr_port = irr_real_port;
        let silent_conns = std::sync::Arc::new(std::sync::atomic::AtomicUsize::new(0));
        if let Some((nsilent, release)) = silent_release {
            let lst = tokio::net::TcpListener::bind(("127.0.0.1", 0)).await.map_err(|e| format!("irr front: {e}"))?;
            irr_port = lst.local_addr().map_err(|e| format!("{e}"))?.port();
            let sc = silent_conns.clone();
            let jt0 = j.t0;
            let shared = j.shared.clone();
            tokio::spawn(async move {
                let mut n = 0usize;
                loop {
                    let Ok((mut c, _)) = lst.accept().await else { return };
                    n += 1;
                    if n <= nsilent {
                        sc.fetch_add(1, std::sync::atomic::Ordering::SeqCst);
                        let shared = shared.clone();
                        tokio::spawn(async move {
                            use tokio::io::{AsyncReadExt, AsyncWriteExt};
                            // silent until the release time: what the client sends is kept, and
                            // answered by the real fake IRRd afterwards (an IRRd that was slow, not dead)
                            let mut kept: Vec<u8> = Vec::new();
                            let mut buf = [0u8; 4096];
                            loop {
                                // virtual time counts from the daemon's first NETCONF connection
                                let start_ms = shared.lock().unwrap().sessions.first().map(|s| s.0 as f64);
                                let now_ms = jt0.elapsed().as_secs_f64() * 1000.0;
                                if let Some(st) = start_ms {
                                    if (now_ms - st) / 1000.0 * k >= release {
                                        break;
                                    }
                                }
                                match tokio::time::timeout(Duration::from_millis(2), c.read(&mut buf)).await {
                                    Ok(Ok(0)) | Ok(Err(_)) => return,
                                    Ok(Ok(n)) => kept.extend_from_slice(&buf[..n]),
                                    Err(_) => {}
                                }
                            }
                            if let Ok(mut up) = tokio::net::TcpStream::connect(("127.0.0.1", irr_real_port)).await {
                                let _ = up.write_all(&kept).await;
                                let _ = tokio::io::copy_bidirectional(&mut c, &mut up).await;
                            }
                        });
                    } else {
                        tokio::spawn(async move {
                            if let Ok(mut up) = tokio::net::TcpStream::connect(("127.0.0.1", irr_real_port)).await {
                                let _ = tokio::io::copy_bidirectional(&mut c, &mut up).await;
                            }
                        });
                    }
                }
            });
        }
        let _ = t_front;
        let mut cmd = tokio::process::Command::new(e2e::agent_bin());
        cmd.args(["-f", &period.to_string(), "--irrd-host", "127.0.0.1", "--irrd-port", &irr_port.to_string(), "-v"]);
        if let Some(w) = opts.workers {
            cmd.env("TOKIO_WORKER_THREADS", w.to_string());
        }
        cmd.args(["remote", "--netconf-host", "127.0.0.1", "--netconf-port", &j.port.to_string(), "--ca-cert-path", &e2e::pki("ca.crt"), "--client-cert-path", &e2e::pki("client.crt"), "--client-key-path", &e2e::pki("client.key")]);
        cmd.env_remove("RUST_LOG").env("LD_PRELOAD", &shim).env("VH_DILATE", format!("{k}"));
        cmd.stdin(std::process::Stdio::null()).stdout(std::process::Stdio::null()).stderr(std::process::Stdio::piped()).kill_on_drop(true);
        let t0 = Instant::now();
        let mut child = cmd.spawn().map_err(|e| format!("spawn: {e}"))?;
        let pid = child.id().unwrap_or(0) as i32;
        let mut stderr = child.stderr.take().unwrap();
        let err_task = tokio::spawn(async move {
            use tokio::io::AsyncReadExt;
            let mut v = Vec::new();
            let _ = stderr.read_to_end(&mut v).await;
            v
        });
        // the first connection marks virtual time zero (process start-up is not part of the loop)
        let mut sent: Vec<(String, f64)> = Vec::new();
        let mut pending: Vec<(f64, i32)> = signals.to_vec();
        pending.sort_by(|a, b| a.0.partial_cmp(&b.0).unwrap());
        let mut exit: Option<i32> = None;
        let mut exit_at = None;
        let mut overshoot: f64 = 0.0;
        let start_ms = loop {
            if let Some(s) = j.shared.lock().unwrap().sessions.first() {
                break s.0 as f64;
            }
            if t0.elapsed() > Duration::from_secs(10) {
                let _ = child.kill().await;
                return Err("the daemon never connected".into());
            }
            tokio::time::sleep(Duration::from_millis(1)).await;
        };
        let virt = |real_ms: f64| (real_ms - start_ms) / 1000.0 * k;
        loop {
            let now_ms = j.t0.elapsed().as_secs_f64() * 1000.0;
            let v = virt(now_ms);
            if let Some((at, sig)) = pending.first().copied() {
                if v >= at {
                    unsafe {
                        libc::kill(pid, sig);
                    }
                    sent.push((format!("{sig}"), v));
                    pending.remove(0);
                }
            }
            if let Ok(Some(st)) = child.try_wait() {
                exit = st.code();
                exit_at = Some(v);
                break;
            }
            if v >= end_at {
                let _ = child.kill().await;
                break;
            }
            let before = Instant::now();
            tokio::time::sleep(Duration::from_millis(1)).await;
            overshoot = overshoot.max(before.elapsed().as_secs_f64() * 1000.0 - 1.0);
        }
        let err = tokio::time::timeout(Duration::from_secs(2), err_task).await.ok().and_then(Result::ok).unwrap_or_default();
        let stderr = String::from_utf8_lossy(&err).into_owned();
        let accepts: Vec<f64> = j.shared.lock().unwrap().sessions.iter().map(|s| virt(s.0 as f64)).collect();
        let closes: Vec<Option<f64>> = j.shared.lock().unwrap().sessions.iter().map(|s| s.1.map(|c| virt(c as f64))).collect();
        j.stop();
        let logged: Vec<u64> = stderr.lines().filter_map(|l| l.split("trying in ").nth(1)).filter_map(|r| r.split(' ').next()).filter_map(|n| n.parse().ok()).collect();
        let silent = silent_conns.load(std::sync::atomic::Ordering::SeqCst);
        Ok(DaemonObs { accepts, closes, logged_delays: logged, exit, exit_at, signals: sent, stderr, overshoot_ms: overshoot, silent_irr_connections: silent })
    });
    irr.stop();
    if let Some((fd, _)) = refusing {
        unsafe {
            libc::close(fd);
        }
    }
    res
}

pub fn run_c19(cfg: &Cfg) -> i32 {
    let mut rep = Report::new(
        "C19",
        cfg,
        "one evaluation = one run of the real agent binary in daemon mode under the clock-dilation shim against a fake Junos whose connections fail or succeed by script, with signals sent at scripted virtual times; the virtual timestamps of the connections, the logged back-off values and the exit are checked; \
         distinct = distinct (period, outcome sequence, signal schedule); non-trivial = all",
    );
    rep.assumptions.push("virtual time = real monotonic time x K (LD_PRELOAD shim on clock_gettime/epoll_wait); tolerance max(5 virtual s, 5 %); runs whose harness timer overshoot exceeds max(20 ms, 2000/K ms) are repeated at a lower K (30, then 10) as long as the scenario then takes at most ten real minutes, and are inconclusive otherwise".into());
    if !std::path::Path::new(&e2e::agent_bin()).exists() {
        eprintln!("agent binary not built");
        return 2;
    }
    // scenarios: (period, outcomes, signals(virtual s, signal), end)
    struct Sc {
        period: u64,
        outcomes: Vec<bool>,
        signals: Vec<(f64, i32)>,
        end: f64,
        name: &'static str,
        slow: Vec<(usize, f64)>,
        opts: DaemonOpts,
    }
    let mut scs: Vec<Sc> = vec![
        // enough consecutive failures for the doubling to reach (and have to respect) the cap
        Sc { period: 300, outcomes: vec![false, false, false, false, false, true, false], signals: vec![], end: 60.0 + 120.0 + 240.0 + 300.0 + 300.0 + 300.0 + 60.0 + 30.0, name: "p300:FFFFFSF", slow: vec![], opts: DaemonOpts::default() },
        Sc { period: 90, outcomes: vec![false, false, false, true, false], signals: vec![], end: 60.0 + 90.0 + 90.0 + 90.0 + 60.0 + 30.0, name: "p90:FFFSF", slow: vec![], opts: DaemonOpts::default() },
        // a successful run that lasts longer than the period: the period must be measured from its end
        Sc { period: 60, outcomes: vec![true, true, true, true], signals: vec![], end: 150.0 + 60.0 * 3.0 + 40.0, name: "p60:S(slow,150s)SSS", slow: vec![(0, 150.0)], opts: DaemonOpts::default() },
        Sc { period: 300, outcomes: vec![true, true], signals: vec![(100.0, libc::SIGHUP), (250.0, libc::SIGTERM)], end: 400.0, name: "p300:S+SIGHUP@100+SIGTERM@250", slow: vec![], opts: DaemonOpts::default() },
        Sc { period: 0, outcomes: vec![true], signals: vec![], end: 200.0, name: "p0:one-shot", slow: vec![], opts: DaemonOpts::default() },
        // signals that arrive while the daemon is waiting out a back-off (not the normal period)
        Sc { period: 300, outcomes: vec![false, false], signals: vec![(30.0, libc::SIGHUP), (100.0, libc::SIGINT)], end: 300.0, name: "p300:F+SIGHUP@30(in backoff)+SIGINT@100(in backoff)", slow: vec![], opts: DaemonOpts::default() },
        Sc { period: 300, outcomes: vec![false], signals: vec![(10.0, libc::SIGTERM)], end: 200.0, name: "p300:F+SIGTERM@10(in backoff)", slow: vec![], opts: DaemonOpts::default() },
        // a single worker thread, and a run that fails while its evaluation task is still going to
        // talk to an IRRd that does not answer: the waiting daemon must stay responsive
        Sc { period: 300, outcomes: vec![false, true], signals: vec![(20.0, libc::SIGHUP), (100.0, libc::SIGTERM)], end: 220.0,
            name: "p300:one-worker-thread:F(evaluation left behind on a silent IRRd until 40s)+SIGHUP@20+S+SIGTERM@100", slow: vec![],
            opts: DaemonOpts { workers: Some(1), leftover_evaluation_on_silent_irr: Some((1, 40.0)), ..DaemonOpts::default() } },
        // runs that fail in the middle of a reply (half a message, then an orderly TLS close)
        Sc { period: 300, outcomes: vec![false, false, true], signals: vec![(60.0 + 30.0, libc::SIGHUP)], end: 60.0 + 30.0 + 120.0 + 80.0,
            name: "p300:FF(half a reply, then close_notify)+SIGHUP@90(in backoff)S", slow: vec![],
            opts: DaemonOpts { truncated_reply_then_close: Some(2), ..DaemonOpts::default() } },
        // several failed runs in a row, each leaving its evaluation blocked on the unresponsive
        // IRRd: the retries must go on (blocked helpers must not exhaust anything the next run needs)
        Sc { period: 300, outcomes: vec![false, false, false, false, false, false, true], signals: vec![], end: 60.0 + 120.0 + 240.0 + 300.0 + 300.0 + 300.0 + 120.0,
            name: "p300:FFFFFF(each leaving its evaluation behind on a silent IRRd until 1250s)S", slow: vec![],
            opts: DaemonOpts { workers: None, leftover_evaluation_on_silent_irr: Some((6, 1250.0)), ..DaemonOpts::default() } },
        // the router is fine, the IRRd refuses connections: that is a failed run like any other
        Sc { period: 300, outcomes: vec![false, false, false], signals: vec![], end: 60.0 + 120.0 + 40.0, name: "p300:FFF(router fine, the IRRd refuses connections)", slow: vec![],
            opts: DaemonOpts { irr_refuses_connections: true, ..DaemonOpts::default() } },
        Sc { period: 600, outcomes: vec![false, false, true], signals: vec![(60.0 + 50.0, libc::SIGHUP), (60.0 + 50.0 + 200.0, libc::SIGTERM)], end: 600.0, name: "p600:FF+SIGHUP@110(in 2nd backoff)S+SIGTERM@310(in period)", slow: vec![], opts: DaemonOpts::default() },
    ];
    if cfg.thorough() {
        for (period, name) in [(30u64, "p30:FFFSF"), (60, "p60:FFFSF"), (100, "p100:FFFFSF"), (150, "p150:FFFFF"), (1000, "p1000:FFFFFFF"), (3600, "p3600:FFFFFFFFF")] {
            let outcomes = match period {
                3600 => vec![false; 9],
                1000 => vec![false; 7],
                150 => vec![false; 5],
                100 => vec![false, false, false, false, true, false],
                _ => vec![false, false, false, true, false],
            };
            let mut end = 0.0;
            let mut b = 60.0f64;
            for o in &outcomes {
                end += if *o { period as f64 } else { b };
                b = if *o { 60.0 } else { (b * 2.0).min(period as f64) };
            }
            scs.push(Sc { period, outcomes, signals: vec![], end: end + 30.0, name, slow: vec![], opts: DaemonOpts::default() });
        }
        scs.push(Sc { period: 120, outcomes: vec![true, false, true], signals: vec![(50.0, libc::SIGHUP), (60.0, libc::SIGHUP)], end: 400.0, name: "p120:S+2xSIGHUP", slow: vec![], opts: DaemonOpts::default() });
        scs.push(Sc { period: 100, outcomes: vec![true, false, true, true], signals: vec![], end: 260.0 + 60.0 + 100.0 + 100.0 + 40.0, name: "p100:S(slow,260s)FSS", slow: vec![(0, 260.0)], opts: DaemonOpts::default() });
    }
    let scs: Vec<Sc> = scs.into_iter().enumerate().filter(|(i, _)| (*i as u64) % cfg.shards == cfg.shard).map(|(_, s)| s).collect();
    // run the scenarios 4 at a time (each has its own runtime, fake Junos, fake IRRd and daemon)
    let mut observed: Vec<(usize, f64, Result<DaemonObs, String>, u64)> = Vec::new();
    for chunk in (0..scs.len()).collect::<Vec<_>>().chunks(4) {
        let handles: Vec<_> = chunk
            .iter()
            .map(|&i| {
                let (period, outcomes, signals, end, slow, opts) = (scs[i].period, scs[i].outcomes.clone(), scs[i].signals.clone(), scs[i].end, scs[i].slow.clone(), scs[i].opts.clone());
                std::thread::spawn(move || {
                    let mut k = 120.0;
                    let mut reruns = 0u64;
                    loop {
                        match run_daemon(k, period, &outcomes, &signals, end, &slow, &opts) {
                            // repeat at a lower K - unless the scenario would then take more than
                            // ten real minutes (long periods): that one stays inconclusive
                            Ok(o) if o.overshoot_ms > (2000.0 / k).max(20.0) && k > 10.0 && end / (if k > 30.0 { 30.0 } else { 10.0 }) <= 600.0 => {
                                reruns += 1;
                                k = if k > 30.0 { 30.0 } else { 10.0 };
                            }
                            other => return (i, k, other, reruns),
                        }
                    }
                })
            })
            .collect();
        for h in handles {
            if let Ok(r) = h.join() {
                observed.push(r);
            }
        }
    }
    for (i, k, res, reruns) in observed {
        let sc = &scs[i];
        rep.count_n("reruns_because_of_timer_jitter", reruns);
        if reruns > 0 {
            rep.count_n(&format!("reruns_because_of_timer_jitter:{}", sc.name), reruns);
        }
        let obs = match res {
            Ok(o) => Some(o),
            Err(e) => {
                rep.inconclusive(sc.name, &e);
                None
            }
        };
        let Some(o) = obs else { continue };
        rep.case(Some(sc.name.as_bytes()));
        rep.count_n("connections_observed", o.accepts.len() as u64);
        rep.count_n("logged_backoff_values", o.logged_delays.len() as u64);
        // a hiccup of the harness' own timers is tolerable as long as it stays well inside the
        // tolerance of 5 virtual seconds (= 5000/K real ms)
        if o.overshoot_ms > (2000.0 / k).max(20.0) {
            rep.inconclusive(sc.name, &format!("harness timer overshoot {:.1} ms at K={k} (no lower K within the time allowed)", o.overshoot_ms));
            continue;
        }
        if sc.opts.leftover_evaluation_on_silent_irr.is_some() {
            if o.silent_irr_connections < sc.opts.leftover_evaluation_on_silent_irr.map_or(0, |x| x.0).min(o.accepts.len()) {
                rep.inconclusive(sc.name, "not exercised: no evaluation task was left behind (nothing connected to the silent IRRd)");
                continue;
            }
            rep.count_n("evaluation_tasks_left_behind_on_a_silent_irrd", o.silent_irr_connections as u64);
        }
        let tol = |x: f64| (x * 0.05).max(5.0);
        let wit = |extra: Value| json!({"scenario": sc.name, "period": sc.period, "K": k, "accepts_virtual_s": o.accepts.iter().map(|a| (a * 10.0).round() / 10.0).collect::<Vec<_>>(), "session_ends_virtual_s": o.closes.iter().map(|c| c.map(|a| (a * 10.0).round() / 10.0)).collect::<Vec<_>>(), "logged_delays": o.logged_delays,
            "signals_sent": o.signals, "exit": o.exit, "exit_at_virtual_s": o.exit_at, "stderr_tail": clip(&o.stderr.lines().rev().take(8).collect::<Vec<_>>().join(" | "), 900), "observed": extra});
        let mut problems: Vec<(String, String)> = Vec::new();
        if sc.period == 0 {
            if o.accepts.len() != 1 {
                problems.push(("one-shot:not-exactly-one-run".into(), format!("{} connections", o.accepts.len())));
            }
            if o.exit != Some(0) {
                problems.push(("one-shot:exit".into(), format!("{:?}", o.exit)));
            }
        } else {
            // expected gaps from the outcome sequence, signals aside
            let cap = (sc.period as f64).max(60.0);
            let floor = (sc.period as f64).min(60.0);
            let mut backoff = 60.0f64;
            let mut consecutive_failures = 0;
            let sig_times: Vec<f64> = o.signals.iter().map(|s| s.1).collect();
            for w in 0..o.accepts.len().saturating_sub(1) {
                // delays are measured from the END of run w (its session closing) to the start of run w+1
                let gap = o.accepts[w + 1] - o.closes.get(w).copied().flatten().unwrap_or(o.accepts[w]);
                let succeeded = sc.outcomes.get(w).copied().unwrap_or(false);
                let sig_between = sig_times.iter().any(|t| *t >= o.accepts[w] - 1.0 && *t <= o.accepts[w + 1] + 1.0);
                let expected = if succeeded { sc.period as f64 } else { backoff };
                if !succeeded {
                    consecutive_failures += 1;
                } else {
                    consecutive_failures = 0;
                }
                if !sig_between {
                    if gap > cap + tol(cap) {
                        problems.push(("delay-exceeds-bound".into(), format!("gap {gap:.1}s after run {w} exceeds max(60, period) = {cap}")));
                    }
                    if gap < floor - tol(floor) {
                        problems.push(("runs-without-delay".into(), format!("gap {gap:.1}s after run {w} is below min(60, period) = {floor}")));
                    }
                    if !succeeded && consecutive_failures == 1 && (gap - 60.0).abs() > tol(60.0) {
                        problems.push(("first-backoff-not-one-minute".into(), format!("gap {gap:.1}s after the first failure")));
                    }
                    if succeeded && (gap - sc.period as f64).abs() > tol(sc.period as f64) {
                        problems.push(("period-not-restored-after-success".into(), format!("gap {gap:.1}s after a successful run, period {}", sc.period)));
                    }
                    if sc.period >= 120 && !succeeded && (gap - expected).abs() > tol(expected) {
                        problems.push(("backoff-does-not-grow-as-specified".into(), format!("gap {gap:.1}s after {consecutive_failures} consecutive failure(s), expected about {expected}")));
                    }
                } else {
                    rep.count("gaps_shortened_by_signal");
                }
                backoff = if succeeded { 60.0 } else { (backoff * 2.0).min(sc.period as f64) };
            }
            // logged values: 60, doubling, capped
            let mut b = 60u64;
            let mut oi = 0;
            for (w, succ) in sc.outcomes.iter().enumerate() {
                if w >= o.accepts.len() {
                    break;
                }
                if *succ {
                    b = 60;
                } else {
                    if let Some(l) = o.logged_delays.get(oi) {
                        if *l != b {
                            problems.push(("logged-backoff-value".into(), format!("failure #{oi} logged {l}s, expected {b}s")));
                        }
                    }
                    oi += 1;
                    b = (b * 2).min(sc.period);
                }
            }
            // signals
            for (name, at) in &o.signals {
                let sig: i32 = name.parse().unwrap_or(0);
                if sig == libc::SIGHUP {
                    let next = o.accepts.iter().find(|a| **a >= *at - 0.5);
                    match next {
                        Some(a) if a - at <= tol(10.0) + 2.0 => rep.count("sighup_triggered_run"),
                        other => problems.push(("sighup-did-not-trigger-an-immediate-run".into(), format!("SIGHUP at {at:.1}s, next connection at {other:?}"))),
                    }
                } else if sig == libc::SIGTERM || sig == libc::SIGINT {
                    match (o.exit, o.exit_at) {
                        (Some(0), Some(t)) if t - at <= tol(10.0) + 2.0 => rep.count("termination_signal_clean_exit"),
                        other => problems.push(("termination-signal-not-handled".into(), format!("signal {sig} at {at:.1}s, exit {other:?}"))),
                    }
                    if o.accepts.iter().any(|a| *a > *at + 2.0) {
                        problems.push(("connection-after-termination-signal".into(), format!("{:?}", o.accepts)));
                    }
                }
            }
            if sc.signals.is_empty() && o.accepts.len() < sc.outcomes.len() {
                problems.push(("too-few-runs".into(), format!("{} connections for {} scripted outcomes within {}s", o.accepts.len(), sc.outcomes.len(), sc.end)));
            }
        }
        for (sig, detail) in problems {
            rep.violation(&format!("daemon:{sig}:period-{}", sc.period), &detail, wit(json!({})));
        }
        rep.sample(json!({"scenario": sc.name, "K": k, "accepts_virtual_s": o.accepts.iter().map(|a| (a * 10.0).round() / 10.0).collect::<Vec<_>>(), "logged_delays": o.logged_delays, "exit": o.exit, "signals": o.signals, "timer_overshoot_ms": o.overshoot_ms}));
    }
    let _ = Prng::new(0);
    rep.finish()
}


// =============================================================================== C01, daemon mode

/// C01 for runs made by the daemon loop, one of which takes longer than the period while the IRR
/// data changes: every run that commits must leave the router with what THAT run evaluated.
/// IRR connection n serves data generation n (two fake IRRds behind a front that routes by
/// connection ordinal); one connection is held silent for 1.5-3.7 periods before it is answered.
pub fn run_c01_daemon(cfg: &Cfg) -> i32 {
    let mut rep = Report::new(
        "C01",
        cfg,
        "one evaluation = one daemon (real agent binary, period 1 s) against the fake router and two fake IRRds with different routes for AS65000 behind a front that routes the n-th connection to one of them and holds one connection silent for 1.5-3.7 s; \
         after every acknowledged commit the committed policy is compared with the data generation that run's IRR connection was served; distinct = distinct (slow connection, hold, generation pattern)",
    );
    if !std::path::Path::new(&e2e::agent_bin()).exists() {
        eprintln!("agent binary not built");
        return 2;
    }
    rep.assumptions.push("runs are matched to IRR connections by ordinal (the k-th NETCONF session uses the k-th IRR connection): each run opens exactly one of each, in that order".into());
    let mk = |routes: &[(u32, u8)]| {
        let mut d = Db::default();
        d.ases.insert(65000, irrfake::db::AsRoutes { v4: routes.to_vec(), v6: vec![] });
        d
    };
    let db_a = mk(&[(0xC000_0200, 24), (0xC633_6400, 24)]);
    let db_b = mk(&[(0xCB00_7100, 24)]);
    let mut cases = Vec::new();
    for slow_conn in [1usize, 2] {
        for hold_ms in [1500u64, 2600, 3700] {
            for pattern in [0u8, 1] {
                cases.push((slow_conn, hold_ms, pattern));
            }
        }
    }
    if !cfg.thorough() {
        let pick = (cfg.seed as usize) % 3;
        cases = cases.into_iter().enumerate().filter(|(i, _)| i % 3 == pick).map(|(_, c)| c).collect();
    }
    let cases: Vec<_> = cases.into_iter().enumerate().filter(|(i, _)| (*i as u64) % cfg.shards == cfg.shard).map(|(_, c)| c).collect();
    let rt = rt();
    for (slow_conn, hold_ms, pattern) in cases {
        // generation of connection n (1-based): pattern 0 = A B B B..., pattern 1 = A B A B...
        let gen_of = move |n: usize| -> u8 { if n == 1 { 0 } else if pattern == 0 { 1 } else { ((n - 1) % 2) as u8 } };
        let (irr_a, irr_b) = match (Server::start(db_a.clone(), Faults::default()), Server::start(db_b.clone(), Faults::default())) {
            (Ok(a), Ok(b)) => (a, b),
            _ => {
                rep.inconclusive("fake irrd", "could not start");
                continue;
            }
        };
        let (pa, pb) = (irr_a.port(), irr_b.port());
        let script = Script { running: e2e::running_config(&[("fltr-0".to_string(), "AS65000".to_string())]), faults: vec![], fail_connections: vec![], ephemeral_name: "bgpfu".into(), chunk: 0, slow_commit: vec![], faults_only_session: None, late_ms: 0, no_match_is_empty_data: false };
        let out = rt.block_on(async {
            let j = FakeJunos::start(script, Config::default()).await.map_err(|e| format!("junos: {e}"))?;
            let lst = tokio::net::TcpListener::bind(("127.0.0.1", 0)).await.map_err(|e| format!("irr front: {e}"))?;
            let irr_port = lst.local_addr().map_err(|e| format!("{e}"))?.port();
            let conns = std::sync::Arc::new(std::sync::atomic::AtomicUsize::new(0));
            let c2 = conns.clone();
            tokio::spawn(async move {
                loop {
                    let Ok((mut c, _)) = lst.accept().await else { return };
                    let n = c2.fetch_add(1, std::sync::atomic::Ordering::SeqCst) + 1;
                    let up_port = if gen_of(n) == 0 { pa } else { pb };
                    tokio::spawn(async move {
                        use tokio::io::{AsyncReadExt, AsyncWriteExt};
                        let mut kept: Vec<u8> = Vec::new();
                        if n == slow_conn {
                            let t0 = Instant::now();
                            let mut buf = [0u8; 4096];
                            while t0.elapsed() < Duration::from_millis(hold_ms) {
                                match tokio::time::timeout(Duration::from_millis(5), c.read(&mut buf)).await {
                                    Ok(Ok(0)) | Ok(Err(_)) => return,
                                    Ok(Ok(k)) => kept.extend_from_slice(&buf[..k]),
                                    Err(_) => {}
                                }
                            }
                        }
                        if let Ok(mut up) = tokio::net::TcpStream::connect(("127.0.0.1", up_port)).await {
                            let _ = up.write_all(&kept).await;
                            let _ = tokio::io::copy_bidirectional(&mut c, &mut up).await;
                        }
                    });
                }
            });
            let mut cmd = tokio::process::Command::new(e2e::agent_bin());
            cmd.args(["-f", "1", "--irrd-host", "127.0.0.1", "--irrd-port", &irr_port.to_string(), "-v"]);
            cmd.args(["remote", "--netconf-host", "127.0.0.1", "--netconf-port", &j.port.to_string(), "--ca-cert-path", &e2e::pki("ca.crt"), "--client-cert-path", &e2e::pki("client.crt"), "--client-key-path", &e2e::pki("client.key")]);
            cmd.env_remove("RUST_LOG");
            cmd.stdin(std::process::Stdio::null()).stdout(std::process::Stdio::null()).stderr(std::process::Stdio::piped()).kill_on_drop(true);
            let mut child = cmd.spawn().map_err(|e| format!("spawn: {e}"))?;
            let mut stderr = child.stderr.take().unwrap();
            let err_task = tokio::spawn(async move {
                use tokio::io::AsyncReadExt;
                let mut v = Vec::new();
                let _ = stderr.read_to_end(&mut v).await;
                v
            });
            // until four commits were seen (or 12 s)
            let t0 = Instant::now();
            while t0.elapsed() < Duration::from_secs(12) {
                if j.shared.lock().unwrap().commits.len() >= 4 {
                    break;
                }
                tokio::time::sleep(Duration::from_millis(20)).await;
            }
            unsafe {
                libc::kill(child.id().unwrap_or(0) as i32, libc::SIGTERM);
            }
            let _ = tokio::time::timeout(Duration::from_secs(5), child.wait()).await;
            let _ = child.kill().await;
            let err = tokio::time::timeout(Duration::from_secs(2), err_task).await.ok().and_then(Result::ok).unwrap_or_default();
            let sh = j.shared.clone();
            j.stop();
            Ok::<_, String>((sh, String::from_utf8_lossy(&err).into_owned(), conns.load(std::sync::atomic::Ordering::SeqCst)))
        });
        irr_a.stop();
        irr_b.stop();
        let key = format!("c01-daemon|{slow_conn}|{hold_ms}|{pattern}");
        rep.case(Some(key.as_bytes()));
        let (sh, stderr, irr_conns) = match out {
            Ok(o) => o,
            Err(e) => {
                rep.inconclusive(&key, &e);
                continue;
            }
        };
        let g = sh.lock().unwrap();
        let sessions_overlap = g.sessions.windows(2).any(|w| w[0].1.map_or(true, |end| w[1].0 < end));
        if sessions_overlap {
            rep.count("daemon_cases_with_overlapping_sessions");
        }
        rep.count_n("daemon_commits_judged", g.commits.len() as u64);
        if g.commits.len() < 2 {
            rep.inconclusive(&key, &format!("only {} commits within the time allowed", g.commits.len()));
            continue;
        }
        let wit = |extra: Value| json!({"slow_irr_connection": slow_conn, "held_ms": hold_ms, "generation_pattern": pattern, "irr_connections": irr_conns,
            "sessions_ms": g.sessions.iter().map(|s| json!([s.0, s.1])).collect::<Vec<_>>(), "commits_by_session": g.commits.iter().map(|c| c.0).collect::<Vec<_>>(),
            "stderr_tail": clip(&stderr.lines().rev().take(8).collect::<Vec<_>>().join(" | "), 1200), "seed": cfg.seed, "observed": extra});
        let mut bad = false;
        for (session, state) in &g.commits {
            // session indices count from 0; the k-th session uses the k-th IRR connection
            let db = if gen_of(session + 1) == 0 { &db_a } else { &db_b };
            let verdict = match state.policies.get("fltr-0") {
                None => Err("policy fltr-0 absent from the committed state".to_string()),
                Some(p) => compare_installed(p, &Expr::AsNum(65000), db, 1).map(|_| ()),
            };
            if let Err(e) = verdict {
                bad = true;
                rep.violation(
                    if sessions_overlap { "daemon:commit-does-not-match-what-the-run-evaluated:runs-overlapped" } else { "daemon:commit-does-not-match-what-the-run-evaluated" },
                    &format!("session {session} committed, but the committed policy is not what its IRR connection (generation {}) was served: {e}", gen_of(session + 1)),
                    wit(json!({"committed": format!("{:?}", state.policies.get("fltr-0").map(|p| p.terms.iter().map(|t| t.filters.clone()).collect::<Vec<_>>()))})),
                );
                break;
            }
        }
        if !bad {
            rep.count("daemon_cases_in_which_every_commit_matched_its_run");
        }
    }
    rep.finish()
}
