//! `vh` — runtime-monitoring harness for bgpfu-rs. One sub-command per property (see DESIGN.md).
#![allow(clippy::all)]

mod memwire;
mod sched;
mod util;
mod xmlstrict;

mod sess;

mod c05;
mod c07mem;
#[cfg(feature = "full")]
mod c18rt;
mod c08;
mod c09;
mod c10;
mod c12;
mod bases;
mod dom;
mod parse;
#[cfg(feature = "full")]
mod agentl1;
#[cfg(feature = "full")]
mod c04;
#[cfg(feature = "full")]
mod c11;
#[cfg(feature = "full")]
mod e2e;
#[cfg(feature = "full")]
mod e2e2;
#[cfg(feature = "full")]
mod junos;
#[cfg(feature = "full")]
mod peers;
#[cfg(feature = "full")]
mod realwire;
#[cfg(feature = "full")]
mod realwire2;
#[cfg(feature = "full")]
mod secrets;
#[cfg(feature = "full")]
mod trace;

use util::Cfg;

fn main() {
    let args: Vec<String> = std::env::args().collect();
    let cmd = args.get(1).cloned().unwrap_or_default();
    let cfg = Cfg::from_args(&args[2.min(args.len())..]);
    let code = match cmd.as_str() {
        "noop" => 0,
        // deliberately wrong code, to show that the sanitizer builds and the report collection of
        // ./check see what they are there to see (never part of a registered check)
        "san-selftest" => san_selftest(args.get(2).map_or("", String::as_str)),
        "c05" => c05::run(&cfg, false),
        "c18" => c05::run(&cfg, true),
        "c07-mem" => c07mem::run(&cfg),
        #[cfg(feature = "full")]
        "c05-rt" => c18rt::run(&cfg, false),
        #[cfg(feature = "full")]
        "c18-rt" => c18rt::run(&cfg, true),
        "c08" => c08::run(&cfg),
        "c09" => c09::run(&cfg),
        "c10" => c10::run(&cfg),
        "c12" => c12::run(&cfg),
        #[cfg(feature = "full")]
        "c01-l1" => agentl1::run_histories(&cfg, agentl1::Prop::C01),
        #[cfg(feature = "full")]
        "c02-l1" => agentl1::run_histories(&cfg, agentl1::Prop::C02),
        #[cfg(feature = "full")]
        "c03-l1" => agentl1::run_histories(&cfg, agentl1::Prop::C03),
        #[cfg(feature = "full")]
        "c04" => c04::run(&cfg),
        "c08-agent" => c04::run_for_c08(&cfg),
        #[cfg(feature = "full")]
        "c07-agent" => c04::run_c07_agent(&cfg),
        #[cfg(feature = "full")]
        "c15" => e2e2::run_c15(&cfg),
        #[cfg(feature = "full")]
        "c19" => e2e2::run_c19(&cfg),
        #[cfg(feature = "full")]
        "c20-agent" => e2e2::run_c20_agent(&cfg),
        #[cfg(feature = "full")]
        "c01-l2" => e2e2::run_l2(&cfg, e2e2::L2::C01),
        "c01-daemon" => e2e2::run_c01_daemon(&cfg),
        #[cfg(feature = "full")]
        "c02-l2" => e2e2::run_l2(&cfg, e2e2::L2::C02),
        #[cfg(feature = "full")]
        "c03-l2" => e2e2::run_l2(&cfg, e2e2::L2::C03),
        #[cfg(feature = "full")]
        "c11-l2" => e2e2::run_l2(&cfg, e2e2::L2::C11),
        #[cfg(feature = "full")]
        "c11" => c11::run_c11(&cfg),
        #[cfg(feature = "full")]
        "c17" => c11::run_c17(&cfg),
        #[cfg(feature = "full")]
        "c16" => agentl1::run_c16(&cfg),
        "c16-agent" => agentl1::run_c16_agent(&cfg),
        #[cfg(feature = "full")]
        "worker" => realwire::worker_main(&args[2..]),
        #[cfg(feature = "full")]
        "fake-cli" => peers::fake_cli_main(&args[2..]),
        #[cfg(feature = "full")]
        "c06" => realwire::run_c06(&cfg),
        #[cfg(feature = "full")]
        "c05-real" => realwire::run_c05_real(&cfg),
        #[cfg(feature = "full")]
        "c10-real" => realwire::run_c10_real(&cfg),
        #[cfg(feature = "full")]
        "c07" => realwire::run_c07(&cfg),
        #[cfg(feature = "full")]
        "c12b" => realwire::run_c12b(&cfg),
        #[cfg(feature = "full")]
        "c18b" => realwire::run_c18b(&cfg),
        "c14-real" => realwire::run_c14_real(&cfg),
        #[cfg(feature = "full")]
        "c20-lib" => realwire::run_c20_lib(&cfg),
        "c13" => parse::run_c13(&cfg),
        "c14" => parse::run_c14(&cfg),
        _ => {
            eprintln!("usage: vh <c01..c20|worker|fake-cli> [--tier quick|thorough] [--seed N] [--out FILE]");
            2
        }
    };
    std::process::exit(code);
}


#[allow(static_mut_refs)]
fn san_selftest(which: &str) -> i32 {
    match which {
        "race" => {
            static mut COUNTER: u64 = 0;
            let hs: Vec<_> = (0..2)
                .map(|_| {
                    std::thread::spawn(|| {
                        for _ in 0..100_000 {
                            unsafe {
                                let p = std::ptr::addr_of_mut!(COUNTER);
                                p.write_volatile(p.read_volatile() + 1);
                            }
                        }
                    })
                })
                .collect();
            for h in hs {
                let _ = h.join();
            }
            println!("counter = {}", unsafe { std::ptr::addr_of!(COUNTER).read_volatile() });
            0
        }
        "uaf" => {
            let b = Box::new([7u8; 64]);
            let p = Box::into_raw(b);
            let v = unsafe {
                drop(Box::from_raw(p));
                std::ptr::read_volatile(p.cast::<u8>().add(3))
            };
            println!("read {v}");
            0
        }
        _ => {
            eprintln!("san-selftest race|uaf");
            2
        }
    }
}
