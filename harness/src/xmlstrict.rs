//! A small strict XML 1.0 well-formedness parser written for this harness (deliberately not
//! quick-xml, which is what the code under test writes with).  Not namespace-validating.
//!
//! Accepts: optional XML declaration, comments, PIs, one root element, attributes with ' or "
//! quoting, the five predefined entities and numeric character references, CDATA sections.
//! Rejects everything else (unescaped `<`/`&` in text or attribute values, duplicate attributes,
//! mismatched tags, `]]>` in text, illegal characters, junk after the root, DOCTYPE).

#[derive(Clone, Debug, PartialEq)]
pub enum Node {
    Elem(Elem),
    Text(String),
    Comment(String),
    Pi(String),
}

#[derive(Clone, Debug, PartialEq)]
pub struct Elem {
    pub name: String,
    pub attrs: Vec<(String, String)>,
    pub children: Vec<Node>,
    /// byte span of the raw content between start and end tag (empty for `<x/>`)
    pub content: (usize, usize),
    /// true if written as `<x/>`
    pub self_closing: bool,
}

impl Elem {
    pub fn attr(&self, name: &str) -> Option<&str> {
        self.attrs.iter().find(|(k, _)| k == name).map(|(_, v)| v.as_str())
    }
    pub fn local(&self) -> &str {
        self.name.rsplit(':').next().unwrap_or(&self.name)
    }
    pub fn elems(&self) -> impl Iterator<Item = &Elem> {
        self.children.iter().filter_map(|n| match n {
            Node::Elem(e) => Some(e),
            _ => None,
        })
    }
    pub fn child(&self, local: &str) -> Option<&Elem> {
        self.elems().find(|e| e.local() == local)
    }
    pub fn children_named<'a>(&'a self, local: &'a str) -> impl Iterator<Item = &'a Elem> + 'a {
        self.elems().filter(move |e| e.local() == local)
    }
    /// concatenated character data directly inside this element
    pub fn text(&self) -> String {
        let mut s = String::new();
        for n in &self.children {
            if let Node::Text(t) = n {
                s.push_str(t);
            }
        }
        s
    }
    pub fn path<'a>(&'a self, path: &[&str]) -> Option<&'a Elem> {
        let mut cur = self;
        for p in path {
            cur = cur.child(p)?;
        }
        Some(cur)
    }
    /// all element paths (local names joined by '/') below and including this element
    pub fn all_paths(&self, prefix: &str, out: &mut Vec<String>) {
        let me = if prefix.is_empty() {
            self.local().to_string()
        } else {
            format!("{prefix}/{}", self.local())
        };
        out.push(me.clone());
        for e in self.elems() {
            e.all_paths(&me, out);
        }
    }
}

#[derive(Clone, Debug, PartialEq)]
pub struct Doc {
    pub decl: bool,
    pub root: Elem,
}

#[derive(Clone, Debug, PartialEq)]
pub struct XmlError {
    pub pos: usize,
    pub msg: String,
}

struct P<'a> {
    s: &'a [u8],
    i: usize,
}

type R<T> = Result<T, XmlError>;

fn is_name_start(c: char) -> bool {
    c == ':' || c == '_' || c.is_ascii_alphabetic() || (c as u32) >= 0x80
}
fn is_name_char(c: char) -> bool {
    is_name_start(c) || c == '-' || c == '.' || c.is_ascii_digit()
}
fn is_xml_char(c: char) -> bool {
    matches!(c as u32, 0x9 | 0xA | 0xD | 0x20..=0xD7FF | 0xE000..=0xFFFD | 0x10000..=0x10FFFF)
}

impl<'a> P<'a> {
    fn err<T>(&self, msg: &str) -> R<T> {
        Err(XmlError { pos: self.i, msg: msg.to_string() })
    }
    fn starts(&self, pat: &[u8]) -> bool {
        self.s[self.i..].starts_with(pat)
    }
    fn eof(&self) -> bool {
        self.i >= self.s.len()
    }
    fn peek_char(&self) -> Option<char> {
        let rest = std::str::from_utf8(&self.s[self.i..(self.i + 4).min(self.s.len())])
            .or_else(|e| std::str::from_utf8(&self.s[self.i..self.i + e.valid_up_to()]))
            .ok()?;
        rest.chars().next()
    }
    fn skip_ws(&mut self) -> bool {
        let st = self.i;
        while !self.eof() && matches!(self.s[self.i], b' ' | b'\t' | b'\r' | b'\n') {
            self.i += 1;
        }
        self.i > st
    }
    fn name(&mut self) -> R<String> {
        let st = self.i;
        match self.peek_char() {
            Some(c) if is_name_start(c) => self.i += c.len_utf8(),
            _ => return self.err("expected name"),
        }
        while let Some(c) = self.peek_char() {
            if is_name_char(c) {
                self.i += c.len_utf8();
            } else {
                break;
            }
        }
        Ok(String::from_utf8_lossy(&self.s[st..self.i]).into_owned())
    }
    fn reference(&mut self) -> R<char> {
        // at '&'
        self.i += 1;
        let end = match self.s[self.i..].iter().position(|&b| b == b';') {
            Some(p) if p <= 10 => self.i + p,
            _ => return self.err("unterminated reference"),
        };
        let body = &self.s[self.i..end];
        let c = match body {
            b"lt" => '<',
            b"gt" => '>',
            b"amp" => '&',
            b"apos" => '\'',
            b"quot" => '"',
            _ if body.starts_with(b"#x") => {
                let h = std::str::from_utf8(&body[2..]).ok().and_then(|h| u32::from_str_radix(h, 16).ok());
                match h.and_then(char::from_u32) {
                    Some(c) if is_xml_char(c) => c,
                    _ => return self.err("bad character reference"),
                }
            }
            _ if body.starts_with(b"#") => {
                let d = std::str::from_utf8(&body[1..]).ok().and_then(|d| d.parse::<u32>().ok());
                match d.and_then(char::from_u32) {
                    Some(c) if is_xml_char(c) => c,
                    _ => return self.err("bad character reference"),
                }
            }
            _ => return self.err("unknown entity"),
        };
        self.i = end + 1;
        Ok(c)
    }
    fn attr_value(&mut self) -> R<String> {
        let q = match self.s.get(self.i) {
            Some(&q @ (b'"' | b'\'')) => q,
            _ => return self.err("expected quote"),
        };
        self.i += 1;
        let mut out = String::new();
        loop {
            if self.eof() {
                return self.err("unterminated attribute value");
            }
            let b = self.s[self.i];
            if b == q {
                self.i += 1;
                return Ok(out);
            }
            match b {
                b'<' => return self.err("'<' in attribute value"),
                b'&' => out.push(self.reference()?),
                _ => match self.peek_char() {
                    Some(c) if is_xml_char(c) => {
                        // XML 1.0 2.11 + 3.3.3: literal CRLF/CR -> LF, then literal whitespace -> space
                        if c == '\r' && self.s.get(self.i + 1) == Some(&b'\n') {
                            self.i += 1;
                        }
                        out.push(if matches!(c, '\t' | '\n' | '\r') { ' ' } else { c });
                        self.i += c.len_utf8();
                    }
                    _ => return self.err("illegal character in attribute value"),
                },
            }
        }
    }
    fn comment(&mut self) -> R<String> {
        // at "<!--"
        self.i += 4;
        let st = self.i;
        loop {
            if self.eof() {
                return self.err("unterminated comment");
            }
            if self.starts(b"--") {
                if self.starts(b"-->") {
                    let body = String::from_utf8_lossy(&self.s[st..self.i]).into_owned();
                    self.i += 3;
                    return Ok(body);
                }
                return self.err("'--' inside comment");
            }
            match self.peek_char() {
                Some(c) if is_xml_char(c) => self.i += c.len_utf8(),
                _ => return self.err("illegal character in comment"),
            }
        }
    }
    fn pi(&mut self) -> R<String> {
        // at "<?"
        self.i += 2;
        let st = self.i;
        let target = self.name()?;
        if target.eq_ignore_ascii_case("xml") {
            self.i = st;
            return self.err("misplaced XML declaration");
        }
        loop {
            if self.eof() {
                return self.err("unterminated PI");
            }
            if self.starts(b"?>") {
                let body = String::from_utf8_lossy(&self.s[st..self.i]).into_owned();
                self.i += 2;
                return Ok(body);
            }
            match self.peek_char() {
                Some(c) if is_xml_char(c) => self.i += c.len_utf8(),
                _ => return self.err("illegal character in PI"),
            }
        }
    }
    fn decl(&mut self) -> R<()> {
        // at "<?xml" followed by whitespace
        self.i += 5;
        let mut seen_version = false;
        loop {
            let ws = self.skip_ws();
            if self.starts(b"?>") {
                self.i += 2;
                return if seen_version { Ok(()) } else { self.err("declaration without version") };
            }
            if !ws {
                return self.err("expected whitespace in declaration");
            }
            let n = self.name()?;
            self.skip_ws();
            if self.s.get(self.i) != Some(&b'=') {
                return self.err("expected '=' in declaration");
            }
            self.i += 1;
            self.skip_ws();
            let _ = self.attr_value()?;
            match n.as_str() {
                "version" => seen_version = true,
                "encoding" | "standalone" => {}
                _ => return self.err("unknown pseudo-attribute in declaration"),
            }
        }
    }
    fn element(&mut self, depth: usize) -> R<Elem> {
        if depth > 20_000 {
            return self.err("too deep");
        }
        // at '<'
        self.i += 1;
        let name = self.name()?;
        let mut attrs: Vec<(String, String)> = Vec::new();
        loop {
            let ws = self.skip_ws();
            if self.starts(b"/>") {
                self.i += 2;
                return Ok(Elem { name, attrs, children: vec![], content: (self.i, self.i), self_closing: true });
            }
            if self.starts(b">") {
                self.i += 1;
                break;
            }
            if !ws {
                return self.err("expected whitespace before attribute");
            }
            let an = self.name()?;
            self.skip_ws();
            if self.s.get(self.i) != Some(&b'=') {
                return self.err("expected '='");
            }
            self.i += 1;
            self.skip_ws();
            let av = self.attr_value()?;
            if attrs.iter().any(|(k, _)| *k == an) {
                return self.err("duplicate attribute");
            }
            attrs.push((an, av));
        }
        let content_start = self.i;
        let mut children = Vec::new();
        let mut text = String::new();
        loop {
            if self.eof() {
                return self.err("unterminated element");
            }
            let b = self.s[self.i];
            if b == b'<' {
                if self.starts(b"</") {
                    let content_end = self.i;
                    if !text.is_empty() {
                        children.push(Node::Text(std::mem::take(&mut text)));
                    }
                    self.i += 2;
                    let en = self.name()?;
                    if en != name {
                        return self.err("mismatched end tag");
                    }
                    self.skip_ws();
                    if self.s.get(self.i) != Some(&b'>') {
                        return self.err("expected '>' in end tag");
                    }
                    self.i += 1;
                    return Ok(Elem { name, attrs, children, content: (content_start, content_end), self_closing: false });
                }
                if self.starts(b"<![CDATA[") {
                    self.i += 9;
                    let st = self.i;
                    loop {
                        if self.eof() {
                            return self.err("unterminated CDATA");
                        }
                        if self.starts(b"]]>") {
                            text.push_str(&String::from_utf8_lossy(&self.s[st..self.i]));
                            self.i += 3;
                            break;
                        }
                        match self.peek_char() {
                            Some(c) if is_xml_char(c) => self.i += c.len_utf8(),
                            _ => return self.err("illegal character in CDATA"),
                        }
                    }
                    continue;
                }
                if !text.is_empty() {
                    children.push(Node::Text(std::mem::take(&mut text)));
                }
                if self.starts(b"<!--") {
                    children.push(Node::Comment(self.comment()?));
                } else if self.starts(b"<?") {
                    children.push(Node::Pi(self.pi()?));
                } else if self.starts(b"<!") {
                    return self.err("markup declaration in content");
                } else {
                    children.push(Node::Elem(self.element(depth + 1)?));
                }
            } else if b == b'&' {
                text.push(self.reference()?);
            } else {
                if self.starts(b"]]>") {
                    return self.err("']]>' in character data");
                }
                match self.peek_char() {
                    Some('\r') => {
                        // XML 1.0 2.11 end-of-line handling: CRLF and lone CR become LF
                        text.push('\n');
                        self.i += 1;
                        if self.s.get(self.i) == Some(&b'\n') {
                            self.i += 1;
                        }
                    }
                    Some(c) if is_xml_char(c) => {
                        text.push(c);
                        self.i += c.len_utf8();
                    }
                    _ => return self.err("illegal character in content"),
                }
            }
        }
    }
}

/// Parse a complete document. The whole input must be consumed.
pub fn parse(input: &[u8]) -> R<Doc> {
    if std::str::from_utf8(input).is_err() {
        return Err(XmlError { pos: 0, msg: "not UTF-8".into() });
    }
    let mut p = P { s: input, i: 0 };
    let mut decl = false;
    if p.starts(b"<?xml") && p.s.get(5).map_or(false, |b| b.is_ascii_whitespace()) {
        p.decl()?;
        decl = true;
    }
    let mut root = None;
    loop {
        p.skip_ws();
        if p.eof() {
            break;
        }
        if p.starts(b"<!--") {
            p.comment()?;
        } else if p.starts(b"<?") {
            p.pi()?;
        } else if p.starts(b"<!") {
            return p.err("DOCTYPE not accepted");
        } else if p.starts(b"<") {
            if root.is_some() {
                return p.err("more than one root element");
            }
            root = Some(p.element(0)?);
        } else {
            return p.err("text outside root element");
        }
    }
    match root {
        Some(root) => Ok(Doc { decl, root }),
        None => p.err("no root element"),
    }
}

/// Parse a fragment (zero or more elements/comments/text) by wrapping it in a synthetic root.
pub fn parse_fragment(input: &[u8]) -> R<Elem> {
    let mut buf = Vec::with_capacity(input.len() + 16);
    buf.extend_from_slice(b"<vh-frag>");
    buf.extend_from_slice(input);
    buf.extend_from_slice(b"</vh-frag>");
    parse(&buf).map(|d| d.root)
}

pub fn escape_text(s: &str) -> String {
    let mut o = String::with_capacity(s.len());
    for c in s.chars() {
        match c {
            '<' => o.push_str("&lt;"),
            '>' => o.push_str("&gt;"),
            '&' => o.push_str("&amp;"),
            _ => o.push(c),
        }
    }
    o
}

pub fn escape_attr(s: &str) -> String {
    let mut o = String::with_capacity(s.len());
    for c in s.chars() {
        match c {
            '<' => o.push_str("&lt;"),
            '>' => o.push_str("&gt;"),
            '&' => o.push_str("&amp;"),
            '"' => o.push_str("&quot;"),
            '\'' => o.push_str("&apos;"),
            '\t' => o.push_str("&#9;"),
            '\n' => o.push_str("&#10;"),
            '\r' => o.push_str("&#13;"),
            _ => o.push(c),
        }
    }
    o
}

#[cfg(test)]
mod tests {
    use super::*;
    #[test]
    fn accepts_and_rejects() {
        assert!(parse(b"<a x='1' y=\"2\"><b/>t&amp;<!--c--><![CDATA[<&]]></a>").is_ok());
        assert!(parse(b"<?xml version=\"1.0\"?><a/>").is_ok());
        for bad in [
            &b"<a>"[..], b"<a></b>", b"<a x=1/>", b"<a>&</a>", b"<a><</a>", b"<a x='1' x='2'/>",
            b"<a/><b/>", b"<a>]]></a>", b"<a>\x00</a>", b"x<a/>", b"<a>&foo;</a>", b"<a b='<'/>",
        ] {
            assert!(parse(bad).is_err(), "{:?}", String::from_utf8_lossy(bad));
        }
        let d = parse(b"<a k='&lt;&#65;'>x&gt;y</a>").unwrap();
        assert_eq!(d.root.attr("k"), Some("<A"));
        assert_eq!(d.root.text(), "x>y");
    }
}
