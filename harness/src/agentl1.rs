//! L1 (in-process, plan facade) monitors for C01 (convergence, read-back, idempotence),
//! C02 (no fail-open, per update), C03 (failed/unparseable policies untouched) and C16 (selection
//! of managed statements).  The agent's real readers, `compare` and update writer run on generated
//! histories; the reference Junos model (`junos.rs`) applies what they emit.

use crate::bases::{candidate_policy, config_data};
use crate::dom::{self, Style, N, JCMD, XNM};
use crate::junos::{self, Action, Config, Event, Range};
use crate::util::{clip, Cfg, Prng, Report};
use crate::xmlstrict;
use serde_json::{json, Value};
use std::collections::{BTreeMap, BTreeSet};

type Sets = (BTreeSet<Range>, BTreeSet<Range>);

#[derive(Clone, Debug)]
pub struct Managed {
    pub name: String,
    pub expr: String,
    /// annotation is well-formed
    pub annotation_ok: bool,
    /// evaluation result: None = failed
    pub result: Option<Sets>,
}

const NAMES: &[&str] = &["fltr-a", "fltr-b.1", "p_2", "AS65000-in", "X", "fltr-long-name-with-many-parts-0123456789"];
const ESC_NAMES: &[&str] = &["a&b", "x<y", "q>r", "m&amp;n", "lt-&lt;-peer", "t&#9;s", "it's", "say \"hi\"", " lead", "trail "];
const BAD_ANNOTATIONS: &[&str] = &["error!", "AS-FOO AND", "{ 10.0.0.0/33 }", "", "AS-FOO }", "((AS1)", "{ 10.0.0.0/8 ^+ "];

fn gen_range(r: &mut Prng, fam: u8) -> Range {
    if fam == 4 {
        let len = *r.pick(&[8u8, 16, 19, 22, 24]);
        let base: u32 = *r.pick(&[0x0A00_0000u32, 0xC000_0200, 0xC59D_4000, 0x294E_BC00, 0xAC10_0000]);
        let addr = base & (u32::MAX << (32 - len));
        let lo = r.range(len as usize, 32) as u8;
        let hi = r.range(lo as usize, 32) as u8;
        (4, u128::from(addr), len, lo, hi)
    } else {
        let len = *r.pick(&[29u8, 32, 40, 48]);
        let base: u128 = *r.pick(&[0x2001_0db8_0000_0000_0000_0000_0000_0000u128, 0x2c0f_fa90_0000_0000_0000_0000_0000_0000, 0x2a00_1450_4000_0000_0000_0000_0000_0000]);
        let addr = base & (u128::MAX << (128 - len));
        let lo = r.range(len as usize, 64) as u8;
        let hi = r.range(lo as usize, 128.min(lo as usize + 40)) as u8;
        (6, addr, len, lo, hi)
    }
}

fn gen_set(r: &mut Prng, fam: u8) -> BTreeSet<Range> {
    let n = match r.below(6) {
        0 => 0,
        1 => 1,
        _ => r.range(2, 6),
    };
    (0..n).map(|_| gen_range(r, fam)).collect()
}

fn evolve_set(r: &mut Prng, old: &BTreeSet<Range>, fam: u8) -> (BTreeSet<Range>, &'static str) {
    match r.below(6) {
        0 => (old.clone(), "unchanged"),
        1 => {
            let mut s = old.clone();
            for _ in 0..r.range(1, 3) {
                s.insert(gen_range(r, fam));
            }
            (s, "grown")
        }
        2 => {
            let mut v: Vec<Range> = old.iter().copied().collect();
            r.shuffle(&mut v);
            v.truncate(v.len() / 2);
            (v.into_iter().collect(), "shrunk")
        }
        3 => (gen_set(r, fam), "replaced"),
        4 => (BTreeSet::new(), "emptied"),
        _ => {
            // partial overlap: keep some, add some
            let mut v: Vec<Range> = old.iter().copied().collect();
            r.shuffle(&mut v);
            v.truncate((v.len() + 1) / 2);
            let mut s: BTreeSet<Range> = v.into_iter().collect();
            s.insert(gen_range(r, fam));
            (s, "partial-overlap")
        }
    }
}

/// running configuration with the managed statements (+ some unmanaged noise)
fn render_running(managed: &[Managed], r: &mut Prng) -> String {
    let mut pols: Vec<N> = Vec::new();
    for m in managed {
        let ann = if m.annotation_ok { m.expr.clone() } else { m.expr.clone() };
        let comment = if r.chance(1, 2) { format!("/* bgpfu-fltr: {ann} */") } else { format!("bgpfu-fltr: {ann}") };
        pols.push(candidate_policy(&m.name, &comment, if r.chance(1, 4) { Some(true) } else { None }));
    }
    if r.chance(1, 2) {
        pols.push(candidate_policy("unmanaged-1", "/* hand made */", None));
    }
    r.shuffle(&mut pols);
    // the empty container is written the way the repository's fixtures write it
    dom::serialise(&config_data(pols), &Style::default()).replace("<policy-options/>", "<policy-options></policy-options>")
}

fn sets_to_facade(s: &Sets) -> (Vec<String>, Vec<String>) {
    (s.0.iter().map(junos::range_to_facade).collect(), s.1.iter().map(junos::range_to_facade).collect())
}

fn installed_view(eph: &Config) -> BTreeMap<String, Sets> {
    eph.policies.iter().map(|(n, p)| (n.clone(), (p.accepted("inet"), p.accepted("inet6")))).collect()
}

#[derive(Clone, Copy, PartialEq, Eq)]
pub enum Prop {
    C01,
    C02,
    C03,
}

struct StepOut {
    payloads: Vec<String>,
    /// (name as the agent read it, expression)
    cands: Vec<(String, String)>,
    /// policies the agent believes are candidates (names as the agent read them)
    candidate_names: Vec<String>,
}

/// the agent's run, as task.rs composes it: candidates <- running; evaluate; installed <- ephemeral; compare; render
fn agent_step(running: &str, eph: &Config, results_by_expr: &BTreeMap<String, Option<Sets>>) -> Result<StepOut, String> {
    let cands = agent::verif::read_candidates(running).map_err(|e| format!("read_candidates: {e}"))?;
    let mut evaluated = Vec::new();
    for (name, expr) in &cands {
        let res = results_by_expr.get(expr).cloned().flatten();
        evaluated.push((name.clone(), expr.clone(), res.as_ref().map(sets_to_facade)));
    }
    let payloads = agent::verif::plan(&eph.render_data(), &evaluated).map_err(|e| format!("plan: {e}"))?;
    Ok(StepOut { payloads, candidate_names: cands.iter().map(|c| c.0.clone()).collect(), cands })
}

fn payload_policy(p: &str) -> Option<(String, bool)> {
    let doc = xmlstrict::parse(p.as_bytes()).ok()?;
    let ps = doc.root.path(&["policy-options", "policy-statement"])?;
    Some((ps.child("name")?.text(), ps.attr("delete") == Some("delete")))
}

fn state_json(c: &Config) -> Value {
    json!(c.policies.values().map(|p| json!({
        "name": p.name,
        "terms": p.terms.iter().map(|t| json!({"name": t.name, "family": t.family, "filters": t.filters.iter().map(|f| format!("{} {}", f.0, f.1)).collect::<Vec<_>>(), "action": format!("{:?}", t.action)})).collect::<Vec<_>>(),
        "default": format!("{:?}", p.default_action),
    })).collect::<Vec<_>>())
}

pub fn run_histories(cfg: &Cfg, prop: Prop) -> i32 {
    let (pid, rule) = match prop {
        Prop::C01 => ("C01", "one evaluation = one agent run (real candidate reader -> evaluation results supplied by the generator -> real installed reader -> real compare -> real update writer) inside a history of 3-6 consecutive runs starting from an empty ephemeral instance, the reference Junos model applying every emitted payload; distinct = distinct (installed state, inputs) pairs; non-trivial = at least one policy changes"),
        Prop::C02 => ("C02", "one evaluation = one update payload emitted by the real agent pipeline and applied to the reference Junos model (in the emitted order and in a permuted order), with the accept-set rule checked after every single update; distinct = distinct (state before, payload); non-trivial = payload is an update (not a delete)"),
        Prop::C03 => ("C03", "one evaluation = one agent run in which some managed policies fail to evaluate or carry an unparseable annotation, over every installed/candidate combination the history reaches; distinct = distinct (installed state, inputs); non-trivial = at least one failing policy is currently installed"),
    };
    let mut rep = Report::new(pid, cfg, rule);
    rep.assumptions.push("Junos merge semantics as implemented in harness/src/junos.rs (delete attribute removes the keyed element, absent target is a warning, elements are created or merged by key)".into());
    rep.assumptions.push("the ephemeral instance is rendered in the get-config form attested by the repository's own fixtures".into());
    let n = cfg.count(3_000, 200_000);
    for i in 0..n {
        let idx = cfg.case_index(i);
        let mut r = cfg.prng(pid, idx);
        let escaping_class = prop == Prop::C01 && r.chance(1, 10);
        let pool: Vec<&str> = if escaping_class { ESC_NAMES.to_vec() } else { NAMES.to_vec() };
        let mut eph = Config::default();
        let mut managed: Vec<Managed> = Vec::new();
        let steps = r.range(3, 6);
        let mut history: Vec<Value> = Vec::new();
        'steps: for step in 0..steps {
            // ---- evolve the inputs
            let mut labels: Vec<String> = Vec::new();
            let mut next: Vec<Managed> = Vec::new();
            for m in &managed {
                if r.chance(1, 8) {
                    labels.push(format!("{}:no-longer-managed", m.name));
                    continue;
                }
                let mut m2 = m.clone();
                m2.annotation_ok = true;
                m2.expr = format!("AS{}", 65000 + NAMES.len() * 0 + pool.iter().position(|n| *n == m.name).unwrap_or(0));
                let prev = m.result.clone().unwrap_or_default();
                let (v4, l4) = evolve_set(&mut r, &prev.0, 4);
                let (v6, l6) = evolve_set(&mut r, &prev.1, 6);
                m2.result = Some((v4, v6));
                labels.push(format!("{}:v4-{l4},v6-{l6}", m.name));
                let fail_p = if prop == Prop::C03 { 3 } else { 1 };
                if r.chance(fail_p, 10) {
                    m2.result = None;
                    labels.push(format!("{}:evaluation-failed", m.name));
                } else if prop == Prop::C03 && r.chance(1, 8) {
                    m2.annotation_ok = false;
                    m2.expr = (*r.pick(BAD_ANNOTATIONS)).to_string();
                    m2.result = None;
                    labels.push(format!("{}:annotation-malformed", m.name));
                }
                next.push(m2);
            }
            for (k, name) in pool.iter().enumerate() {
                if next.len() < 5 && !next.iter().any(|m| m.name == *name) && r.chance(1, 3) {
                    let res = if r.chance(1, 10) { None } else { Some((gen_set(&mut r, 4), gen_set(&mut r, 6))) };
                    labels.push(format!("{name}:newly-managed{}", if res.is_none() { "(failed)" } else { "" }));
                    next.push(Managed { name: (*name).to_string(), expr: format!("AS{}", 65000 + k), annotation_ok: true, result: res });
                }
            }
            managed = next;
            // a few histories per run carry one very large policy (a transit customer's cone) that
            // loses thousands of ranges in one run and keeps thousands: behaviour must not depend
            // on how big an update is
            if prop != Prop::C03 && idx % 400 == 3 && !escaping_class {
                let big_name = pool[0].to_string();
                let base: u128 = 0x0A00_0000;
                match step {
                    0 => {
                        let total = 9_000 + r.below(4_000);
                        let v4: BTreeSet<Range> = (0..total as u128).map(|k| (4u8, base + (k << 8), 24u8, 24u8, 24u8)).collect();
                        let v6: BTreeSet<Range> = (0..40u128).map(|k| (6u8, (0x2001_0db8u128 << 96) + (k << 80), 48u8, 48u8, 48u8)).collect();
                        managed = vec![Managed { name: big_name.clone(), expr: "AS65000".into(), annotation_ok: true, result: Some((v4, v6)) }];
                        labels = vec![format!("{big_name}:large({total} ranges)")];
                    }
                    1 => {
                        if let Some(m) = managed.iter_mut().find(|m| m.name == big_name) {
                            if let Some((v4, _)) = m.result.as_mut() {
                                let drop_n = *r.pick(&[4_095usize, 4_096, 4_097, 5_000, 8_000]);
                                let keep: BTreeSet<Range> = v4.iter().skip(drop_n).copied().collect();
                                labels.push(format!("{big_name}:withdraws-{drop_n}-of-{}", v4.len()));
                                *v4 = keep;
                                rep.count("runs_withdrawing_thousands_of_ranges_at_once");
                            }
                        }
                    }
                    _ => {}
                }
            }
            let running = render_running(&managed, &mut r);
            let results: BTreeMap<String, Option<Sets>> = managed.iter().filter(|m| m.annotation_ok).map(|m| (m.expr.clone(), m.result.clone())).collect();
            // ---- C02 ranges over all installed states, not only those the agent wrote: now and
            // then somebody has hot-fixed an installed policy by hand with a match type the agent
            // never writes. The agent may refuse to touch such an instance (it does: the run
            // fails before anything is sent) - but whatever it sends must not leave that filter
            // accepting
            let mut hotfixed: Option<Config> = None;
            if prop == Prop::C02 && step > 0 && r.chance(1, 8) {
                let names: Vec<String> = eph.policies.iter().filter(|(_, p)| p.terms.iter().any(|t| t.action == Some(junos::Action::Accept))).map(|(n, _)| n.clone()).collect();
                if !names.is_empty() {
                    let unedited = eph.clone();
                    let name = names[r.below(names.len())].clone();
                    if let Some(t) = eph.policies.get_mut(&name).and_then(|p| p.terms.iter_mut().find(|t| t.action == Some(junos::Action::Accept))) {
                        if r.chance(1, 3) {
                            // ... or with a term of the operator's own naming (the agent tells the
                            // terms apart by <family> when reading and by <name> when writing)
                            t.name = (*r.pick(&["v4", "ipv4-prefixes", "inet6", "inet", "accept-these"])).to_string();
                            if Some(t.name.as_str()) == t.family.as_deref() {
                                t.name = "custom".into();
                            }
                            labels.push(format!("{name}:hand-edited-term-name"));
                        } else {
                            let addr = if t.family.as_deref() == Some("inet6") { "2001:db8:ffff::/48" } else { "203.0.113.0/24" };
                            t.filters.insert((addr.to_string(), (*r.pick(&["orlonger", "exact", "longer"])).to_string()));
                            labels.push(format!("{name}:hand-edited-route-filter"));
                        }
                        hotfixed = Some(unedited);
                        rep.count("runs_over_a_hand_edited_installed_policy");
                    }
                }
            }
            // ---- likewise for all installed states: the same accept set written differently from
            // how the agent writes it (by another tool, an older version, by hand) - sibling
            // prefixes listed separately, adjacent length ranges on one address, an entry that
            // another one covers. Route-filter entries are keyed by their literal text: deleting
            // "the aggregate" deletes nothing
            if prop == Prop::C02 && step > 0 && hotfixed.is_none() && r.chance(1, 6) {
                let names: Vec<String> = eph.policies.iter().filter(|(_, p)| p.terms.iter().any(|t| t.action == Some(junos::Action::Accept) && !t.filters.is_empty())).map(|(n, _)| n.clone()).collect();
                if !names.is_empty() {
                    let name = names[r.below(names.len())].clone();
                    if let Some(t) = eph.policies.get_mut(&name).and_then(|p| p.terms.iter_mut().find(|t| t.action == Some(junos::Action::Accept) && !t.filters.is_empty())) {
                        let mut did = Vec::new();
                        for _ in 0..r.range(1, 3) {
                            let all: Vec<(String, String)> = t.filters.iter().cloned().collect();
                            let f = all[r.below(all.len())].clone();
                            let Some((fam, addr, len, lo, hi)) = junos::filter_range(&f) else { continue };
                            let max = if fam == 4 { 32u8 } else { 128 };
                            let text = |a: u128, l: u8, lo: u8, hi: u8| (format!("{}/{}", junos::fmt_addr(fam, a), l), format!("/{lo}-/{hi}"));
                            let child = |which: u128| addr | (which << (u32::from(max) - u32::from(len) - 1));
                            match r.below(3) {
                                0 if lo < hi => {
                                    let mid = lo + (r.below(usize::from(hi - lo)) as u8);
                                    t.filters.remove(&f);
                                    t.filters.insert(text(addr, len, lo, mid));
                                    t.filters.insert(text(addr, len, mid + 1, hi));
                                    did.push("adjacent-length-ranges");
                                }
                                1 if lo > len && len < max => {
                                    t.filters.remove(&f);
                                    t.filters.insert(text(child(0), len + 1, lo, hi));
                                    t.filters.insert(text(child(1), len + 1, lo, hi));
                                    did.push("sibling-prefixes-listed-separately");
                                }
                                _ if len < max && hi > len => {
                                    t.filters.insert(text(child(r.below(2) as u128), len + 1, lo.max(len + 1), hi));
                                    did.push("entry-covered-by-another");
                                }
                                _ => {}
                            }
                        }
                        if !did.is_empty() {
                            did.sort_unstable();
                            did.dedup();
                            labels.push(format!("{name}:installed-in-non-aggregated-form({})", did.join("+")));
                            rep.count("runs_over_an_installed_policy_in_non_aggregated_form");
                        }
                    }
                }
            }
            let before = eph.clone();
            let key = format!("{before:?}|{managed:?}");
            let wit = |extra: Value, history: &Vec<Value>| json!({"case_index": idx, "seed": cfg.seed, "step": step, "history": history, "inputs": labels,
                "installed_before": state_json(&before), "running": clip(&running, 1500), "observed": extra});
            // ---- the agent's run
            let out = match agent_step(&running, &eph, &results) {
                Ok(o) => o,
                Err(_) if hotfixed.is_some() => {
                    // refused as a whole, nothing sent: fail-closed. The operator reverts the edit.
                    rep.count("runs_refused_over_a_hand_edited_installed_policy");
                    eph = hotfixed.take().unwrap();
                    continue 'steps;
                }
                Err(e) => {
                    // the state `eph` was produced by the agent itself: it must be able to read it back
                    if prop == Prop::C01 {
                        let feature = if eph.policies.values().any(|p| p.terms.iter().any(|t| t.action.is_none())) { "term-without-action" } else { "other" };
                        let class = e.split('(').next().unwrap_or("").trim().replace(' ', "-");
                        rep.case(Some(key.as_bytes()));
                        rep.violation(&format!("readback:{feature}:{}", clip(&class, 60)), &format!("the agent cannot read back a state it installed itself: {e}"), wit(json!({"rendered": clip(&eph.render_data(), 1500)}), &history));
                    } else {
                        rep.count("runs_aborted_by_readback_failure(C01)");
                    }
                    break 'steps;
                }
            };
            let touched_nontrivial = match prop {
                Prop::C03 => managed.iter().any(|m| m.result.is_none() && before.policies.contains_key(&m.name)),
                _ => !out.payloads.is_empty(),
            };
            if prop != Prop::C02 {
                rep.case(if touched_nontrivial { Some(key.as_bytes()) } else { None });
            }
            rep.count_n("payloads", out.payloads.len() as u64);
            history.push(json!({"step": step, "inputs": labels, "payloads": out.payloads.iter().map(|p| clip(p, 400)).collect::<Vec<_>>()}));
            // ---- apply, checking C02 after every single update, in two orders
            // policies by the name the agent uses for them (it may differ from the true name, C01/C16)
            let mut by_name: BTreeMap<&str, &Managed> = managed.iter().map(|m| (m.name.as_str(), m)).collect();
            for (aname, expr) in &out.cands {
                if let Some(m) = managed.iter().find(|m| m.annotation_ok && m.expr == *expr) {
                    by_name.insert(aname.as_str(), m);
                }
            }
            let mut orders: Vec<Vec<usize>> = vec![(0..out.payloads.len()).collect()];
            if out.payloads.len() > 1 {
                let mut o2 = orders[0].clone();
                r.shuffle(&mut o2);
                orders.push(o2);
            }
            let mut finals: Vec<Config> = Vec::new();
            for (oi, order) in orders.iter().enumerate() {
                let mut st = before.clone();
                for &k in order {
                    let p = &out.payloads[k];
                    let st_before = st.clone();
                    let events = match st.apply(p) {
                        Ok(ev) => ev,
                        Err(e) => {
                            if prop == Prop::C02 && oi == 0 {
                                rep.case(Some(format!("{st_before:?}|{p}").as_bytes()));
                                rep.violation("payload:outside-policy-statements-or-unmodelled", &e, wit(json!({"payload": clip(p, 1200)}), &history));
                            }
                            break 'steps;
                        }
                    };
                    let (pname, is_del) = payload_policy(p).unwrap_or_default();
                    if prop == Prop::C02 && oi == 0 {
                        let k2 = format!("{st_before:?}|{p}");
                        rep.case(if is_del { None } else { Some(k2.as_bytes()) });
                        rep.count(if is_del { "deletes" } else { "updates" });
                        // element paths
                        if let Ok(doc) = xmlstrict::parse(p.as_bytes()) {
                            let mut paths = Vec::new();
                            doc.root.all_paths("", &mut paths);
                            for path in paths {
                                if !(path == "configuration" || path == "configuration/policy-options" || path.starts_with("configuration/policy-options/policy-statement")) {
                                    rep.violation("payload:element-outside-policy-statement", &path, wit(json!({"payload": clip(p, 1200)}), &history));
                                }
                            }
                        }
                    }
                    if prop == Prop::C02 {
                        if let Some(pol) = st.policies.get(&pname) {
                            let allowed = by_name.get(pname.as_str()).and_then(|m| m.result.clone()).unwrap_or_default();
                            let why = pol.fail_open_reasons(&allowed.0, &allowed.1);
                            if !why.is_empty() {
                                let class = if why.iter().any(|w| w.contains("unparseable route-filter")) { "hand-edited-route-filter-left-accepting" }
                                    else if why.iter().any(|w| w.contains("no route-filter")) { "accept-term-without-route-filter" }
                                    else if why.iter().any(|w| w.contains("not in the evaluated set")) { "accepts-range-outside-evaluated-set" }
                                    else if why.iter().any(|w| w.contains("unconditional reject")) { "no-default-reject" }
                                    else if why.iter().any(|w| w.contains("not restricted to one")) { "accept-term-without-family" }
                                    else { "other" };
                                rep.violation(&format!("fail-open:{class}"), &why.join("; "), wit(json!({"payload": clip(p, 1500), "policy_after": state_json(&Config { policies: [(pname.clone(), pol.clone())].into_iter().collect() }), "order": if oi == 0 { "emitted" } else { "permuted" }}), &history));
                            }
                        }
                    }
                    if prop == Prop::C03 && oi == 0 {
                        // (a) a policy still marked as managed whose data could not be obtained is not touched
                        if let Some(m) = by_name.get(pname.as_str()) {
                            if m.result.is_none() {
                                let kind = if !m.annotation_ok { "malformed-annotation" } else { "evaluation-failed" };
                                let what = if is_del { "installed-policy-deleted" } else { "policy-updated" };
                                rep.violation(&format!("{kind}:{what}"), &format!("policy '{pname}' is still marked as managed but its prefix data could not be obtained; the agent sent {}", if is_del { "a delete" } else { "an update" }), wit(json!({"payload": clip(p, 800)}), &history));
                            }
                        }
                        // (b) deletes only for installed policies no longer marked as managed
                        if is_del {
                            let still_managed = managed.iter().any(|m| m.name == pname);
                            if !before.policies.contains_key(&pname) {
                                rep.violation("delete:not-installed", &format!("delete for '{pname}', which is not installed"), wit(json!({"payload": clip(p, 800)}), &history));
                            } else if still_managed && managed.iter().any(|m| m.name == pname && m.result.is_some()) {
                                rep.violation("delete:still-managed", &format!("delete for '{pname}', which is managed and evaluated"), wit(json!({"payload": clip(p, 800)}), &history));
                            }
                            rep.count("deletes_seen");
                        }
                        let _ = &events;
                    }
                    if events.iter().any(|e| matches!(e, Event::DeleteOfAbsent(_))) {
                        rep.count("delete_of_absent_element(warning)");
                    }
                }
                finals.push(st);
            }
            if finals.len() == 2 && finals[0] != finals[1] && prop == Prop::C02 {
                rep.violation("order-dependent-result", "applying the run's updates in a different order gives a different configuration", wit(json!({}), &history));
            }
            let Some(after) = finals.into_iter().next() else { break 'steps };
            eph = after;
            // ---- C03: failed policies byte-identical
            if prop == Prop::C03 {
                for m in managed.iter().filter(|m| m.result.is_none()) {
                    if before.policies.get(&m.name) != eph.policies.get(&m.name) {
                        rep.count("failed_policy_state_changed");
                    } else if before.policies.contains_key(&m.name) {
                        rep.count("failed_policy_left_untouched");
                    }
                }
            }
            // ---- C01: convergence, no unmanaged leftovers, read-back, idempotence
            if prop == Prop::C01 {
                let view = installed_view(&eph);
                for m in managed.iter().filter(|m| m.annotation_ok) {
                    if let Some(want) = &m.result {
                        match eph.policies.get(&m.name) {
                            None => {
                                let sig = if out.candidate_names.contains(&m.name) { "converge:evaluated-policy-missing" } else { "converge:name-needs-escaping" };
                                rep.violation(sig, &format!("after a successful run there is no installed policy named {:?} (the agent read the names {:?})", m.name, out.candidate_names), wit(json!({"installed_after": state_json(&eph)}), &history));
                                break 'steps;
                            }
                            Some(pol) => {
                                let got = view.get(&m.name).cloned().unwrap_or_default();
                                if got != *want {
                                    let fam = if got.0 != want.0 { "inet" } else { "inet6" };
                                    rep.violation(&format!("converge:accept-set-differs:{fam}"), &format!("policy {:?}: accepted {:?}, evaluated {:?}", m.name, got, want), wit(json!({"installed_after": state_json(&eph)}), &history));
                                    break 'steps;
                                }
                                if pol.default_action != Some(Action::Reject) {
                                    rep.violation("converge:no-default-reject", &m.name, wit(json!({"installed_after": state_json(&eph)}), &history));
                                }
                            }
                        }
                    }
                }
                for name in eph.policies.keys() {
                    if !managed.iter().any(|m| m.name == *name) {
                        rep.violation("converge:unmanaged-policy-left-installed", &format!("policy {name:?} is installed but no longer marked as managed"), wit(json!({"installed_after": state_json(&eph)}), &history));
                        break 'steps;
                    }
                }
                // read-back
                match agent::verif::read_installed(&eph.render_data()) {
                    Err(e) => {
                        let feature = if eph.policies.values().any(|p| p.terms.iter().any(|t| t.action.is_none())) { "term-without-action" } else { "other" };
                        let class = e.split('{').next().unwrap_or("").split('(').next().unwrap_or("").trim().to_string();
                        rep.violation(&format!("readback:{feature}:{class}"), &format!("the agent cannot read back the state it just installed: {e}"), wit(json!({"rendered": clip(&eph.render_data(), 1500), "installed_after": state_json(&eph)}), &history));
                        break 'steps;
                    }
                    Ok(list) => {
                        let got: BTreeMap<String, Sets> = list.into_iter().map(|(n, a, b)| (n, (a.iter().filter_map(|s| junos::facade_to_range(s)).collect(), b.iter().filter_map(|s| junos::facade_to_range(s)).collect()))).collect();
                        if got != view {
                            rep.violation("readback:differs", &format!("read back {got:?}, installed {view:?}"), wit(json!({}), &history));
                            break 'steps;
                        }
                        rep.count("readbacks_ok");
                    }
                }
                // idempotence
                match agent_step(&running, &eph, &results) {
                    Err(e) => {
                        rep.violation("idempotence:second-run-fails", &e, wit(json!({}), &history));
                        break 'steps;
                    }
                    Ok(second) => {
                        let mut again = eph.clone();
                        let mut ok = true;
                        for p in &second.payloads {
                            if again.apply(p).is_err() {
                                ok = false;
                            }
                        }
                        // "semantically unchanged": same policies, same accept-sets per family, same default action
                        let sem = |c: &Config| -> Vec<(String, Sets, Option<Action>)> {
                            c.policies.values().map(|p| (p.name.clone(), (p.accepted("inet"), p.accepted("inet6")), p.default_action.clone())).collect()
                        };
                        // the state after the second run is also a state the agent installed
                        if ok {
                            if let Err(e) = agent::verif::read_installed(&again.render_data()) {
                                let feature = if again.policies.values().any(|p| p.terms.iter().any(|t| t.action.is_none())) { "term-without-action" } else { "other" };
                                let class = e.split('{').next().unwrap_or("").split('(').next().unwrap_or("").trim().to_string();
                                rep.violation(&format!("readback:{feature}:{class}"), &format!("after a further run with unchanged inputs the agent cannot read back what it installed: {e}"), wit(json!({"second_run_payloads": second.payloads.iter().map(|p| clip(p, 500)).collect::<Vec<_>>(), "after_second": state_json(&again)}), &history));
                                break 'steps;
                            }
                        }
                        if !ok || sem(&again) != sem(&eph) {
                            rep.violation("idempotence:second-run-changes-state", "a further run with unchanged inputs changes the configuration", wit(json!({"second_run_payloads": second.payloads.iter().map(|p| clip(p, 500)).collect::<Vec<_>>(), "after_second": state_json(&again), "after_first": state_json(&eph)}), &history));
                            break 'steps;
                        }
                        rep.count("idempotence_checked");
                    }
                }
            }
            if rep.samples.len() < rep.max_samples && step == 1 && i % 211 == 0 {
                rep.sample(json!({"inputs": labels, "payloads": out.payloads.iter().map(|p| clip(p, 700)).collect::<Vec<_>>(), "installed_after": state_json(&eph)}));
            }
        }
    }
    rep.finish()
}

// =============================================================================== C16

#[derive(Clone, Debug)]
struct Stmt {
    node: N,
    /// Some((name, expression text)) if the oracle selects it
    selected: Option<(String, String)>,
    kind: &'static str,
    /// raw text to splice instead of the serialised node (for the duplicate-xmlns Junos quirk)
    dup_xmlns: bool,
}

const GOOD_EXPRS: &[&str] = &[
    "AS-FOO", "AS65000", "AS-BAR OR AS65000", "AS-BAZ AND { 10.0.0.0/8 }^+", "{192.0.2.0/24^+, 2001:db8::/32^48-64}",
    "RS-X AND NOT AS1", "AS65000:AS-CUSTOMERS", "(AS1 OR AS2) AND AS-SET-3",
];

fn canonical(expr: &str) -> Option<String> {
    expr.parse::<rpsl::expr::MpFilterExpr>().ok().map(|e| e.to_string())
}

fn decorate(r: &mut Prng, body: &str) -> String {
    match r.below(5) {
        0 => format!("/* bgpfu-fltr: {body} */"),
        1 => format!("bgpfu-fltr: {body}"),
        2 => format!("/*bgpfu-fltr:{body}*/"),
        3 => format!("/*   bgpfu-fltr:    {body}    */"),
        _ => format!("/* bgpfu-fltr: {body}*/"),
    }
}

fn gen_stmt(r: &mut Prng, name: &str) -> Stmt {
    let expr = *r.pick(GOOD_EXPRS);
    gen_stmt_with(r, name, expr)
}

fn gen_stmt_with(r: &mut Prng, name: &str, expr: &str) -> Stmt {
    let reject_body = |p: N| p.kid(N::leaf(XNM, "name", name)).kid(N::el(XNM, "then").kid(N::el(XNM, "reject")));
    let base = || N::el(XNM, "policy-statement");
    let with_attrs = |r: &mut Prng, comment: Option<String>, active: Option<&str>| -> N {
        let mut p = base();
        let mut attrs: Vec<(&'static str, String, String)> = Vec::new();
        if let Some(c) = comment {
            attrs.push((JCMD, "comment".into(), c));
        }
        if let Some(a) = active {
            attrs.push((JCMD, "active".into(), a.into()));
        }
        if r.chance(1, 4) {
            attrs.push(("", "inactive-marker".into(), "x".into()));
        }
        if r.chance(1, 2) {
            attrs.reverse();
        }
        p.attrs = attrs;
        p
    };
    match r.below(13) {
        12 => {
            // an otherwise eligible statement whose comment merely contains the marker (a defused
            // or quoted annotation, a look-alike keyword): not of the form 'bgpfu-fltr: <expression>'
            let c = match r.below(7) {
                0 => format!("/* DISABLED bgpfu-fltr: {expr} */"),
                1 => format!("/* old-bgpfu-fltr: {expr} */"),
                2 => format!("was generated with bgpfu-fltr: {expr}"),
                3 => format!("/* x bgpfu-fltr: {expr} */"),
                4 => format!("/* #bgpfu-fltr: {expr} */"),
                5 => format!("/* bgpfu-fltr-off: {expr} */"),
                _ => format!("/* nobgpfu-fltr:{expr} */"),
            };
            let active = match r.below(3) { 0 => None, _ => Some("true") };
            Stmt { node: reject_body(with_attrs(r, Some(c), active)), selected: None, kind: "marker-not-at-start-of-comment", dup_xmlns: false }
        }
        0 | 1 | 2 => {
            let c = decorate(r, expr);
            let active = match r.below(3) { 0 => None, _ => Some("true") };
            let dup = active.is_some() && r.chance(1, 2);
            Stmt { node: reject_body(with_attrs(r, Some(c), active)), selected: Some((name.to_string(), expr.to_string())), kind: "managed", dup_xmlns: dup }
        }
        3 => {
            let c = decorate(r, expr);
            Stmt { node: reject_body(with_attrs(r, Some(c), Some("false"))), selected: None, kind: "inactive", dup_xmlns: r.chance(1, 2) }
        }
        4 => Stmt { node: reject_body(with_attrs(r, None, None)), selected: None, kind: "no-comment", dup_xmlns: false },
        5 => {
            let c = (*r.pick(&["/* hand made */", "note bgpfu-fltr: AS-FOO", "bgpfu", "/* bgpfu-fltr */", "BGPFU-FLTR: AS-FOO"])).to_string();
            // unrelated comment; body may be anything
            let p = with_attrs(r, Some(c), None).kid(N::leaf(XNM, "name", name));
            let p = if r.chance(1, 2) { p.kid(N::el(XNM, "term").kid(N::leaf(XNM, "name", "t1")).kid(N::el(XNM, "then").kid(N::el(XNM, "accept")))) } else { p };
            Stmt { node: p, selected: None, kind: "unrelated-comment", dup_xmlns: false }
        }
        6 => {
            let bad = *r.pick(BAD_ANNOTATIONS);
            let c = decorate(r, bad);
            let sel = canonical(bad).map(|_| (name.to_string(), bad.to_string()));
            Stmt { node: reject_body(with_attrs(r, Some(c), None)), selected: sel, kind: "unparseable-annotation", dup_xmlns: false }
        }
        7 => {
            // annotated, but other content: a term before the reject
            let c = decorate(r, expr);
            let p = with_attrs(r, Some(c), None)
                .kid(N::leaf(XNM, "name", name))
                .kid(N::el(XNM, "term").kid(N::leaf(XNM, "name", "t1")).kid(N::el(XNM, "then").kid(N::el(XNM, "accept"))))
                .kid(N::el(XNM, "then").kid(N::el(XNM, "reject")));
            Stmt { node: p, selected: None, kind: "annotated-with-term", dup_xmlns: false }
        }
        8 => {
            let c = decorate(r, expr);
            let p = with_attrs(r, Some(c), None).kid(N::leaf(XNM, "name", name)).kid(N::el(XNM, "then").kid(N::el(XNM, "accept")));
            Stmt { node: p, selected: None, kind: "annotated-then-accept", dup_xmlns: false }
        }
        9 => {
            let c = decorate(r, expr);
            let p = with_attrs(r, Some(c), None)
                .kid(N::leaf(XNM, "name", name))
                .kid(N::el(XNM, "then").kid(N::el(XNM, "reject")).kid(N::el(XNM, "next-policy")));
            Stmt { node: p, selected: None, kind: "annotated-several-actions", dup_xmlns: false }
        }
        10 => {
            // annotated, name only (no action at all)
            let c = decorate(r, expr);
            let p = with_attrs(r, Some(c), None).kid(N::leaf(XNM, "name", name));
            Stmt { node: p, selected: None, kind: "annotated-no-action", dup_xmlns: false }
        }
        _ => {
            // body order: then before name
            let c = decorate(r, expr);
            let p = with_attrs(r, Some(c), None).kid(N::el(XNM, "then").kid(N::el(XNM, "reject"))).kid(N::leaf(XNM, "name", name));
            Stmt { node: p, selected: Some((name.to_string(), expr.to_string())), kind: "managed-then-before-name", dup_xmlns: false }
        }
    }
}

pub fn run_c16(cfg: &Cfg) -> i32 {
    let mut rep = Report::new(
        "C16",
        cfg,
        "one evaluation = one generated running configuration (0-8 policy statements mixing managed, inactive, unannotated, unparseable and other-content statements, attribute orders, the duplicate xmlns:jcmd Junos emits, escaped names) read by the real candidate reader and compared with the generator's own selection; \
         distinct = distinct configurations; non-trivial = at least two statements",
    );
    let n = cfg.count(20_000, 2_000_000);
    // (names are case-sensitive: FLTR-A, Fltr-A and fltr-a are three statements)
    let names_plain = ["fltr-a", "fltr-b", "p.3", "q_4", "AS65000-in", "zz", "m-7", "n-8", "o-9", "FLTR-A", "Fltr-A", "as65000-IN", "ZZ"];
    // names that need escaping, and names whose boundary whitespace is part of the name
    let names_esc = ["a&b", "x<y", "it's", " lead", "trail ", "in ner", "tab\tx "];
    for i in 0..n {
        let idx = cfg.case_index(i);
        let mut r = cfg.prng("C16", idx);
        let k = r.range(0, 8);
        let mut stmts = Vec::new();
        let mut used: BTreeSet<String> = BTreeSet::new();
        for _ in 0..k {
            let name = if r.chance(1, 12) { *r.pick(&names_esc) } else { *r.pick(&names_plain) };
            if !used.insert(name.to_string()) {
                continue;
            }
            stmts.push(gen_stmt(&mut r, name));
        }
        let tree = config_data(stmts.iter().map(|s| s.node.clone()).collect());
        let st = Style { indent: r.chance(1, 2), ..Style::default() };
        let mut text = dom::serialise(&tree, &st).replace("<policy-options/>", "<policy-options></policy-options>");
        // the Junos quirk: duplicate xmlns:jcmd when both active and comment are present
        if stmts.iter().any(|s| s.dup_xmlns) {
            text = text.replacen(" jcmd:active=", &format!(" xmlns:jcmd=\"{JCMD}\" jcmd:active="), 1);
            rep.count("configs_with_duplicate_xmlns_jcmd");
        }
        // the same attribute values spelled with character references (any XML writer may do
        // that for any character): the marker, the expression, the active flag
        if r.chance(1, 5) {
            let (from, to) = *r.pick(&[
                ("bgpfu-fltr:", "bgpfu&#45;fltr:"), ("bgpfu-fltr:", "bgpfu-fltr&#x3a;"), ("bgpfu-fltr:", "bgpfu-&#x66;ltr:"), ("bgpfu-fltr:", "&#98;gpfu-fltr:"),
                ("active=\"false\"", "active=\"f&#97;lse\""), ("active=\"true\"", "active=\"&#x74;rue\""), ("AS", "&#65;S"),
            ]);
            if text.contains(from) {
                // attribute values only: element text (names) is left alone
                let mut out = String::new();
                let mut rest = text.as_str();
                while let Some(q) = rest.find("=\"") {
                    let (head, tail) = rest.split_at(q + 2);
                    out.push_str(head);
                    let endq = tail.find('"').unwrap_or(tail.len());
                    out.push_str(&tail[..endq].replace(from, to));
                    rest = &tail[endq..];
                }
                out.push_str(rest);
                // `active="false"` sits in the tag, not in a value: handle the attribute forms too
                if from.starts_with("active=") {
                    out = out.replace(from, to);
                }
                if out != text {
                    text = out;
                    rep.count("configs_with_character_references_in_attribute_values");
                }
            }
        }
        rep.case(if stmts.len() >= 2 { Some(text.as_bytes()) } else { None });
        for s in &stmts {
            rep.count(&format!("stmt:{}", s.kind));
        }
        let mut want: Vec<(String, String)> = stmts.iter().filter_map(|s| s.selected.clone()).filter_map(|(n, e)| canonical(&e).map(|c| (n, c))).collect();
        want.sort();
        let wit = |extra: Value| json!({"config": clip(&text, 2500), "statements": stmts.iter().map(|s| json!({"kind": s.kind, "selected": s.selected})).collect::<Vec<_>>(), "case_index": idx, "seed": cfg.seed, "observed": extra});
        let kinds: BTreeSet<&str> = stmts.iter().map(|s| s.kind).collect();
        match agent::verif::read_candidates(&text) {
            Ok(got) => {
                rep.count("reader_ok");
                if got != want {
                    // attribute the difference
                    let got_names: BTreeSet<&String> = got.iter().map(|g| &g.0).collect();
                    let want_names: BTreeSet<&String> = want.iter().map(|g| &g.0).collect();
                    let mut sig = "selection-differs".to_string();
                    if let Some(extra) = got_names.difference(&want_names).next() {
                        let esc = want.iter().any(|w| xmlstrict::escape_text(&w.0) == **extra || w.0.replace('&', "&amp;").replace('<', "&lt;").replace('>', "&gt;").replace('\'', "&apos;") == **extra);
                        let kind = stmts.iter().find(|s| s.node.kids.iter().any(|k| k.name == "name" && k.text.as_deref() == Some(extra.as_str()))).map_or("?", |s| s.kind);
                        let ws = want.iter().any(|w| w.0 != **extra && w.0.trim() == extra.trim());
                        sig = if esc { "name:not-unescaped".into() } else if ws { "name:boundary-whitespace-changed".into() } else { format!("selected-but-should-not:{kind}") };
                    } else if let Some(missing) = want_names.difference(&got_names).next() {
                        let kind = stmts.iter().find(|s| s.selected.as_ref().map(|x| &x.0) == Some(*missing)).map_or("?", |s| s.kind);
                        sig = format!("not-selected-but-should:{kind}");
                    } else {
                        sig = "expression-differs".into();
                    }
                    rep.violation(&sig, &format!("reader selected {got:?}, expected {want:?}"), wit(json!({})));
                }
            }
            Err(e) => {
                rep.count("reader_error");
                // a reader error means no statement at all is managed: acceptable only if nothing should be
                let culprit = ["annotated-with-term", "annotated-then-accept", "annotated-several-actions"].iter().find(|k| kinds.contains(**k));
                let sig = match culprit {
                    Some(k) => format!("{k}:reader-error"),
                    None => format!("reader-error:{}", e.split('(').next().unwrap_or("").trim()),
                };
                rep.violation(&sig, &format!("the reader fails for the whole configuration ({}), so none of the {} valid statements is managed", clip(&e, 200), want.len()), wit(json!({"error": e})));
            }
        }
        if rep.samples.len() < rep.max_samples && i % 3001 == 17 {
            rep.sample(json!({"config": clip(&text, 900), "expected_selection": want}));
        }
    }
    // two statements that both qualify and bear the same name (spelled alike, or one of them with
    // a character reference) but different expressions: a name is a key, there is no "exactly the
    // qualifying statements" to manage any more. Refusing the configuration manages nothing and is
    // safe; picking one of the two silently is a wrong selection.
    let nd = cfg.count(300, 30_000);
    for i in 0..nd {
        let idx = cfg.case_index(i);
        let mut r = cfg.prng("C16-duplicates", idx);
        let name = *r.pick(&names_plain);
        let (e1, e2) = ("AS-ALPHA", "AS-BETA OR AS65001");
        let mut nodes = vec![candidate_policy(name, &format!("/* bgpfu-fltr: {e1} */"), None)];
        for _ in 0..r.below(3) {
            let other = *r.pick(&["other-1", "other-2", "other-3"]);
            if !nodes.iter().any(|n: &N| n.kids.iter().any(|k| k.text.as_deref() == Some(other))) {
                nodes.push(gen_stmt(&mut r, other).node);
            }
        }
        nodes.push(candidate_policy("@@DUP@@", &format!("/* bgpfu-fltr: {e2} */"), if r.chance(1, 2) { Some(true) } else { None }));
        if r.chance(1, 2) {
            nodes.reverse();
        }
        let tree = config_data(nodes);
        let spelled = if r.chance(1, 2) {
            name.to_string()
        } else {
            let mut cs = name.chars();
            let first = cs.next().unwrap_or('x');
            format!("&#{};{}", first as u32, cs.as_str())
        };
        let text = dom::serialise(&tree, &Style { indent: r.chance(1, 2), ..Style::default() }).replace("@@DUP@@", &spelled);
        rep.case(Some(text.as_bytes()));
        rep.count("configs_with_two_qualifying_statements_of_one_name");
        match agent::verif::read_candidates(&text) {
            Err(_) => rep.count("duplicate_name:configuration_refused"),
            Ok(got) => rep.violation(
                "duplicate-name-among-qualifying-statements:one-silently-dropped",
                &format!("two qualifying statements named {name:?} with the expressions {e1:?} and {e2:?}; the reader selected {got:?}"),
                json!({"config": clip(&text, 1500), "case_index": idx, "seed": cfg.seed}),
            ),
        }
    }
    rep.finish()
}


/// C16 end to end: the real agent binary against the fake router, which honours the subtree filter
/// of the agent's <get-config> (as Junos does): what the agent manages is decided by what it asks
/// for as much as by what it does with the answer. Every statement carries an expression of its
/// own (a distinct AS with routes in the fake IRR), so "managed" = "its name appears in a load".
pub fn run_c16_agent(cfg: &Cfg) -> i32 {
    use crate::e2e::{self, FakeJunos, Script};
    use irrfake::server::{Faults, Server};
    use std::time::Duration;
    let mut rep = Report::new(
        "C16",
        cfg,
        "one evaluation = one run of the real agent binary against a fake router whose running configuration holds 2-7 policy statements of the generated kinds (plus a system stanza and a prefix-list) and which applies the request's subtree filter; \
         the set of policy names the agent loads is compared with the generator's selection; distinct = distinct configurations",
    );
    if !std::path::Path::new(&e2e::agent_bin()).exists() {
        eprintln!("agent binary not built");
        return 2;
    }
    let n = cfg.count(10, 300);
    let rt = tokio::runtime::Builder::new_multi_thread().worker_threads(4).enable_all().build().expect("runtime");
    let irr = match Server::start(crate::c04::simple_db(12), Faults::default()) {
        Ok(s) => s,
        Err(e) => {
            eprintln!("fake irrd: {e}");
            return 2;
        }
    };
    let names = ["fltr-a", "fltr-b", "p.3", "q_4", "AS65000-in", "zz", "m-7", "n-8", "o-9", "FLTR-A"];
    for i in 0..n {
        let idx = cfg.case_index(i);
        let mut r = cfg.prng("C16-agent", idx);
        let k = r.range(2, 7);
        let mut stmts = Vec::new();
        let mut used: BTreeSet<String> = BTreeSet::new();
        // the first cases make sure every kind with other content is present
        for j in 0..k {
            let name = *r.pick(&names);
            if !used.insert(name.to_string()) {
                continue;
            }
            stmts.push(gen_stmt_with(&mut r, name, &format!("AS{}", 65000 + j)));
        }
        // every run has an annotated statement with other content next to the managed ones: what
        // the router is asked for must be enough to tell the two apart
        for want_kind in ["annotated-with-term", "annotated-then-accept"] {
            if !stmts.iter().any(|s| s.kind == want_kind) && (idx % 2 == 0 || want_kind == "annotated-with-term") {
                let name = if want_kind == "annotated-with-term" { "with-term" } else { "then-accept" };
                for _ in 0..400 {
                    let s = gen_stmt_with(&mut r, name, "AS65010");
                    if s.kind == want_kind {
                        stmts.push(s);
                        break;
                    }
                }
            }
        }
        if !stmts.iter().any(|s| s.selected.is_some()) {
            let name = "always-managed";
            stmts.push(Stmt { node: candidate_policy(name, "/* bgpfu-fltr: AS65011 */", None), selected: Some((name.into(), "AS65011".into())), kind: "managed", dup_xmlns: false });
        }
        // two managed statements may spell the same filter expression (a primary and a backup session
        // for one customer): each of them is managed in its own right
        if let Some((_, e)) = stmts.iter().filter_map(|s| s.selected.clone()).find(|(_, e)| canonical(e).is_some()) {
            let name = "twin-of-the-first";
            stmts.push(Stmt { node: candidate_policy(name, &format!("/* bgpfu-fltr: {e} */"), None), selected: Some((name.into(), e)), kind: "managed-same-expression", dup_xmlns: false });
        }
        let cfg_tree = N::el(XNM, "configuration")
            .kid(N::el(XNM, "system").kid(N::leaf(XNM, "host-name", "r1")))
            .kid(N::el(XNM, "policy-options").kid(N::el(XNM, "prefix-list").kid(N::leaf(XNM, "name", "pl-1"))).kids(stmts.iter().map(|s| s.node.clone())));
        let running = dom::serialise(&cfg_tree, &Style { indent: r.chance(1, 2), ..Style::default() });
        let script = Script { running: running.clone(), faults: vec![], fail_connections: vec![], ephemeral_name: "bgpfu".into(), chunk: 0, slow_commit: vec![], faults_only_session: None, late_ms: 0, no_match_is_empty_data: false };
        let irr_port = irr.port();
        let (run, shared) = rt.block_on(async {
            let j = FakeJunos::start(script, Config::default()).await.expect("fake junos");
            let run = e2e::run_agent(j.port, irr_port, 0, &["-v"], &[], Duration::from_secs(25)).await;
            tokio::time::sleep(Duration::from_millis(20)).await;
            let sh = j.shared.clone();
            j.stop();
            (run, sh)
        });
        let g = shared.lock().unwrap();
        rep.case(Some(running.as_bytes()));
        for s in &stmts {
            rep.count(&format!("stmt:{}", s.kind));
        }
        if run.timed_out {
            rep.inconclusive(&format!("case {idx}"), "agent did not exit within 25 s");
            continue;
        }
        let filters: Vec<String> = g.log.iter().filter(|q| q.op == "get-config").map(|q| q.detail.clone()).collect();
        let wit = |extra: Value| json!({"running": clip(&running, 2500), "statements": stmts.iter().map(|s| json!({"kind": s.kind, "selected": s.selected})).collect::<Vec<_>>(), "exit": run.exit,
            "get_config_requests": filters, "stderr_tail": clip(&run.stderr.lines().rev().take(6).collect::<Vec<_>>().join(" | "), 900), "unmodelled": g.unmodelled, "case_index": idx, "seed": cfg.seed, "observed": extra});
        if !g.unmodelled.is_empty() {
            rep.inconclusive(&format!("case {idx}"), &format!("the fake router does not model: {:?}", g.unmodelled));
            continue;
        }
        let loaded: BTreeSet<String> = g.ephemeral.policies.keys().cloned().collect();
        let want: BTreeSet<String> = stmts.iter().filter_map(|s| s.selected.clone()).filter(|(_, e)| canonical(e).is_some()).map(|(n, _)| n).collect();
        if run.exit != Some(0) {
            rep.violation("agent:run-failed-over-a-legitimate-configuration", &format!("exit {:?}", run.exit), wit(json!({})));
            continue;
        }
        let mut ok = true;
        for s in &stmts {
            let name = s.node.kids.iter().find(|k| k.name == "name").and_then(|k| k.text.clone()).unwrap_or_default();
            let is = loaded.contains(&name);
            let should = want.contains(&name);
            if is && !should {
                ok = false;
                rep.violation(&format!("agent:manages-but-should-not:{}", s.kind), &format!("the agent loaded filters into policy {name:?} ({})", s.kind), wit(json!({"loaded": loaded})));
            } else if !is && should {
                ok = false;
                rep.violation(&format!("agent:does-not-manage-but-should:{}", s.kind), &format!("the agent loaded nothing for policy {name:?} ({})", s.kind), wit(json!({"loaded": loaded})));
            }
        }
        if ok {
            rep.count("runs_managing_exactly_the_selection");
        }
        if rep.samples.len() < rep.max_samples {
            rep.sample(json!({"kinds": stmts.iter().map(|s| s.kind).collect::<Vec<_>>(), "loaded": loaded, "get_config_requests": filters}));
        }
    }
    irr.stop();
    rep.finish()
}
