//! Valid base messages (as `dom::N` trees) for the parser workloads C13 / C14.

use crate::dom::{N, BASE, JCMD, JUNOS, XNM};
use crate::util::Prng;

#[derive(Clone, Copy, Debug, PartialEq, Eq, PartialOrd, Ord)]
pub enum Kind {
    Hello,
    ReplyEmpty,
    ReplyData,
    ReplyBare,
    ReplyLoad,
    Candidates,
    Installed,
}

impl Kind {
    pub fn name(self) -> &'static str {
        match self {
            Kind::Hello => "hello",
            Kind::ReplyEmpty => "rpc-reply(ok|rpc-error)",
            Kind::ReplyData => "rpc-reply(data)",
            Kind::ReplyBare => "rpc-reply(bare)",
            Kind::ReplyLoad => "rpc-reply(load-configuration-results)",
            Kind::Candidates => "config(candidates)",
            Kind::Installed => "config(installed)",
        }
    }
    pub const ALL: [Kind; 7] = [Kind::Hello, Kind::ReplyEmpty, Kind::ReplyData, Kind::ReplyBare, Kind::ReplyLoad, Kind::Candidates, Kind::Installed];
}

#[derive(Clone, Debug)]
pub struct Base {
    pub kind: Kind,
    pub label: String,
    /// tree with the message-id placeholder "@ID@" in rpc-reply
    pub tree: N,
}

fn rpc_error(r: &mut Prng, severity: &str, n: usize) -> N {
    let mut e = N::el(BASE, "rpc-error")
        .kid(N::token(BASE, "error-type", r.pick_str(&["transport", "rpc", "protocol", "application"])))
        .kid(N::token(BASE, "error-tag", r.pick_str(&["invalid-value", "operation-failed", "bad-element", "lock-denied"])))
        .kid(N::token(BASE, "error-severity", severity));
    if r.chance(1, 2) {
        e = e.kid(N::leaf(BASE, "error-app-tag", "app-tag-1"));
    }
    if r.chance(1, 2) {
        e = e.kid(N::leaf(BASE, "error-path", "/a/b"));
    }
    e = e.kid(N::leaf(BASE, "error-message", &format!("message number {n}")));
    if r.chance(1, 2) {
        let mut info = N::el(BASE, "error-info").kid(N::leaf(BASE, "bad-element", "route-filter"));
        if r.chance(1, 2) {
            info = info.kid(N::token(BASE, "session-id", "17"));
        }
        e = e.kid(info);
    }
    e
}

fn reply(kids: Vec<N>) -> N {
    N::el(BASE, "rpc-reply").attr("", "message-id", "@ID@").attr("", "custom", "x y").kids(kids)
}

fn route_filter(addr: &str, range: &str) -> N {
    N::el(XNM, "route-filter")
        .kid(N::token(XNM, "address", addr))
        .kid(N::token(XNM, "choice-ident", "prefix-length-range"))
        .kid(N::token(XNM, "choice-value", range))
}

fn term(family: &str, filters: Vec<N>) -> N {
    N::el(XNM, "term")
        .kid(N::leaf(XNM, "name", family))
        .kid(N::el(XNM, "from").kid(N::token(XNM, "family", family)).kids(filters))
        .kid(N::el(XNM, "then").kid(N::el(XNM, "accept")))
}

pub fn installed_policy(name: &str, v4: &[(&str, &str)], v6: &[(&str, &str)]) -> N {
    let mut p = N::el(XNM, "policy-statement").kid(N::leaf(XNM, "name", name));
    if !v4.is_empty() {
        p = p.kid(term("inet", v4.iter().map(|(a, r)| route_filter(a, r)).collect()));
    }
    if !v6.is_empty() {
        p = p.kid(term("inet6", v6.iter().map(|(a, r)| route_filter(a, r)).collect()));
    }
    p.kid(N::el(XNM, "then").kid(N::el(XNM, "reject")))
}

pub fn candidate_policy(name: &str, comment: &str, active: Option<bool>) -> N {
    let mut p = N::el(XNM, "policy-statement").attr(JCMD, "comment", comment);
    if let Some(a) = active {
        p = p.attr(JCMD, "active", if a { "true" } else { "false" });
    }
    p.kid(N::leaf(XNM, "name", name)).kid(N::el(XNM, "then").kid(N::el(XNM, "reject")))
}

pub fn config_data(policies: Vec<N>) -> N {
    N::el(BASE, "data").kid(
        N::el(XNM, "configuration")
            .attr(JUNOS, "changed-seconds", "1709120869")
            .attr(JUNOS, "changed-localtime", "2024-02-28 11:47:49 UTC")
            .kid(N::el(XNM, "policy-options").kids(policies)),
    )
}

/// a deterministic family of accepted base messages
pub fn bases(seed: u64) -> Vec<Base> {
    let mut r = Prng::derive(seed, "bases", 0);
    let mut v = Vec::new();
    let mut push = |kind: Kind, label: &str, tree: N| v.push(Base { kind, label: label.into(), tree });
    // ---- hello
    let caps_sets: [&[&str]; 4] = [
        &["urn:ietf:params:netconf:base:1.0"],
        &["urn:ietf:params:netconf:base:1.0", "urn:ietf:params:netconf:capability:candidate:1.0", "http://xml.juniper.net/netconf/junos/1.0"],
        &["urn:ietf:params:netconf:base:1.0", "urn:ietf:params:netconf:capability:url:1.0?scheme=http,ftp,file", "urn:ietf:params:netconf:capability:xpath:1.0", "urn:ietf:params:xml:ns:yang:ietf-netconf-monitoring"],
        &["urn:ietf:params:netconf:base:1.0", "urn:ietf:params:netconf:capability:validate:1.1", "http://xml.juniper.net/dmi/system/1.0"],
    ];
    for (i, caps) in caps_sets.iter().enumerate() {
        let t = N::el(BASE, "hello")
            .kid(N::el(BASE, "capabilities").kids(caps.iter().map(|c| N::token(BASE, "capability", c))))
            .kid(N::token(BASE, "session-id", &format!("{}", 100 + i)));
        push(Kind::Hello, &format!("hello-{i}"), t);
    }
    // ---- EmptyReply
    push(Kind::ReplyEmpty, "ok", reply(vec![N::el(BASE, "ok")]));
    for i in 0..4 {
        let n = 1 + r.below(3);
        let errs = (0..n)
            .map(|k| {
                let sev = if r.chance(3, 4) { "error" } else { "warning" };
                rpc_error(&mut r, sev, k)
            })
            .collect();
        push(Kind::ReplyEmpty, &format!("errors-{i}"), reply(errs));
    }
    // ---- DataReply<Opaque>
    push(Kind::ReplyData, "data-text", reply(vec![N::leaf(BASE, "data", "payload text")]));
    push(Kind::ReplyData, "data-empty", reply(vec![N::el(BASE, "data")]));
    for i in 0..2 {
        let errs = (0..1 + r.below(2)).map(|k| rpc_error(&mut r, "error", k)).collect();
        push(Kind::ReplyData, &format!("data-errors-{i}"), reply(errs));
    }
    // ---- BareReply
    push(Kind::ReplyBare, "bare-empty", reply(vec![]));
    for i in 0..2 {
        let errs = (0..1 + r.below(2)).map(|k| rpc_error(&mut r, "error", k)).collect();
        push(Kind::ReplyBare, &format!("bare-errors-{i}"), reply(errs));
    }
    // ---- load-configuration
    push(Kind::ReplyLoad, "load-ok", reply(vec![N::el(BASE, "load-configuration-results").kid(N::el(BASE, "ok"))]));
    push(
        Kind::ReplyLoad,
        "load-warning-ok",
        reply(vec![N::el(BASE, "load-configuration-results").kid(rpc_error(&mut r, "warning", 0)).kid(N::el(BASE, "ok"))]),
    );
    for i in 0..2 {
        let n = 1 + r.below(2);
        let mut res = N::el(BASE, "load-configuration-results");
        for k in 0..n {
            res = res.kid(rpc_error(&mut r, "error", k));
        }
        res = res.kid(N::token(BASE, "load-error-count", &format!("{n}")));
        push(Kind::ReplyLoad, &format!("load-errors-{i}"), reply(vec![res]));
    }
    // ---- candidates
    push(Kind::Candidates, "cand-none", config_data(vec![]));
    push(
        Kind::Candidates,
        "cand-mixed",
        config_data(vec![
            candidate_policy("fltr-foo", "/* bgpfu-fltr: AS-FOO */", None),
            candidate_policy("fltr-bar", "/* bgpfu-fltr: AS-BAR OR AS65000 */", Some(true)),
            candidate_policy("fltr-off", "/* bgpfu-fltr: AS-OFF */", Some(false)),
            candidate_policy("other", "/* unrelated */", None),
            N::el(XNM, "policy-statement").kid(N::leaf(XNM, "name", "plain")).kid(N::el(XNM, "then").kid(N::el(XNM, "accept"))),
        ]),
    );
    push(
        Kind::Candidates,
        "cand-single",
        config_data(vec![candidate_policy("fltr-baz", "bgpfu-fltr: AS-BAZ AND { 10.0.0.0/8 }^+", None)]),
    );
    // ---- installed
    push(Kind::Installed, "inst-none", config_data(vec![]));
    push(
        Kind::Installed,
        "inst-two",
        config_data(vec![
            installed_policy("fltr-foo", &[("197.157.64.0/19", "/20-/24"), ("41.78.188.0/22", "/23-/24")], &[("2c0f:fa90::/32", "/33-/48")]),
            installed_policy("fltr-bar", &[], &[("2001:db8::/32", "/32-/48")]),
        ]),
    );
    push(Kind::Installed, "inst-empty-policy", config_data(vec![installed_policy("fltr-empty", &[], &[])]));
    // ---- (appended later, so that the random draws of the bases above stay what they were)
    // long free text in another script: a kilobyte or two of two- and three-byte characters puts a
    // character across every small power-of-two offset in one variant or another
    {
        let long_text = |unit: &str, n: usize| -> String { std::iter::repeat(unit).take(n).collect() };
        let mut e = rpc_error(&mut r, "error", 0);
        e.kids.retain(|k| k.name != "error-message");
        let e2 = e.clone().kid(N::leaf(BASE, "error-message", &format!("op\u{e9}ration refus\u{e9}e: {}", long_text("\u{e9}", 900))));
        push(Kind::ReplyEmpty, "errors-long-two-byte-text", reply(vec![e2]));
        let e3 = e.kid(N::leaf(BASE, "error-message", &format!("{} \u{20ac}", long_text("\u{20ac}\u{65e5}", 400))));
        push(Kind::ReplyBare, "bare-errors-long-three-byte-text", reply(vec![e3]));
    }
    // load-configuration: a warning next to an error, counted
    {
        let res = N::el(BASE, "load-configuration-results")
            .kid(rpc_error(&mut r, "warning", 0))
            .kid(rpc_error(&mut r, "error", 1))
            .kid(N::token(BASE, "load-error-count", "2"));
        push(Kind::ReplyLoad, "load-warning-and-error-counted", reply(vec![res]));
    }
    v
}
