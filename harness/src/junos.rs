//! Reference model of the Junos `policy-options` configuration in an ephemeral instance:
//! merge semantics of `load-configuration action="merge" format="xml"`, rendering as a
//! `get-config` reply in the form attested by the repository's fixtures, and the structural
//! accept-set rule of C02.

use crate::xmlstrict::{self, Elem};
use std::collections::{BTreeMap, BTreeSet};

pub const XNM: &str = "http://xml.juniper.net/xnm/1.1/xnm";

/// (family 4|6, network address, prefix length, lower, upper)
pub type Range = (u8, u128, u8, u8, u8);

#[derive(Clone, Debug, PartialEq, Eq)]
pub enum Action {
    Accept,
    Reject,
    Other(String),
}

#[derive(Clone, Debug, Default, PartialEq, Eq)]
pub struct Term {
    pub name: String,
    pub family: Option<String>,
    /// route-filters as written: (address text, range text "/l-/u")
    pub filters: BTreeSet<(String, String)>,
    pub action: Option<Action>,
}

#[derive(Clone, Debug, Default, PartialEq, Eq)]
pub struct Policy {
    pub name: String,
    pub comment: Option<String>,
    pub terms: Vec<Term>,
    pub default_action: Option<Action>,
}

#[derive(Clone, Debug, Default, PartialEq, Eq)]
pub struct Config {
    pub policies: BTreeMap<String, Policy>,
}

#[derive(Clone, Debug, PartialEq, Eq)]
pub enum Event {
    PolicyCreated(String),
    PolicyMerged(String),
    PolicyDeleted(String),
    /// like Junos' "statement not found": a warning, not an error
    DeleteOfAbsent(String),
}

pub fn parse_v4(s: &str) -> Option<u128> {
    let mut v: u32 = 0;
    let parts: Vec<&str> = s.split('.').collect();
    if parts.len() != 4 {
        return None;
    }
    for p in parts {
        let n: u8 = p.parse().ok()?;
        v = (v << 8) | u32::from(n);
    }
    Some(u128::from(v))
}

pub fn fmt_addr(family: u8, addr: u128) -> String {
    if family == 4 {
        std::net::Ipv4Addr::from(addr as u32).to_string()
    } else {
        std::net::Ipv6Addr::from(addr).to_string()
    }
}

/// "a.b.c.d/len" or "x:y::/len" -> (family, addr, len)
pub fn parse_prefix(s: &str) -> Option<(u8, u128, u8)> {
    let (a, l) = s.split_once('/')?;
    let len: u8 = l.parse().ok()?;
    if a.contains(':') {
        let ip: std::net::Ipv6Addr = a.parse().ok()?;
        (len <= 128).then_some((6, u128::from(ip), len))
    } else {
        (len <= 32).then_some((4, parse_v4(a)?, len))
    }
}

/// model filter (address, "/l-/u") -> Range
pub fn filter_range(f: &(String, String)) -> Option<Range> {
    let (fam, addr, len) = parse_prefix(&f.0)?;
    let (l, u) = f.1.split_once('-')?;
    let lo: u8 = l.strip_prefix('/')?.parse().ok()?;
    let hi: u8 = u.strip_prefix('/')?.parse().ok()?;
    Some((fam, addr, len, lo, hi))
}

/// facade range string "prefix,lo,hi"
pub fn range_to_facade(r: &Range) -> String {
    format!("{}/{},{},{}", fmt_addr(r.0, r.1), r.2, r.3, r.4)
}

pub fn facade_to_range(s: &str) -> Option<Range> {
    let mut it = s.split(',');
    let (fam, addr, len) = parse_prefix(it.next()?)?;
    let lo = it.next()?.parse().ok()?;
    let hi = it.next()?.parse().ok()?;
    Some((fam, addr, len, lo, hi))
}

fn action_of(then: &Elem) -> Result<Option<Action>, String> {
    let mut a = None;
    for e in then.elems() {
        let this = match e.local() {
            "accept" => Action::Accept,
            "reject" => Action::Reject,
            other => Action::Other(other.to_string()),
        };
        if a.is_some() {
            return Err("unmodelled-payload: several actions in <then>".into());
        }
        a = Some(this);
    }
    Ok(a)
}

fn is_delete(e: &Elem) -> Result<bool, String> {
    match e.attr("delete") {
        None => Ok(false),
        Some("delete") => Ok(true),
        Some(other) => Err(format!("unmodelled-payload: delete=\"{other}\"")),
    }
}

impl Config {
    /// Apply one `<configuration>` payload with merge semantics.
    pub fn apply(&mut self, payload: &str) -> Result<Vec<Event>, String> {
        let doc = xmlstrict::parse(payload.as_bytes()).map_err(|e| format!("payload not well-formed: {e:?}"))?;
        self.apply_elem(&doc.root)
    }

    pub fn apply_elem(&mut self, root: &Elem) -> Result<Vec<Event>, String> {
        let mut events = Vec::new();
        if root.local() != "configuration" {
            return Err(format!("unmodelled-payload: root element <{}>", root.local()));
        }
        for po in root.elems() {
            if po.local() != "policy-options" {
                return Err(format!("unmodelled-payload: <configuration>/<{}>", po.local()));
            }
            for ps in po.elems() {
                if ps.local() != "policy-statement" {
                    return Err(format!("unmodelled-payload: <policy-options>/<{}>", ps.local()));
                }
                let name = ps.child("name").map(|n| n.text()).ok_or("policy-statement without <name>")?;
                if is_delete(ps)? {
                    if self.policies.remove(&name).is_some() {
                        events.push(Event::PolicyDeleted(name));
                    } else {
                        events.push(Event::DeleteOfAbsent(format!("policy-statement {name}")));
                    }
                    continue;
                }
                let existed = self.policies.contains_key(&name);
                let pol = self.policies.entry(name.clone()).or_insert_with(|| Policy { name: name.clone(), ..Default::default() });
                events.push(if existed { Event::PolicyMerged(name.clone()) } else { Event::PolicyCreated(name.clone()) });
                if let Some(c) = ps.attr("junos:comment") {
                    pol.comment = Some(c.to_string());
                }
                for e in ps.elems() {
                    match e.local() {
                        "name" => {}
                        "then" => {
                            if let Some(a) = action_of(e)? {
                                pol.default_action = Some(a);
                            }
                        }
                        "term" => {
                            let tname = e.child("name").map(|n| n.text()).ok_or("term without <name>")?;
                            if is_delete(e)? {
                                let before = pol.terms.len();
                                pol.terms.retain(|t| t.name != tname);
                                if pol.terms.len() == before {
                                    events.push(Event::DeleteOfAbsent(format!("term {tname} of {name}")));
                                }
                                continue;
                            }
                            if !pol.terms.iter().any(|t| t.name == tname) {
                                pol.terms.push(Term { name: tname.clone(), ..Default::default() });
                            }
                            let term = pol.terms.iter_mut().find(|t| t.name == tname).unwrap();
                            for te in e.elems() {
                                match te.local() {
                                    "name" => {}
                                    "then" => {
                                        if let Some(a) = action_of(te)? {
                                            term.action = Some(a);
                                        }
                                    }
                                    "from" => {
                                        for fe in te.elems() {
                                            match fe.local() {
                                                "family" => term.family = Some(fe.text()),
                                                "route-filter" => {
                                                    let addr = fe.child("address").map(|a| a.text()).ok_or("route-filter without <address>")?;
                                                    let range = fe.child("prefix-length-range").map(|a| a.text()).ok_or("unmodelled-payload: route-filter without <prefix-length-range>")?;
                                                    if fe.elems().count() != 2 {
                                                        return Err("unmodelled-payload: extra elements in route-filter".into());
                                                    }
                                                    let key = (addr, range);
                                                    if is_delete(fe)? {
                                                        if !term.filters.remove(&key) {
                                                            events.push(Event::DeleteOfAbsent(format!("route-filter {key:?} of {name}/{tname}")));
                                                        }
                                                    } else {
                                                        term.filters.insert(key);
                                                    }
                                                }
                                                other => return Err(format!("unmodelled-payload: <from>/<{other}>")),
                                            }
                                        }
                                    }
                                    other => return Err(format!("unmodelled-payload: <term>/<{other}>")),
                                }
                            }
                        }
                        other => return Err(format!("unmodelled-payload: <policy-statement>/<{other}>")),
                    }
                }
            }
        }
        Ok(events)
    }

    /// `<data>` element of a get-config reply, in the form of the repository's fixtures
    pub fn render_data(&self) -> String {
        let mut s = String::from("<data>");
        s.push_str(&self.render_configuration());
        s.push_str("</data>");
        s
    }

    pub fn render_configuration(&self) -> String {
        let mut s = format!(
            "<configuration xmlns=\"{XNM}\" xmlns:junos=\"http://xml.juniper.net/junos/23.1R0/junos\" junos:changed-seconds=\"1709120869\" junos:changed-localtime=\"2024-02-28 11:47:49 UTC\">"
        );
        if !self.policies.is_empty() {
            s.push_str("<policy-options>");
            for p in self.policies.values() {
                s.push_str("<policy-statement><name>");
                s.push_str(&xmlstrict::escape_text(&p.name));
                s.push_str("</name>");
                for t in &p.terms {
                    s.push_str("<term><name>");
                    s.push_str(&xmlstrict::escape_text(&t.name));
                    s.push_str("</name>");
                    if t.family.is_some() || !t.filters.is_empty() {
                        s.push_str("<from>");
                        if let Some(f) = &t.family {
                            s.push_str(&format!("<family>{f}</family>"));
                        }
                        for (a, r) in &t.filters {
                            if r.starts_with('/') {
                                s.push_str(&format!(
                                    "<route-filter><address>{a}</address><choice-ident>prefix-length-range</choice-ident><choice-value>{r}</choice-value></route-filter>"
                                ));
                            } else {
                                // a match type the agent never writes (orlonger, exact, longer): somebody edited the policy by hand
                                s.push_str(&format!("<route-filter><address>{a}</address><choice-ident>{r}</choice-ident><choice-value></choice-value></route-filter>"));
                            }
                        }
                        s.push_str("</from>");
                    }
                    match &t.action {
                        Some(Action::Accept) => s.push_str("<then><accept/></then>"),
                        Some(Action::Reject) => s.push_str("<then><reject/></then>"),
                        Some(Action::Other(o)) => s.push_str(&format!("<then><{o}/></then>")),
                        None => {}
                    }
                    s.push_str("</term>");
                }
                match &p.default_action {
                    Some(Action::Accept) => s.push_str("<then><accept/></then>"),
                    Some(Action::Reject) => s.push_str("<then><reject/></then>"),
                    Some(Action::Other(o)) => s.push_str(&format!("<then><{o}/></then>")),
                    None => {}
                }
                s.push_str("</policy-statement>");
            }
            s.push_str("</policy-options>");
        }
        s.push_str("</configuration>");
        s
    }
}

impl Policy {
    /// the set of ranges accepted for `family` ("inet"/"inet6"), as the model sees it
    pub fn accepted(&self, family: &str) -> BTreeSet<Range> {
        let mut out = BTreeSet::new();
        for t in &self.terms {
            if t.action == Some(Action::Accept) && t.family.as_deref() == Some(family) {
                out.extend(t.filters.iter().filter_map(filter_range));
            }
        }
        out
    }

    /// C02's structural rule: every accepting term is restricted to exactly one family and to
    /// >= 1 explicit prefix-length-range route-filters, all of which belong to `allowed` for that
    /// family; the statement ends in an unconditional reject. Returns the reasons it fails.
    pub fn fail_open_reasons(&self, allowed_v4: &BTreeSet<Range>, allowed_v6: &BTreeSet<Range>) -> Vec<String> {
        let mut why = Vec::new();
        for t in &self.terms {
            match &t.action {
                Some(Action::Accept) => {
                    let allowed = match t.family.as_deref() {
                        Some("inet") => allowed_v4,
                        Some("inet6") => allowed_v6,
                        other => {
                            why.push(format!("accepting term '{}' has family {other:?}: not restricted to one address family", t.name));
                            continue;
                        }
                    };
                    if t.filters.is_empty() {
                        why.push(format!("accepting term '{}' has no route-filter: accepts every {} route", t.name, t.family.as_deref().unwrap_or("?")));
                    }
                    for f in &t.filters {
                        match filter_range(f) {
                            Some(r) if allowed.contains(&r) => {}
                            Some(_) => why.push(format!("accepting term '{}' has route-filter {f:?} which is not in the evaluated set", t.name)),
                            None => why.push(format!("accepting term '{}' has unparseable route-filter {f:?}", t.name)),
                        }
                    }
                }
                Some(Action::Reject) | None => {}
                Some(Action::Other(o)) => why.push(format!("term '{}' has action {o}", t.name)),
            }
        }
        if self.default_action != Some(Action::Reject) {
            why.push(format!("statement does not end in an unconditional reject (default action {:?})", self.default_action));
        }
        why
    }
}
