//! C09 — requests use only what the server's advertised capabilities permit, and everything within
//! the advertised capabilities can be built and sent.  Oracle: an RFC 6241 section 8 table written
//! here, applied (a) to the recipe and (b) to the features present in the bytes on the wire.

use crate::memwire::{self, BASE_NS, JUNOS_CAP, MARKER};
use crate::sess::{self, Exchange, Sess};
use crate::util::{clip_bytes, Cfg, Report};
use crate::xmlstrict::{self, Elem};
use netconf::message::rpc::operation::edit_config::{DefaultOperation, ErrorOption, TestOption};
use netconf::message::rpc::operation::junos::{
    CloseConfiguration, CommitConfiguration, LockConfiguration, OpenConfiguration, UnlockConfiguration,
};
use netconf::message::rpc::operation::{
    Builder, CancelCommit, Commit, CopyConfig, Datastore, DeleteConfig, DiscardChanges, EditConfig, Filter, Get,
    GetConfig, KillSession, Lock, Opaque, Unlock, Validate,
};
use serde_json::json;
use std::collections::BTreeSet;
use std::time::Duration;

/// the capability set a server advertises (besides :base:1.0)
#[derive(Clone, Debug, PartialEq, Eq, PartialOrd, Ord)]
pub struct Caps {
    pub writable_running: bool,
    pub candidate: bool,
    pub cc10: bool,
    pub cc11: bool,
    pub rollback: bool,
    pub validate10: bool,
    pub validate11: bool,
    pub startup: bool,
    pub xpath: bool,
    pub junos: bool,
    /// None = no :url capability; Some(schemes)
    pub url: Option<Vec<&'static str>>,
}

const SCHEMES: &[&str] = &["http", "ftp", "file"];

impl Caps {
    pub fn from_bits(bits: u32) -> Self {
        let b = |i: u32| bits & (1 << i) != 0;
        let url_bits = (bits >> 10) & 0xF; // 0 = none; 1..=8 -> subset (url_bits-1) of 3 schemes (incl. empty list)
        let url = if url_bits == 0 || url_bits > 8 {
            None
        } else {
            let m = url_bits - 1;
            Some(SCHEMES.iter().enumerate().filter(|(i, _)| m & (1 << i) != 0).map(|(_, s)| *s).collect())
        };
        Self {
            writable_running: b(0),
            candidate: b(1),
            cc10: b(2),
            cc11: b(3),
            rollback: b(4),
            validate10: b(5),
            validate11: b(6),
            startup: b(7),
            xpath: b(8),
            junos: b(9),
            url,
        }
    }
    pub const SPACE: u32 = (1 << 10) * 9;
    pub fn from_index(i: u32) -> Self {
        let low = i % (1 << 10);
        let url = i / (1 << 10); // 0..9
        Self::from_bits(low | (url << 10))
    }
    pub fn uris(&self) -> Vec<String> {
        let mut v = vec!["urn:ietf:params:netconf:base:1.0".to_string()];
        let mut add = |c: bool, s: &str| {
            if c {
                v.push(format!("urn:ietf:params:netconf:capability:{s}"));
            }
        };
        add(self.writable_running, "writable-running:1.0");
        add(self.candidate, "candidate:1.0");
        add(self.cc10, "confirmed-commit:1.0");
        add(self.cc11, "confirmed-commit:1.1");
        add(self.rollback, "rollback-on-error:1.0");
        add(self.validate10, "validate:1.0");
        add(self.validate11, "validate:1.1");
        add(self.startup, "startup:1.0");
        add(self.xpath, "xpath:1.0");
        if let Some(s) = &self.url {
            v.push(format!("urn:ietf:params:netconf:capability:url:1.0?scheme={}", s.join(",")));
        }
        if self.junos {
            v.push(JUNOS_CAP.to_string());
        }
        v
    }
}

/// a protocol feature whose use RFC 6241 section 8 (or the Junos capability) gates
#[derive(Clone, Debug, PartialEq, Eq, PartialOrd, Ord)]
pub enum Feature {
    Op(&'static str),
    Source(&'static str),
    Target(&'static str),
    LockTarget(&'static str),
    XPathFilter,
    UrlScheme(String),
    Confirmed,
    ConfirmTimeout,
    Persist,
    PersistId,
    TestOption(&'static str),
    ErrorOption(&'static str),
}

/// RFC 6241 table: is `f` permitted under `c`?
pub fn permitted(c: &Caps, f: &Feature) -> bool {
    let ds = |d: &str| match d {
        "candidate" => c.candidate,
        "startup" => c.startup,
        _ => true,
    };
    match f {
        Feature::Op(op) => match *op {
            "commit" | "discard-changes" => c.candidate,        // 8.3.4
            "cancel-commit" => c.cc11,                           // 8.4.4.1 (added by :confirmed-commit:1.1)
            "validate" => c.validate10 || c.validate11,          // 8.6
            "open-configuration" | "close-configuration" | "lock-configuration" | "unlock-configuration"
            | "commit-configuration" | "load-configuration" => c.junos,
            _ => true,
        },
        Feature::Source(d) => ds(d),
        Feature::LockTarget(d) => ds(d),
        Feature::Target(d) => match *d {
            "running" => c.writable_running,                     // 8.2
            other => ds(other),
        },
        Feature::XPathFilter => c.xpath,                         // 8.9
        Feature::UrlScheme(s) => c.url.as_ref().map_or(false, |v| v.iter().any(|x| x == s)), // 8.8
        Feature::Confirmed | Feature::ConfirmTimeout => c.cc10 || c.cc11, // 8.4
        Feature::Persist | Feature::PersistId => c.cc11,         // 8.4.5 (1.1 only)
        Feature::TestOption(v) => match *v {
            "test-only" => c.validate11,                         // 8.6.4.1: test-only added in 1.1
            _ => c.validate10 || c.validate11,
        },
        Feature::ErrorOption(v) => match *v {
            "rollback-on-error" => c.rollback,                   // 8.5
            _ => true,
        },
    }
}

/// what a recipe asks for
#[derive(Clone, Debug)]
pub struct Recipe {
    pub name: String,
    pub features: Vec<Feature>,
    /// features the caller set explicitly to their default value: not serialised, RFC silent
    pub dont_care: Vec<Feature>,
    /// the builder refuses this combination for a reason unrelated to capabilities
    pub invalid: bool,
    pub run: fn(&mut Sess, &Recipe) -> Exchange<String>,
    pub p: Params,
}

#[derive(Clone, Debug, Default)]
pub struct Params {
    pub ds1: Option<&'static str>,
    pub ds2: Option<&'static str>,
    pub filter: u8, // 0 none 1 subtree 2 xpath
    pub url: Option<&'static str>,
    pub err_opt: u8,
    pub test_opt: u8,
    pub confirmed: Option<bool>,
    pub timeout: bool,
    pub persist: Option<bool>,    // Some(true)=token, Some(false)=explicit None
    pub persist_id: Option<bool>,
    pub variant: u8,
}

fn ds(s: &str) -> Datastore {
    match s {
        "candidate" => Datastore::Candidate,
        "startup" => Datastore::Startup,
        _ => Datastore::Running,
    }
}

fn filt(f: u8) -> Option<Filter> {
    match f {
        1 => Some(Filter::Subtree("<top/>".into())),
        2 => Some(Filter::XPath("/top".into())),
        _ => None,
    }
}

fn ok(id: Option<&str>) -> Option<Vec<u8>> {
    Some(memwire::ok_reply(id.unwrap_or("0")))
}
fn data(id: Option<&str>) -> Option<Vec<u8>> {
    Some(memwire::data_reply(id.unwrap_or("0"), "d"))
}
fn bare(id: Option<&str>) -> Option<Vec<u8>> {
    Some(format!("<rpc-reply xmlns=\"{BASE_NS}\" message-id=\"{}\"></rpc-reply>{MARKER}", id.unwrap_or("0")).into_bytes())
}

fn unit<T>(e: Exchange<T>) -> Exchange<String> {
    match e {
        Exchange::BuildErr { err, sent } => Exchange::BuildErr { err, sent },
        Exchange::Reply { request, message_id, result } => {
            Exchange::Reply { request, message_id, result: result.map(|_| String::new()) }
        }
        Exchange::Stuck { request } => Exchange::Stuck { request },
        Exchange::Panic { msg } => Exchange::Panic { msg },
    }
}

fn url_of(scheme: &str) -> String {
    match scheme {
        "file" => "file:///var/tmp/config.xml".into(),
        s => format!("{s}://host.example/config.xml"),
    }
}

pub fn recipes() -> Vec<Recipe> {
    let mut v: Vec<Recipe> = Vec::new();
    let dss: [&'static str; 3] = ["running", "candidate", "startup"];
    let mut push = |name: String, features: Vec<Feature>, dont_care: Vec<Feature>, invalid: bool, p: Params,
                    run: fn(&mut Sess, &Recipe) -> Exchange<String>| {
        v.push(Recipe { name, features, dont_care, invalid, run, p });
    };
    // get
    for f in 0..3u8 {
        let mut feats = vec![Feature::Op("get")];
        if f == 2 {
            feats.push(Feature::XPathFilter);
        }
        push(format!("get filter={f}"), feats, vec![], false, Params { filter: f, ..Default::default() }, |s, r| {
            unit(s.exchange::<Get, _, _>(|b| b.filter(filt(r.p.filter)).finish(), data))
        });
    }
    // get-config
    for d in dss {
        for f in 0..3u8 {
            let mut feats = vec![Feature::Op("get-config"), Feature::Source(d)];
            if f == 2 {
                feats.push(Feature::XPathFilter);
            }
            push(
                format!("get-config source={d} filter={f}"),
                feats,
                vec![],
                false,
                Params { ds1: Some(d), filter: f, ..Default::default() },
                |s, r| {
                    unit(s.exchange::<GetConfig<Opaque>, _, _>(
                        |b| b.source(ds(r.p.ds1.unwrap()))?.filter(filt(r.p.filter))?.finish(),
                        data,
                    ))
                },
            );
        }
    }
    // edit-config: target x source(config|url scheme) x error-option x test-option
    let err_opts: [(u8, Option<&'static str>); 4] = [(0, None), (1, Some("stop-on-error")), (2, Some("continue-on-error")), (3, Some("rollback-on-error"))];
    let test_opts: [(u8, Option<&'static str>); 4] = [(0, None), (1, Some("test-then-set")), (2, Some("set")), (3, Some("test-only"))];
    for d in dss {
        for src in [None, Some("http"), Some("ftp"), Some("file"), Some("https")] {
            for (eo, eo_name) in err_opts {
                for (to, to_name) in test_opts {
                    let mut feats = vec![Feature::Op("edit-config"), Feature::Target(d)];
                    let mut dc = vec![];
                    if let Some(sch) = src {
                        feats.push(Feature::UrlScheme(sch.to_string()));
                    }
                    match eo_name {
                        Some("stop-on-error") => dc.push(Feature::ErrorOption("stop-on-error")),
                        Some(n) => feats.push(Feature::ErrorOption(n)),
                        None => {}
                    }
                    match to_name {
                        // test-then-set is the default *if* :validate is supported; setting it
                        // explicitly is not serialised: RFC silent
                        Some("test-then-set") => dc.push(Feature::TestOption("test-then-set")),
                        Some(n) => feats.push(Feature::TestOption(n)),
                        None => {}
                    }
                    push(
                        format!("edit-config target={d} src={src:?} error-option={eo_name:?} test-option={to_name:?}"),
                        feats,
                        dc,
                        false,
                        Params { ds1: Some(d), url: src, err_opt: eo, test_opt: to, ..Default::default() },
                        |s, r| {
                            unit(s.exchange::<EditConfig<Opaque>, _, _>(
                                |b| {
                                    let mut b = b.target(ds(r.p.ds1.unwrap()))?;
                                    b = match r.p.url {
                                        Some(sch) => b.url(url_of(sch))?,
                                        None => b.config(Opaque::from("<top/>")),
                                    };
                                    b = b.default_operation(DefaultOperation::Merge);
                                    b = match r.p.err_opt {
                                        1 => b.error_option(ErrorOption::StopOnError)?,
                                        2 => b.error_option(ErrorOption::ContinueOnError)?,
                                        3 => b.error_option(ErrorOption::RollbackOnError)?,
                                        _ => b,
                                    };
                                    b = match r.p.test_opt {
                                        1 => b.test_option(TestOption::TestThenSet)?,
                                        2 => b.test_option(TestOption::Set)?,
                                        3 => b.test_option(TestOption::TestOnly)?,
                                        _ => b,
                                    };
                                    b.finish()
                                },
                                ok,
                            ))
                        },
                    );
                }
            }
        }
    }
    // copy-config: target x source (datastore | inline config)
    for t in dss {
        for sopt in [Some("running"), Some("candidate"), Some("startup"), None] {
            let mut feats = vec![Feature::Op("copy-config"), Feature::Target(t)];
            if let Some(sd) = sopt {
                feats.push(Feature::Source(sd));
            }
            push(
                format!("copy-config target={t} source={sopt:?}"),
                feats,
                vec![],
                false,
                Params { ds1: Some(t), ds2: sopt, ..Default::default() },
                |s, r| {
                    unit(s.exchange::<CopyConfig, _, _>(
                        |b| {
                            let b = b.target(ds(r.p.ds1.unwrap()))?;
                            match r.p.ds2 {
                                Some(sd) => b.source(ds(sd))?,
                                None => b.config("<top/>".into()),
                            }
                            .finish()
                        },
                        ok,
                    ))
                },
            );
        }
    }
    // delete-config
    for t in dss {
        push(
            format!("delete-config target={t}"),
            vec![Feature::Op("delete-config"), Feature::Target(t)],
            vec![],
            t == "running", // RFC 6241 7.4: the running configuration cannot be deleted
            Params { ds1: Some(t), ..Default::default() },
            |s, r| unit(s.exchange::<DeleteConfig, _, _>(|b| b.target(ds(r.p.ds1.unwrap()))?.finish(), ok)),
        );
    }
    for sch in ["http", "ftp", "file", "https"] {
        push(
            format!("delete-config url={sch}"),
            vec![Feature::Op("delete-config"), Feature::UrlScheme(sch.to_string())],
            vec![],
            false,
            Params { url: Some(sch), ..Default::default() },
            |s, r| unit(s.exchange::<DeleteConfig, _, _>(|b| b.url(url_of(r.p.url.unwrap()))?.finish(), ok)),
        );
    }
    // lock / unlock
    for t in dss {
        push(
            format!("lock target={t}"),
            vec![Feature::Op("lock"), Feature::LockTarget(t)],
            vec![],
            false,
            Params { ds1: Some(t), ..Default::default() },
            |s, r| unit(s.exchange::<Lock, _, _>(|b| b.target(ds(r.p.ds1.unwrap()))?.finish(), ok)),
        );
        push(
            format!("unlock target={t}"),
            vec![Feature::Op("unlock"), Feature::LockTarget(t)],
            vec![],
            false,
            Params { ds1: Some(t), ..Default::default() },
            |s, r| unit(s.exchange::<Unlock, _, _>(|b| b.target(ds(r.p.ds1.unwrap()))?.finish(), ok)),
        );
    }
    // kill-session, discard-changes
    push("kill-session other".into(), vec![Feature::Op("kill-session")], vec![], false, Params::default(), |s, _| {
        unit(s.exchange::<KillSession, _, _>(|b| b.session_id(7)?.finish(), ok))
    });
    push("kill-session self".into(), vec![Feature::Op("kill-session")], vec![], true, Params::default(), |s, _| {
        unit(s.exchange::<KillSession, _, _>(|b| b.session_id(4242)?.finish(), ok))
    });
    push("discard-changes".into(), vec![Feature::Op("discard-changes")], vec![], false, Params::default(), |s, _| {
        unit(s.exchange::<DiscardChanges, _, _>(|b| b.finish(), ok))
    });
    // commit: confirmed? x timeout? x persist? x persist-id?
    // ... x the order in which the caller sets them (a builder's setters commute)
    for order in [0u8, 1] {
    for confirmed in [None, Some(false), Some(true)] {
        for timeout in [false, true] {
            for persist in [None, Some(false), Some(true)] {
                for persist_id in [None, Some(false), Some(true)] {
                    let mut feats = vec![Feature::Op("commit")];
                    let mut dc = vec![];
                    match confirmed {
                        Some(true) => feats.push(Feature::Confirmed),
                        Some(false) => dc.push(Feature::Confirmed),
                        None => {}
                    }
                    // confirm-timeout is only serialised inside a confirmed commit
                    if timeout {
                        if confirmed == Some(true) {
                            feats.push(Feature::ConfirmTimeout);
                        } else {
                            dc.push(Feature::ConfirmTimeout);
                        }
                    }
                    match persist {
                        Some(true) => feats.push(Feature::Persist),
                        Some(false) => dc.push(Feature::Persist),
                        None => {}
                    }
                    match persist_id {
                        Some(true) => feats.push(Feature::PersistId),
                        Some(false) => dc.push(Feature::PersistId),
                        None => {}
                    }
                    // RFC 6241 8.4.5.1: persist only with confirmed; persist-id confirms a
                    // previous commit and is not used together with confirmed
                    let invalid = (confirmed == Some(true) && persist_id == Some(true))
                        || (confirmed != Some(true) && persist == Some(true));
                    push(
                        format!("commit confirmed={confirmed:?} timeout={timeout} persist={persist:?} persist-id={persist_id:?}{}", if order == 1 { " setters-in-reverse-order" } else { "" }),
                        feats,
                        dc,
                        invalid,
                        Params { confirmed, timeout, persist, persist_id, variant: order, ..Default::default() },
                        |s, r| {
                            unit(s.exchange::<Commit, _, _>(
                                |mut b| {
                                    use netconf::message::rpc::operation::Token;
                                    let steps: [u8; 4] = if r.p.variant == 1 { [3, 2, 1, 0] } else { [0, 1, 2, 3] };
                                    for step in steps {
                                        match step {
                                            0 => {
                                                if let Some(c) = r.p.confirmed {
                                                    b = b.confirmed(c)?;
                                                }
                                            }
                                            1 => {
                                                if r.p.timeout {
                                                    b = b.confirm_timeout(Duration::from_secs(120))?;
                                                }
                                            }
                                            2 => {
                                                if let Some(p) = r.p.persist {
                                                    b = b.persist(p.then(|| Token::new("tok-1")))?;
                                                }
                                            }
                                            _ => {
                                                if let Some(p) = r.p.persist_id {
                                                    b = b.persist_id(p.then(|| Token::new("tok-2")))?;
                                                }
                                            }
                                        }
                                    }
                                    b.finish()
                                },
                                ok,
                            ))
                        },
                    );
                }
            }
        }
    }
    }
    // cancel-commit
    for pid in [None, Some(false), Some(true)] {
        let mut feats = vec![Feature::Op("cancel-commit")];
        let mut dc = vec![];
        match pid {
            Some(true) => feats.push(Feature::PersistId),
            Some(false) => dc.push(Feature::PersistId),
            None => {}
        }
        push(format!("cancel-commit persist-id={pid:?}"), feats, dc, false, Params { persist_id: pid, ..Default::default() }, |s, r| {
            unit(s.exchange::<CancelCommit, _, _>(
                |mut b| {
                    use netconf::message::rpc::operation::Token;
                    if let Some(p) = r.p.persist_id {
                        b = b.persist_id(p.then(|| Token::new("tok-3")))?;
                    }
                    b.finish()
                },
                ok,
            ))
        });
    }
    // validate
    for sopt in [Some("running"), Some("candidate"), Some("startup"), None] {
        let mut feats = vec![Feature::Op("validate")];
        if let Some(sd) = sopt {
            feats.push(Feature::Source(sd));
        }
        push(format!("validate source={sopt:?}"), feats, vec![], false, Params { ds1: sopt, ..Default::default() }, |s, r| {
            unit(s.exchange::<Validate, _, _>(
                |b| match r.p.ds1 {
                    Some(sd) => b.source(ds(sd))?,
                    None => b.config("<top/>".into()),
                }
                .finish(),
                ok,
            ))
        });
    }
    // Junos operations
    for variant in 0..3u8 {
        push(
            format!("open-configuration variant={variant}"),
            vec![Feature::Op("open-configuration")],
            vec![],
            false,
            Params { variant, ..Default::default() },
            |s, r| {
                unit(s.exchange::<OpenConfiguration, _, _>(
                    |b| match r.p.variant {
                        0 => b.private(),
                        1 => b.ephemeral(None::<&str>),
                        _ => b.ephemeral(Some("inst")),
                    }
                    .finish(),
                    bare,
                ))
            },
        );
    }
    push("close-configuration".into(), vec![Feature::Op("close-configuration")], vec![], false, Params::default(), |s, _| {
        unit(s.exchange::<CloseConfiguration, _, _>(|b| b.finish(), bare))
    });
    push("lock-configuration".into(), vec![Feature::Op("lock-configuration")], vec![], false, Params::default(), |s, _| {
        unit(s.exchange::<LockConfiguration, _, _>(|b| b.finish(), bare))
    });
    push("unlock-configuration".into(), vec![Feature::Op("unlock-configuration")], vec![], false, Params::default(), |s, _| {
        unit(s.exchange::<UnlockConfiguration, _, _>(|b| b.finish(), bare))
    });
    for variant in 0..3u8 {
        push(
            format!("commit-configuration variant={variant}"),
            vec![Feature::Op("commit-configuration")],
            vec![],
            false,
            Params { variant, ..Default::default() },
            |s, r| {
                unit(s.exchange::<CommitConfiguration, _, _>(
                    |b| match r.p.variant {
                        0 => b,
                        1 => b.check(true).with_log_message("m"),
                        _ => b.confirmed_with_timeout(Duration::from_secs(300)).synchronize(false),
                    }
                    .finish(),
                    ok,
                ))
            },
        );
    }
    push("load-configuration text".into(), vec![Feature::Op("load-configuration")], vec![], false, Params::default(), |s, _| {
        use netconf::message::rpc::operation::junos::load_configuration::{Config, Merge, Text};
        use netconf::message::rpc::operation::junos::LoadConfiguration;
        unit(s.exchange::<LoadConfiguration<Config<String, Text, Merge>>, _, _>(
            |b| b.source(Config::new("system { }".to_string(), Text, Merge)).finish(),
            |id| {
                Some(
                    format!(
                        "<rpc-reply xmlns=\"{BASE_NS}\" message-id=\"{}\"><load-configuration-results><ok/></load-configuration-results></rpc-reply>{MARKER}",
                        id.unwrap_or("0")
                    )
                    .into_bytes(),
                )
            },
        ))
    });
    // a parameter the operation needs is simply not set: whatever the builder does about it
    // (refuse, or fall back to a default), what reaches the wire has to be permitted. Only the
    // forward direction is judged for these ("omitted:" recipes).
    push("omitted: edit-config without target".into(), vec![Feature::Op("edit-config")], vec![], false, Params::default(), |s, _| {
        unit(s.exchange::<EditConfig<Opaque>, _, _>(|b| b.config(Opaque::from("<top/>")).finish(), ok))
    });
    push("omitted: edit-config without source".into(), vec![Feature::Op("edit-config")], vec![], false, Params::default(), |s, _| {
        unit(s.exchange::<EditConfig<Opaque>, _, _>(|b| b.target(Datastore::Candidate)?.finish(), ok))
    });
    push("omitted: edit-config without anything".into(), vec![Feature::Op("edit-config")], vec![], false, Params::default(), |s, _| {
        unit(s.exchange::<EditConfig<Opaque>, _, _>(|b| b.finish(), ok))
    });
    push("omitted: copy-config without target".into(), vec![Feature::Op("copy-config")], vec![], false, Params::default(), |s, _| {
        unit(s.exchange::<CopyConfig, _, _>(|b| b.source(Datastore::Running)?.finish(), ok))
    });
    push("omitted: copy-config without source".into(), vec![Feature::Op("copy-config")], vec![], false, Params::default(), |s, _| {
        unit(s.exchange::<CopyConfig, _, _>(|b| b.target(Datastore::Candidate)?.finish(), ok))
    });
    push("omitted: copy-config without anything".into(), vec![Feature::Op("copy-config")], vec![], false, Params::default(), |s, _| {
        unit(s.exchange::<CopyConfig, _, _>(|b| b.finish(), ok))
    });
    push("omitted: delete-config without target".into(), vec![Feature::Op("delete-config")], vec![], false, Params::default(), |s, _| {
        unit(s.exchange::<DeleteConfig, _, _>(|b| b.finish(), ok))
    });
    push("omitted: get-config without source".into(), vec![Feature::Op("get-config")], vec![], false, Params::default(), |s, _| {
        unit(s.exchange::<GetConfig<Opaque>, _, _>(|b| b.finish(), data))
    });
    push("omitted: lock without target".into(), vec![Feature::Op("lock")], vec![], false, Params::default(), |s, _| {
        unit(s.exchange::<Lock, _, _>(|b| b.finish(), ok))
    });
    push("omitted: unlock without target".into(), vec![Feature::Op("unlock")], vec![], false, Params::default(), |s, _| {
        unit(s.exchange::<Unlock, _, _>(|b| b.finish(), ok))
    });
    push("omitted: validate without source".into(), vec![Feature::Op("validate")], vec![], false, Params::default(), |s, _| {
        unit(s.exchange::<Validate, _, _>(|b| b.finish(), ok))
    });
    v
}

/// features present in the bytes of a request (what a server would see)
pub fn features_in_bytes(root: &Elem) -> Vec<Feature> {
    let mut f = Vec::new();
    let Some(op) = root.elems().next() else { return f };
    let opname: &'static str = match op.local() {
        "get" => "get",
        "get-config" => "get-config",
        "edit-config" => "edit-config",
        "copy-config" => "copy-config",
        "delete-config" => "delete-config",
        "lock" => "lock",
        "unlock" => "unlock",
        "kill-session" => "kill-session",
        "commit" => "commit",
        "cancel-commit" => "cancel-commit",
        "discard-changes" => "discard-changes",
        "validate" => "validate",
        "close-session" => "close-session",
        "open-configuration" => "open-configuration",
        "close-configuration" => "close-configuration",
        "lock-configuration" => "lock-configuration",
        "unlock-configuration" => "unlock-configuration",
        "commit-configuration" => "commit-configuration",
        "load-configuration" => "load-configuration",
        _ => "unknown-operation",
    };
    f.push(Feature::Op(opname));
    let dsname = |e: &Elem| -> Option<&'static str> {
        e.elems().find_map(|c| match c.local() {
            "running" => Some("running"),
            "candidate" => Some("candidate"),
            "startup" => Some("startup"),
            _ => None,
        })
    };
    let scheme = |e: &Elem| -> Option<String> {
        e.child("url").map(|u| u.text().split(':').next().unwrap_or("").to_string())
    };
    let junos_op = opname.ends_with("-configuration");
    if !junos_op {
        if let Some(src) = op.child("source") {
            if let Some(d) = dsname(src) {
                f.push(Feature::Source(d));
            }
            if let Some(s) = scheme(src) {
                f.push(Feature::UrlScheme(s));
            }
        }
        if let Some(t) = op.child("target") {
            if let Some(d) = dsname(t) {
                f.push(if opname == "lock" || opname == "unlock" { Feature::LockTarget(d) } else { Feature::Target(d) });
            }
            if let Some(s) = scheme(t) {
                f.push(Feature::UrlScheme(s));
            }
        }
        if let Some(s) = scheme(op) {
            f.push(Feature::UrlScheme(s));
        }
        if let Some(fl) = op.child("filter") {
            if fl.attr("type") == Some("xpath") {
                f.push(Feature::XPathFilter);
            }
        }
        if op.child("confirmed").is_some() {
            f.push(Feature::Confirmed);
        }
        if op.child("confirm-timeout").is_some() {
            f.push(Feature::ConfirmTimeout);
        }
        if op.child("persist").is_some() {
            f.push(Feature::Persist);
        }
        if op.child("persist-id").is_some() {
            f.push(Feature::PersistId);
        }
        if let Some(t) = op.child("test-option") {
            f.push(Feature::TestOption(match t.text().as_str() {
                "test-then-set" => "test-then-set",
                "set" => "set",
                "test-only" => "test-only",
                _ => "unknown",
            }));
        }
        if let Some(t) = op.child("error-option") {
            f.push(Feature::ErrorOption(match t.text().as_str() {
                "stop-on-error" => "stop-on-error",
                "continue-on-error" => "continue-on-error",
                "rollback-on-error" => "rollback-on-error",
                _ => "unknown",
            }));
        }
    }
    f
}

fn feature_class(f: &Feature) -> String {
    match f {
        Feature::Op(o) => format!("operation:{o}"),
        Feature::Source(d) => format!("source:{d}"),
        Feature::Target(d) => format!("target:{d}"),
        Feature::LockTarget(d) => format!("lock-target:{d}"),
        Feature::XPathFilter => "xpath-filter".into(),
        Feature::UrlScheme(s) => format!("url-scheme:{s}"),
        Feature::Confirmed => "confirmed".into(),
        Feature::ConfirmTimeout => "confirm-timeout".into(),
        Feature::Persist => "persist".into(),
        Feature::PersistId => "persist-id".into(),
        Feature::TestOption(v) => format!("test-option:{v}"),
        Feature::ErrorOption(v) => format!("error-option:{v}"),
    }
}

pub fn run(cfg: &Cfg) -> i32 {
    let mut rep = Report::new(
        "C09",
        cfg,
        "one evaluation = one (advertised capability set, request recipe) pair executed through the public builders on a real session \
         established with that server hello; distinct = distinct pairs; non-trivial = the recipe uses at least one capability-gated feature",
    );
    rep.assumptions.push("capability table = RFC 6241 section 8 as transcribed in harness/src/c09.rs::permitted; Junos operations require the Junos capability URI".into());
    rep.assumptions.push("explicitly setting a parameter to its default value (not serialised) is counted as dont_care: RFC 6241 is silent".into());
    let recs = recipes();
    rep.extra.insert("recipes".into(), json!(recs.len()));
    let full = cfg.thorough();
    let sets: Vec<u32> = if full {
        (0..Caps::SPACE).filter(|i| u64::from(*i) % cfg.shards == cfg.shard).collect()
    } else {
        let mut r = cfg.prng("C09", 0);
        let mut s: BTreeSet<u32> = [0, Caps::SPACE - 1, 1 << 9, 1 << 1].into_iter().collect();
        while s.len() < 300 {
            s.insert((r.next_u64() % u64::from(Caps::SPACE)) as u32);
        }
        s.into_iter().collect()
    };
    let mut dont_care = 0u64;
    let mut sent_n = 0u64;
    let mut refused_n = 0u64;
    for ci in &sets {
        let caps = Caps::from_index(*ci);
        let mut uris = caps.uris();
        // large devices advertise one capability per YANG module they implement, hundreds of
        // them, in any position relative to the standard ones: what a request may use does not
        // depend on how many others there are
        if ci % 7 == 3 {
            let n = [100usize, 123, 124, 127, 128, 129, 300, 1000][(*ci as usize / 7) % 8];
            let mut filler: Vec<String> = (0..n).map(|k| format!("http://example.com/yang/module-{k}?module=module-{k}&revision=2024-01-{:02}", 1 + k % 28)).collect();
            let base = uris.remove(0);
            match (*ci / 56) % 3 {
                0 => {
                    // base first, then the modules, the standard capabilities last
                    filler.insert(0, base);
                    filler.extend(uris);
                    uris = filler;
                }
                1 => {
                    // everything standard last, the base capability included
                    filler.push(base);
                    filler.extend(uris);
                    uris = filler;
                }
                _ => {
                    uris.insert(0, base);
                    uris.extend(filler);
                }
            }
            rep.count("capability_sets_in_a_large_hello");
        }
        let uri_refs: Vec<&str> = uris.iter().map(String::as_str).collect();
        let mut s = match sess::establish(&memwire::server_hello(&uri_refs, "4242")) {
            sess::Established::Ok(s) => s,
            other if uris.len() > 20 => {
                // the same capabilities in a small hello establish a session (every other set of
                // this run does): with the session refused nothing at all can be sent
                rep.case(Some(format!("{ci}|large-hello").as_bytes()));
                rep.violation(
                    "refused-although-permitted:session:hello-with-many-capabilities",
                    &format!("no session with a server whose hello lists {} capabilities, the base capability among them: {other:?}", uris.len()),
                    json!({"capabilities": uris.len(), "caps_index": ci, "first": &uris[..3.min(uris.len())], "last": &uris[uris.len().saturating_sub(3)..]}),
                );
                continue;
            }
            other => panic!("harness: could not establish a session with a plain hello: {other:?}"),
        };
        rep.count("capability_sets");
        for rc in &recs {
            let expect_ok = !rc.invalid && rc.features.iter().all(|f| permitted(&caps, f));
            let dc_blocked = rc.dont_care.iter().any(|f| !permitted(&caps, f));
            let gated = rc.features.iter().chain(rc.dont_care.iter()).any(|f| {
                !matches!(f, Feature::Op("get" | "get-config" | "edit-config" | "copy-config" | "delete-config" | "lock" | "unlock" | "kill-session"))
                    && !matches!(f, Feature::Source("running") | Feature::LockTarget("running"))
            });
            let key = format!("{ci}|{}", rc.name);
            rep.case(if gated { Some(key.as_bytes()) } else { None });
            let before = s.sent_count();
            let ex = (rc.run)(&mut s, rc);
            let wit = |extra: serde_json::Value| json!({"capabilities": uris, "recipe": rc.name, "caps_index": ci, "observed": extra});
            match ex {
                Exchange::Reply { request, .. } => {
                    sent_n += 1;
                    // (forward) everything present in the bytes must be permitted
                    let body = request.strip_suffix(MARKER.as_bytes()).unwrap_or(&request);
                    match xmlstrict::parse(body) {
                        Ok(doc) => {
                            for f in features_in_bytes(&doc.root) {
                                if !permitted(&caps, &f) {
                                    rep.violation(
                                        &format!("sent-without-capability:{}:{}", doc.root.elems().next().map_or("?", |e| e.local()), feature_class(&f)),
                                        &format!("request uses {f:?}, which the advertised capabilities do not permit, and was put on the wire"),
                                        wit(json!({"request": clip_bytes(&request, 600)})),
                                    );
                                }
                                if matches!(f, Feature::Op("unknown-operation") | Feature::TestOption("unknown") | Feature::ErrorOption("unknown")) {
                                    rep.violation("unparseable-feature", &format!("{f:?}"), wit(json!({"request": clip_bytes(&request, 600)})));
                                }
                            }
                        }
                        Err(e) => rep.violation("request-not-well-formed", &format!("{e:?}"), wit(json!({"request": clip_bytes(&request, 600)}))),
                    }
                    if rc.name.starts_with("omitted:") {
                        rep.count("omitted_parameter_requests_sent_with_a_default");
                    }
                    if rc.invalid {
                        rep.violation(
                            &format!("invalid-combination-sent:{}", rc.name.split(' ').next().unwrap_or("")),
                            "a parameter combination the protocol forbids was put on the wire",
                            wit(json!({"request": clip_bytes(&request, 600)})),
                        );
                    }
                    if s.sent_count() != before + 1 {
                        rep.violation("not-exactly-one-request", "", wit(json!({"sent": s.sent_count() - before})));
                    }
                }
                Exchange::BuildErr { err, sent } => {
                    refused_n += 1;
                    if sent {
                        rep.violation("error-but-sent", &format!("rpc() failed ({err}) but bytes reached the wire"), wit(json!({})));
                    }
                    if rc.name.starts_with("omitted:") {
                        rep.count("omitted_parameter_requests_refused_locally");
                    } else if expect_ok {
                        if dc_blocked {
                            dont_care += 1;
                        } else {
                            // (converse) within the advertised capabilities, yet refused
                            let first = rc.features.iter().map(feature_class).collect::<Vec<_>>().join("+");
                            rep.violation(
                                &format!("refused-although-permitted:{}", rc.name.split(' ').next().unwrap_or("")),
                                &format!("request within the advertised capabilities was refused locally: {err} (features {first})"),
                                wit(json!({"error": err})),
                            );
                        }
                    }
                }
                other => rep.violation("harness-or-panic", &format!("{other:?}"), wit(json!({}))),
            }
            if rep.samples.len() < rep.max_samples && gated && (rep.evaluations % 977 == 0) {
                rep.sample(json!({"capabilities": uris, "recipe": rc.name, "expected_permitted": expect_ok}));
            }
        }
    }
    scheme_stage(&mut rep, cfg);
    rep.count_n("requests_on_wire", sent_n);
    rep.count_n("refused_locally", refused_n);
    rep.count_n("dont_care_explicit_default", dont_care);
    rep.exhaustive = Some(full); // each shard enumerates its slice of the space completely
    rep.extra.insert("capability_space".into(), json!(Caps::SPACE));
    rep.extra.insert("capability_sets_explored_by_this_shard".into(), json!(sets.len()));
    rep.finish()
}


const REAL_SCHEMES: &[&str] = &[
    "http", "https", "ftp", "sftp", "file", "scp", "tftp", "git+ssh", "coap+tcp", "z39.50r", "view-source", "soap.beep", "xmlrpc.beeps",
    "iris.xpc", "tn3270", "h323", "ms-settings", "svn+ssh", "a", "x-y.z+w",
];

/// a scheme name of the RFC 3986 grammar: ALPHA *( ALPHA / DIGIT / "+" / "-" / "." ), lower case
fn gen_scheme(r: &mut crate::util::Prng) -> String {
    if r.chance(1, 2) {
        return (*r.pick(REAL_SCHEMES)).to_string();
    }
    let mut s = String::new();
    s.push((b'a' + r.below(26) as u8) as char);
    for _ in 0..r.range(0, 7) {
        let c = b"abcdefghijklmnopqrstuvwxyz0123456789+-."[r.below(39)];
        s.push(c as char);
    }
    s
}

/// URL schemes: any scheme name of the URI grammar may be advertised in the :url capability
/// (RFC 6241 8.8.3); a request naming a URL is sent iff its scheme is one of the advertised ones.
fn scheme_stage(rep: &mut Report, cfg: &Cfg) {
    let n = cfg.count(3_000, 150_000);
    for i in 0..n {
        let idx = cfg.case_index(i);
        let mut r = cfg.prng("C09-schemes", idx);
        let mut adv: Vec<String> = Vec::new();
        for _ in 0..r.range(0, 4) {
            let s = gen_scheme(&mut r);
            if !adv.contains(&s) {
                adv.push(s);
            }
        }
        let used = if !adv.is_empty() && r.chance(1, 2) {
            adv[r.below(adv.len())].clone()
        } else if !adv.is_empty() && r.chance(1, 2) {
            // near miss of an advertised one
            let a = adv[r.below(adv.len())].clone();
            match r.below(4) {
                0 => format!("{a}x"),
                1 if a.len() > 1 => a[..a.len() - 1].to_string(),
                2 => a.replace(['+', '-', '.'], ""),
                _ => a.split(['+', '-', '.']).next().unwrap_or("q").to_string(),
            }
        } else {
            gen_scheme(&mut r)
        };
        if used.is_empty() {
            continue;
        }
        let permitted = adv.contains(&used);
        let mut uris = vec!["urn:ietf:params:netconf:base:1.0".to_string(), "urn:ietf:params:netconf:capability:candidate:1.0".to_string()];
        // one :url capability listing every scheme, or (one case in three, with two or more
        // schemes) several :url capabilities each listing some: what is advertised is the union
        if adv.len() >= 2 && r.chance(1, 3) {
            let cut = r.range(1, adv.len() - 1);
            uris.push(format!("urn:ietf:params:netconf:capability:url:1.0?scheme={}", adv[..cut].join(",")));
            uris.push(format!("urn:ietf:params:netconf:capability:url:1.0?scheme={}", adv[cut..].join(",")));
            rep.count("scheme_cases:schemes-spread-over-several-url-capabilities");
        } else {
            uris.push(format!("urn:ietf:params:netconf:capability:url:1.0?scheme={}", adv.join(",")));
        }
        let uri_refs: Vec<&str> = uris.iter().map(String::as_str).collect();
        let mut s = match sess::establish(&memwire::server_hello(&uri_refs, "4242")) {
            sess::Established::Ok(s) => s,
            other => {
                rep.violation("url-scheme:hello-rejected", &format!("{other:?}"), json!({"capabilities": uris}));
                continue;
            }
        };
        let url = format!("{used}://host.example/config.xml");
        let op = r.below(2);
        let key = format!("schemes|{adv:?}|{used}|{op}");
        rep.case(Some(key.as_bytes()));
        let special = used.contains(['+', '-', '.']) || used.chars().any(|c| c.is_ascii_digit());
        rep.count(if special { "scheme_cases:with-plus-minus-dot-or-digit" } else { "scheme_cases:letters-only" });
        rep.count(if permitted { "scheme_cases:advertised" } else { "scheme_cases:not-advertised" });
        let ex = if op == 0 {
            unit(s.exchange::<DeleteConfig, _, _>(|b| b.url(url.clone())?.finish(), ok))
        } else {
            unit(s.exchange::<EditConfig<Opaque>, _, _>(|b| b.target(Datastore::Candidate)?.url(url.clone())?.finish(), ok))
        };
        let opname = if op == 0 { "delete-config" } else { "edit-config" };
        let class = if special { "non-letter-scheme" } else { "letter-scheme" };
        let wit = json!({"capabilities": uris, "url": url, "operation": opname, "case_index": idx, "seed": cfg.seed});
        match ex {
            Exchange::Reply { request, .. } => {
                if !permitted {
                    rep.violation(&format!("sent-without-capability:{opname}:url-scheme"), &format!("scheme {used:?} is not among the advertised {adv:?}"), wit);
                } else if !String::from_utf8_lossy(&request).contains(&url) {
                    rep.violation(&format!("url-scheme:{opname}:url-not-in-request"), "", wit);
                }
            }
            Exchange::BuildErr { err, sent } => {
                if sent {
                    rep.violation("error-but-sent", &err, wit.clone());
                }
                if permitted {
                    rep.violation(&format!("refused-although-permitted:{opname}:url:{class}"), &format!("scheme {used:?} is advertised ({adv:?}) but the request was refused locally: {err}"), wit);
                }
            }
            other => rep.violation("harness-or-panic", &format!("{other:?}"), wit),
        }
    }
}
